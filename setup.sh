#!/usr/bin/env bash
# Offline cold build of the harness (MANIFEST.setup_cmd). Everything comes from
# files on disk: /repo (path dependencies) and the local cargo registry cache.
set -eu
ROOT="$(cd "$(dirname "${BASH_SOURCE[0]}")" && pwd)"
export CARGO_NET_OFFLINE=true
cd "$ROOT/harness"
cargo build --profile strict -p vcheck
if [ -d "$ROOT/harness/vderive" ]; then
  cargo build --profile strict -p vderive
fi
# second builds of C04 / C01 against other feature sets of clap (own workspaces)
for v in plain minimal; do
  if [ -d "$ROOT/harness/$v" ]; then
    ( cd "$ROOT/harness/$v" && cargo build --profile strict )
  fi
done
echo "setup ok"
