#!/usr/bin/env python3
import json, sys, glob, jsonschema
schema = json.load(open("/root/.vp/EVIDENCE.schema.json"))
ok = True
for f in sorted(glob.glob("/verif/evidence/*.json")):
    try:
        jsonschema.validate(json.load(open(f)), schema)
        e = json.load(open(f))
        print("ok  ", f, e["tier"], e["coverage"]["evaluations"], e["coverage"]["distinct_nontrivial"], e["wall_s"])
    except Exception as ex:
        ok = False
        print("BAD ", f, str(ex)[:300])
sys.exit(0 if ok else 1)
