#!/usr/bin/env bash
# tools/lab.sh <patch.diff> <ID> [tier]  -- like try_mutant.sh, but without touching /repo: the patch is applied to the
# scratch worktree /tmp/confirm (created from /repo's HEAD if missing) and the check is run from a copy of the
# harness under /tmp/lab whose path dependencies point at that worktree. Evidence and failures go to /tmp/lab/root.
# LAB_SRC=<dir> takes harness/, corpus/ and known_findings.json from another checkout of /verif; <patch.diff> "-" = unchanged tree;
# VERIF_SEED is passed through. Development aid only (no registered command uses it); remove /tmp/lab and the worktree when done.
set -u
PATCH="$1"; ID="$2"; TIER="${3:-quick}"
WT="${LAB_WT:-/tmp/confirm}"
LAB=/tmp/lab
[ -d "$WT" ] || git -C /repo worktree add --detach "$WT" HEAD >/dev/null
git -C "$WT" checkout -q --detach "$(git -C /repo rev-parse HEAD)" && git -C "$WT" checkout -- . 
mkdir -p "$LAB/root"
rsync -a --delete --exclude target --exclude 'fuzz' "${LAB_SRC:-/verif}/harness/" "$LAB/harness/"
sed -i "s#\"/repo#\"$WT#g" "$LAB/harness/Cargo.toml" "$LAB/harness/vderive/Cargo.toml"
rsync -a --delete "${LAB_SRC:-/verif}/corpus/" "$LAB/root/corpus/"; cp "${LAB_SRC:-/verif}/known_findings.json" "$LAB/root/"
[ "$PATCH" = "-" ] || git -C "$WT" apply "$PATCH" || { echo "patch does not apply"; exit 2; }
BIN=vcheck; [ "$ID" = C15 ] && BIN=vderive
( cd "$LAB/harness" && CARGO_NET_OFFLINE=true cargo build --profile strict -p $BIN 2>&1 | grep -E "^error" -A8 | head -30 )
VERIF_ROOT="$LAB/root" VERIF_REPO_ROOT="$WT" "$LAB/harness/target/strict/$BIN" "$ID" "$TIER" 2>&1 | grep -E "^(failure:|message:|OK|VIOLATION|KNOWN)" | cut -c1-${COLS:-300}
rc=${PIPESTATUS[0]}
git -C "$WT" checkout -- .
echo "lab rc=$rc"
exit $rc
