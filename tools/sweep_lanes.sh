#!/usr/bin/env bash
# tools/sweep_lanes.sh <lanes> [tier] [name...] -- tools/sweep_seeded.sh in parallel lanes, without touching /repo:
# every lane gets a scratch worktree of /repo's HEAD and a copy of /verif (check, harness, corpus, known findings) whose
# path dependencies point at that worktree, takes every <lanes>-th seeded change, applies it there and runs
# `./check <ID> <tier>` of the copy. The lines (same format as sweep_seeded.sh) are merged into /verif/seeded/SWEEP.txt.
# Scratch space: /tmp/sweep-lane-<i> (removed at the end). /repo must be clean (the lanes test HEAD + one change).
set -u
LANES="${1:?usage: sweep_lanes.sh <lanes> [tier] [name...]}"; shift
TIER="${1:-quick}"; shift || true
OUT=/verif/seeded/SWEEP.txt
names=("$@")
full=0
if [ ${#names[@]} -eq 0 ]; then names=($(cd /verif/seeded && ls -d C*-* )); full=1; fi
if ! git -C /repo diff --quiet; then echo "/repo has uncommitted changes; refusing"; exit 2; fi
HEAD=$(git -C /repo rev-parse HEAD)

lane() { # index
  local i=$1 base=/tmp/sweep-lane-$1
  rm -rf "$base/verif"; mkdir -p "$base"
  if [ -d "$base/repo" ]; then git -C "$base/repo" checkout -q --detach "$HEAD" && git -C "$base/repo" checkout -- .; else git -C /repo worktree add --detach "$base/repo" "$HEAD" >/dev/null 2>&1; fi
  mkdir -p "$base/verif"
  rsync -a --exclude target --exclude 'run-*' --exclude corpus_extra.rs /verif/harness "$base/verif/"
  rsync -a /verif/check /verif/corpus /verif/known_findings.json /verif/tools "$base/verif/"
  mkdir -p "$base/verif/evidence"
  sed -i "s#\"/repo#\"$base/repo#g" "$base/verif/harness/Cargo.toml" "$base/verif/harness/vderive/Cargo.toml" "$base/verif/harness/fuzz/Cargo.toml" \
    "$base/verif/harness/plain/Cargo.toml" "$base/verif/harness/minimal/Cargo.toml" "$base/verif/harness/minimal/vmodel/Cargo.toml"
  : > "$base/lines.txt"
  local k=0
  for name in "${names[@]}"; do
    k=$((k + 1))
    [ $(( (k - 1) % LANES )) -eq "$i" ] || continue
    local id=${name%-*} line
    if ! git -C "$base/repo" apply "/verif/seeded/$name/patch.diff" 2>/dev/null; then
      line="$name rc=2 patch-does-not-apply"
    else
      local out rc sig
      out=$(cd "$base/verif" && VERIF_REPO_ROOT="$base/repo" VERIF_NO_FUZZ=1 ./check "$id" "$TIER" 2>&1); rc=$?
      git -C "$base/repo" checkout -- .
      sig=$(echo "$out" | sed -n 's/^failure: part=\([^ ]*\) signature=\(.*\)$/\1 \2/p' | head -1 | cut -c1-200)
      line="$name rc=$rc $sig"
    fi
    echo "$line" >> "$base/lines.txt"
    echo "$line"
  done
}

for i in $(seq 0 $((LANES - 1))); do lane "$i" & done
wait
if [ $full -eq 1 ]; then : > "$OUT.tmp"; else cp "$OUT" "$OUT.tmp" 2>/dev/null || : > "$OUT.tmp"; fi
for i in $(seq 0 $((LANES - 1))); do
  while read -r line; do
    name=${line%% *}
    grep -v "^$name " "$OUT.tmp" > "$OUT.tmp2"; mv "$OUT.tmp2" "$OUT.tmp"
    echo "$line" >> "$OUT.tmp"
  done < "/tmp/sweep-lane-$i/lines.txt"
done
sort -o "$OUT.tmp" "$OUT.tmp"
mv "$OUT.tmp" "$OUT"
for i in $(seq 0 $((LANES - 1))); do git -C /repo worktree remove --force "/tmp/sweep-lane-$i/repo" 2>/dev/null; rm -rf "/tmp/sweep-lane-$i"; done
