#!/usr/bin/env bash
# tools/sweep_seeded.sh [tier] [name...] -- run every seeded change under /verif/seeded (or the named ones)
# against the check of its property. One line per change in /verif/seeded/SWEEP.txt:
#   <id-k> rc=<rc> <part> <signature>
# rc=1: the check reported a violation (the change was caught); rc=0: missed; rc=2: inconclusive / patch does not apply.
# /repo's working tree is modified while this runs and restored after every change.
set -u
TIER="${1:-quick}"; shift || true
OUT=/verif/seeded/SWEEP.txt
names=("$@")
if [ ${#names[@]} -eq 0 ]; then names=($(cd /verif/seeded && ls -d C*-* )); : > "$OUT.tmp"; else cp "$OUT" "$OUT.tmp" 2>/dev/null || : > "$OUT.tmp"; fi
for name in "${names[@]}"; do
  id=${name%-*}
  if ! git -C /repo diff --quiet; then echo "/repo has uncommitted changes; refusing"; exit 2; fi
  if ! git -C /repo apply "/verif/seeded/$name/patch.diff" 2>/dev/null; then
    line="$name rc=2 patch-does-not-apply"
  else
    out=$(cd /verif && ./check "$id" "$TIER" 2>&1); rc=$?
    git -C /repo checkout -- .
    sig=$(echo "$out" | sed -n 's/^failure: part=\([^ ]*\) signature=\(.*\)$/\1 \2/p' | head -1 | cut -c1-200)
    line="$name rc=$rc $sig"
  fi
  grep -v "^$name " "$OUT.tmp" > "$OUT.tmp2"; mv "$OUT.tmp2" "$OUT.tmp"
  echo "$line" >> "$OUT.tmp"
  echo "$line"
done
sort -o "$OUT.tmp" "$OUT.tmp"
mv "$OUT.tmp" "$OUT"
