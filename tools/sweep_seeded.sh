#!/usr/bin/env bash
# tools/sweep_seeded.sh [tier] -- run every seeded change under /verif/seeded against the check of its property.
# Writes one line per change to /verif/seeded/SWEEP.txt: <id-k> rc=<rc> <signature or note>.
# rc=1 means the check reported a violation (the change was caught); rc=0 means it was missed.
set -u
TIER="${1:-quick}"
OUT=/verif/seeded/SWEEP.txt
: > "$OUT.tmp"
for d in /verif/seeded/C*-*/; do
  name=$(basename "$d"); id=${name%-*}
  [ -f /verif/harness/vcheck/src/$(echo "$id" | tr A-Z a-z).rs ] || [ "$id" = C15 -a -d /verif/harness/vderive ] || { echo "$name rc=- no-check" >> "$OUT.tmp"; continue; }
  out=$(LINES_SHOWN=8 /verif/tools/try_mutant.sh "$d/patch.diff" "$id" "$TIER" 2>&1)
  rc=$(echo "$out" | sed -n 's/^mutant rc=//p')
  sig=$(echo "$out" | sed -n 's/^failure: part=\([^ ]*\) signature=\(.*\)$/\1 \2/p' | head -1 | cut -c1-160)
  [ -z "$rc" ] && rc="?" && sig=$(echo "$out" | tail -1 | cut -c1-160)
  echo "$name rc=$rc $sig" >> "$OUT.tmp"
done
git -C /repo status --short | grep -q . && echo "WARNING: /repo not clean" >> "$OUT.tmp"
mv "$OUT.tmp" "$OUT"
cat "$OUT"
