#!/usr/bin/env python3
"""Regenerate /verif/MANIFEST.json from the table below (kept next to the
checks so that the manifest is always valid and current).  Usage:
    python3 tools/manifest.py            # writes MANIFEST.json, validates it
"""
import json, os, subprocess, sys

ROOT = os.path.dirname(os.path.dirname(os.path.abspath(__file__)))

TITLES = {}
for line in open(os.path.join(ROOT, "properties.jsonl")):
    p = json.loads(line)
    TITLES[p["id"]] = p["title"]

# id -> (technique, level text, level note, design ref)
CLAIMED = {
    "C01": (
        "proptest random search over a choice tape (structured command-tree generator + spec-derived argv generator), totality oracle under catch_unwind, shrinking; thorough tier adds coverage-guided libFuzzer campaigns (cargo-fuzz) over the same decoder and oracle; the random search runs twice, against clap with all features and against a minimal feature set (harness/minimal)",
        "Hundreds of thousands (thorough: tens of millions) of generated command trees that pass clap's own configuration checks are "
        "parsed against argv built from their own spellings, structural tokens, raw bytes incl. invalid UTF-8, huge and repeated tokens; "
        "every panic outside the configuration assertions, every error that cannot be rendered or breaks the exit contract, and every "
        "error returned under ignore_errors other than help/version is a violation. Exploration with shrinking; 'never loops' only as "
        "'every case finished'.",
        "Validity gate = Command::build() under catch_unwind with debug assertions on; a hang is reported as inconclusive (exit 2) by the "
        "watchdog in ./check, never as a violation.",
        "DESIGN.md section 4, C01",
    ),
    "C15": (
        "generated corpus of derive programs + proptest random search per program with four oracles: agreement with the generated command (also extended by the application), "
        "shape-rule interpreter over ArgMatches (reference model), print->parse round trip, update model over histories; bounded-exhaustive "
        "value-enum name tables; shrinking",
        "A generated, compiled corpus of derive families (144 committed: systematic shape x value-type x spelling matrix + random "
        "composition with flatten / Option<flatten> / subcommand enums incl. nested, flattened and external variants, rename_all, ids, "
        "aliases, defaults, num_args, delimiters; thorough adds 150 families regenerated from VERIF_SEED) is driven by generated command "
        "lines, generated values and generated update histories. The oracle is an interpreter of the type-shape rules over a plain-data "
        "descriptor emitted by the corpus generator (not read back from the macro).",
        "Programs are quantified by a compiled corpus, not at run time; env, global/from_global, custom parsers and requirement-excusing "
        "attributes are not in the corpus; only successful update steps are judged; values no command line can express are discarded "
        "(counted per reason in the evidence).",
        "DESIGN.md section 4, C15",
    ),
    "C16": (
        "proptest random search over command trees x six generators: determinism and textual level-coverage oracles from the built command's item sets; for bash a differential test in a real bash process (script sourced, completion function called for generated subcommand paths and partial words)",
        "For generated trees (hyphen/underscore names that collide after mangling, aliases, hidden items, possible values, value hints, "
        "hyphenated bin names) every generator must return, be deterministic, and mention every visible option spelling, possible value "
        "(where the shell completes values) and subcommand spelling inside the block of its level (per-shell block extraction). The bash "
        "script must pass `bash -n` and, executed in bash with COMP_WORDS/COMP_CWORD set for 4-10 queries per tree, answer dash words "
        "with exactly option spellings of the addressed level (all visible ones included) and other words with entries of that level "
        "including every visible subcommand spelling.",
        "Only bash is installed, so the other five scripts are judged textually; names are innocuous (C17 covers hostile text); queries whose "
        "word is a complete subcommand name are not judged.",
        "DESIGN.md section 4, C16",
    ),
    "C17": (
        "proptest random search, metamorphic non-interference oracle: scripts generated with hostile vs innocuous descriptive text are reduced to token skeletons by per-shell lexers and must be equal; culprit slots identified by single-substitution re-runs; shrinking",
        "Hostile strings (quotes of both kinds, typographic quotes, backslashes incl. trailing, $(..), ${x}, backticks, brackets, colons, "
        "#, ;, |, &, newlines, CR, tabs, comment markers) are substituted into about / long_about / help / long_help / possible-value "
        "help at any level; for each of the six generators the script must have the same token skeleton as with innocuous text of the "
        "same emptiness (bash: identical bytes), and must lex at all.",
        "Only bash is installed: for fish, zsh, PowerShell, elvish and nushell the lexers written from their documented quoting rules are "
        "the trusted base; second-level mini-languages (zsh _arguments specs) are not modelled; names stay innocuous.",
        "DESIGN.md section 4, C17",
    ),
    "C18": (
        "proptest random search: totality over every cursor index, and a differential validity/completeness oracle against the built command's item set and the real parser, shrinking; thorough tier adds coverage-guided libFuzzer campaigns (cargo-fuzz) over the same decoder and oracle",
        "Part A calls the engine at every cursor index of argv built from generated trees (incl. hyphen-accepting args, unknown flags, "
        "non-UTF-8): only Ok or the plain 'no completion' error are allowed. Part B places the cursor where a new argument may start "
        "(after a subcommand path and complete tokens) with a word that is a prefix of a legal token: every option/subcommand candidate "
        "must extend the word, name an item of the reached level and not be UnknownArgument/InvalidSubcommand for the real parser; every "
        "visible item with a visible spelling extending the word must be represented; hidden items only when nothing visible matches.",
        "current_dir None, no path hints (no file system); value candidates are not judged; words that look like negative numbers are "
        "excluded from completeness (engine's documented heuristic); shell adapters not covered.",
        "DESIGN.md section 4, C18",
    ),
    "C19": (
        "proptest random search over generated command trees x adversarial text substitutions; no-panic, determinism, coverage, and a metamorphic control-line-invariance oracle (same page shape as an innocuous twin), shrinking",
        "Man pages are rendered for every level of generated trees: no panic in render or any section renderer, two renders identical, "
        "every visible option/positional/subcommand entry present and hidden ones absent; then adversarial strings (leading . or ', such "
        "lines after newlines, backslashes, empty/blank, CRLF) are substituted into any author text slot and the sequence of roff request "
        "names must equal that of the page rendered with innocuous text of the same line shape, so no author text can start a request.",
        "Only request names are compared (arguments of .TH/.SH legitimately carry author text); coverage judged on plain-text pages; roff "
        "semantics of escapes inside text lines are trusted to the roff crate.",
        "DESIGN.md section 4, C19",
    ),
    "C20": (
        "bounded-exhaustive enumeration + proptest random search, two-pointer content-preservation walk and width invariant as oracle, via guarded hook and public help path; thorough tier adds coverage-guided libFuzzer campaigns (cargo-fuzz) over the same decoder and oracle",
        "All texts up to 7 letters (thorough 8) over {word, space, newline, wide, zero-width, SGR} x widths 0..6 x plain/styled, plus random "
        "texts up to 400 letters x widths 0..200/usize::MAX: the output must be the input with inter-word space runs replaced by newline + "
        "indent and nothing else changed, plain lines within the width unless single-word, escape sequences intact, display widths equal to "
        "the unicode-width reference. Also through render_help with sentinels (no hook).",
        "Alphabet as in the statement (no tabs / other Unicode white space / non-SGR control sequences); features wrap_help+unicode; styled "
        "indent only required to be spaces; hooks are thin re-exports.",
        "DESIGN.md section 4, C20",
    ),
    "C02": (
        "proptest random search over intended invocations and their spellings (generated from a grammar of the documented forms), model-based oracle: expected observation computed from the intended invocation, compared with the parse result; shrinking",
        "For conventional command trees an intended invocation (occurrences with values, optional `--`, subcommand chain) is generated "
        "first, then spelled in one of the forms the documented grammar makes equivalent (long/alias/prefix/short/cluster/attached/=/"
        "separated/delimiter-joined/terminator/flag-subcommand forms). The parse must succeed and report, per level, exactly the "
        "supplied ids with exactly the intended raw values per occurrence, the documented logical indices and the intended subcommand "
        "chain: nothing invented, dropped, duplicated or moved.",
        "The expected-result rules (~300 lines, restated from the Arg/ArgMatches documentation) are the trusted base; only unambiguous "
        "spellings are generated; no hyphen-value settings, no globals.",
        "DESIGN.md sections 3.3 and 4, C02",
    ),
    "C03": (
        "proptest random search over generated relation graphs x well-formed argv subsets; oracle = independent evaluation of every declared relation on the explicit (CommandLine/Env) ids of each successful parse, with the documented exemptions; shrinking",
        "Generated commands carry random conflict / requires / requires_if / group / exclusive / required_if_eq / required_unless / override "
        "graphs with defaults and env mixed in; argv supply random subsets of each level's arguments (predicate-mentioned values "
        "preferred). Whenever the parse succeeds, every level of the subcommand chain is checked: no declared conflict between present "
        "ids, exclusive alone, non-multiple groups with <= 1 member, every triggered requirement satisfied or excused by a documented "
        "exemption; presence = explicit source only.",
        "Exemptions are granted to every requirement kind (the library grants fewer, which only makes it stricter); overrides count as "
        "conflicts for excusing, as in the library; no globals; levels below an allow_external_subcommands level are not judged.",
        "DESIGN.md section 4, C03",
    ),
    "C04": (
        "bounded enumeration of boundary strings x parser configurations + proptest random search, independent reference grammar/tables as oracle; model-based (stateful) testing of typed accessors against a map model",
        "Ranged integer parsers of every target width (value_parser!(T) and ::new(), chained .range() calls incl. empty and wider-than-T "
        "ranges) are compared with an exact i128 reading of the decimal grammar on every boundary +-2 in all sign/zero-padding renderings "
        "and on random strings; bool/boolish/falsey parsers with the documented literal tables in every case pattern; possible-value "
        "parsers with names/aliases/case flips; accepted values must equal the mathematical/raw value, rejections must be value errors "
        "naming the argument. Typed get/remove histories run in lock-step with a map model, checking that failed accesses disturb nothing.",
        "Reference grammar = documented FromStr syntax; case-insensitivity compared by lower-casing on a restricted alphabet; debug "
        "assertions on.",
        "DESIGN.md section 4, C04",
    ),
    "C05": (
        "proptest random search: generated valid prefix invocation + `--` + adversarial tail; round-trip oracle (tail must come back byte-for-byte as positional values) and metamorphic non-interference (options as in the parse of the prefix alone); shrinking",
        "For commands with an absorbing final positional (0../1.., string or OS-string, last / trailing_var_arg / delimiter with "
        "dont_delimit_trailing_values, earlier positionals, options, flags, subcommands, inference) a valid prefix is spelled, followed "
        "by `--` and a tail biased to --help/-h/--version, the command's own flags and =-forms, subcommand names, a second `--`, empty "
        "and non-UTF-8 tokens: the parse must be Ok without subcommand, the positional values in index order must equal prefix "
        "positionals ++ tail, a last(true) positional must hold exactly the tail, and every flag/option must look as without the tail.",
        "The two documented cases where `--` is itself a value are excluded by construction; delimiter only together with "
        "dont_delimit_trailing_values; hyphen-accepting positionals left to C01.",
        "DESIGN.md section 4, C05",
    ),
    "C06": (
        "proptest random search over generated default/env/conditional-default configurations x environments x spelled invocations; reference model of the origin order as oracle; shrinking",
        "Arguments carry any mix of defaults, conditional defaults, default_missing, env values (unset/valid/empty/delimited/invalid) "
        "and implicit flag defaults; relations are placed so that the explicit set satisfies them while default-present arguments would "
        "not. Each argument of each level must have exactly the origin command line > env > conditional default > default > absent, "
        "with value_source and raw values of that origin; invalid env values must fail the parse; defaults must never cause conflicts / "
        "missing-required errors; args_present and arg_required_else_help must follow explicit presence only; the ignore_errors "
        "recovery path must resolve sources identically.",
        "Env is snapshotted at definition time (set under a lock for that moment); conditional defaults on default-present arguments are "
        "not compared (definition-order dependent).",
        "DESIGN.md section 4, C06",
    ),
    "C07": (
        "proptest random search over occurrence sequences (incl. Count runs to 300 and illegal repeats) with override relations; sequential reference model as oracle; shrinking",
        "Every action x args_override_self x self overrides x override relations between arguments x occurrence sequences interleaved "
        "and spelled freely: the result must equal the sequential model (override removal in both directions, then the action: replace / "
        "append with boundaries / saturating count / flag value); a repeat without permission must be ArgumentConflict naming a repeated "
        "argument; overridden arguments are no longer command-line sourced; get_count/get_flag agree.",
        "Overrides relate flags/options of one level; no env interplay.",
        "DESIGN.md section 4, C07",
    ),
    "C08": (
        "proptest random search, metamorphic oracle: two/three independently drawn spellings of one generated invocation must give equal ArgMatches (and equal the model's expectation); constructed ambiguous prefixes must never resolve; shrinking",
        "One intended invocation is spelled twice with independent choices over the listed equivalences (= / separated / attached, "
        "cluster / separate, alias / canonical, unambiguous prefix / full, delimiter-joined / separate) and a third time with an explicit "
        "`--` placed anywhere inside a purely positional tail; all must parse Ok to == matches with identical Debug output, equal to the "
        "expected observation. Separately, tokens that are proper prefixes of >= 2 arguments' longs / >= 2 subcommands (constructed) "
        "must never parse Ok with one candidate chosen.",
        "Only the equivalences the statement lists; flag-subcommand forms excluded (index base differs legitimately); trusted base as C02.",
        "DESIGN.md section 4, C08",
    ),
    "C09": (
        "proptest random search over command trees with globals, flag subcommands and external subcommands x spelled invocations; reference model (per-level expectation + strongest-deepest-origin rule for globals) as oracle; shrinking",
        "Trees of depth <= 3 with aliases, long/short flag subcommands and flag aliases, an external-subcommand level, up to four global "
        "arguments defined at any level; invocations give globals at any subset of levels. The reported chain must be the intended one, "
        "external arguments verbatim, every level's non-global arguments as expected against that level's own definition, and each "
        "global identical (values and source) at every level at or below its definition: the occurrence of the deepest level among those "
        "with the strongest origin.",
        "Global ids unique in the tree; the external level has no positionals; indices of propagated values not compared.",
        "DESIGN.md section 4, C09",
    ),
    "C10": (
        "proptest random search with single-fault injection into generated valid invocations (17 fault kinds); oracle = allowed ErrorKind set per fault + error context must name the injected item + suggestions must name defined things + exit contract; plus fault-free lines must parse; shrinking",
        "A valid intended invocation of a conventional command is generated, exactly one fault is injected (unknown long/short/cluster "
        "member, surplus word, required positional removed, conflicting/exclusive partner added, Set repeated, value missing, wrong "
        "count, missing =, value outside possible values / integer range, --flag=x, required subcommand missing, help/version request) "
        "and the line is spelled freely. The error kind must be one the ErrorKind documentation allows for that fault, its context must "
        "name the injected item (with the actual/expected counts where applicable), suggestions must name things defined on the path, "
        "and kind/stream/exit code must obey the contract. Fault-free lines (C02's generator, with typed parsers) must not be rejected.",
        "Expected kinds calibrated against documentation and the unchanged tree; fault-free lines satisfy requirements literally; the "
        "level that raised an error is not observable, so suggestions are compared with everything defined along the path.",
        "DESIGN.md section 4, C10",
    ),
    "C11": (
        "proptest stateful testing: random histories of parse/build/render/clone steps on one Command value, differential oracle against a fresh definition per step, shrinking of the whole history",
        "For generated trees and a pool of argv sharing argv[0], histories of up to 12 steps (ParseMut, Build twice with Debug "
        "comparison, RenderHelp/LongHelp/Usage, CloneThenParse, DebugFormat) are executed on one value; each parse must agree with a "
        "fresh definition parsing the same argv (matches ==, same error kind, identical message unless explicitly built before), "
        "build is idempotent, and two fresh parses are identical.",
        "All argv of a history share argv[0]; env is snapshotted at definition time; after an explicit build() only matches/kind "
        "equality is demanded.",
        "DESIGN.md section 4, C11",
    ),
    "C12": (
        "proptest random search over generated command trees with the full help surface, no-panic / bounded-padding / section-membership / hidden-absence oracles, metamorphic level markers for help dispatch, shrinking (tape + serialised case); thorough tier adds coverage-guided libFuzzer campaigns (cargo-fuzz) over the same decoder and oracle",
        "Generated trees (all hide modes, short-only/Count flags, custom headings, next-line help, flatten, templates, possible values, "
        "defaults, env) are rendered short and long at every level and at three widths in 0..200, plus usage and the DisplayHelp error for "
        "--help/-h after every subcommand path. Violations: any panic, padding runs beyond a linear bound, a visible argument/subcommand "
        "missing from the section of its heading, a hidden subcommand / optional hidden argument / hidden possible value appearing, help "
        "of the wrong level. Exploration with shrinking.",
        "term_width always explicit; section membership judged for the default non-flattened template only; texts from a plain-word pool; "
        "hidden names equal to a visible token of the same help are skipped and counted.",
        "DESIGN.md section 4, C12",
    ),
    "C13": (
        "bounded-exhaustive enumeration + proptest random search over a choice tape, byte-level reference oracle and short-iterator model; thorough tier adds coverage-guided libFuzzer campaigns (cargo-fuzz) over the same decoder and oracle",
        "Every byte string up to length 6 (thorough 7) over a 12-byte boundary alphabet, plus random strings up to 64 bytes with random "
        "iterator-call interleavings, is lexed and compared method by method with one-line byte predicates, a long-flag re-assembly "
        "round trip and a lock-step model of the short-flag iterator. Exploration: exhaustive inside the bound, sampled beyond; no proof.",
        "Unix OsStr encoding only; the number language is restated from the recogniser's doc comment; the reference predicates are the trusted base.",
        "DESIGN.md section 4, C13",
    ),
    "C14": (
        "bounded-exhaustive enumeration + proptest model-based (stateful) testing against naive byte-slice and Vec+index models, with shrinking; thorough tier adds coverage-guided libFuzzer campaigns (cargo-fuzz) over the same decoder and oracle",
        "OsStr helpers are compared with naive byte-slice implementations for every haystack up to length 5 (thorough 6) over the boundary "
        "alphabet x 10 needles and for random longer inputs; the cursor is driven through random histories (two cursors, all seek origins, "
        "extreme offsets, inserts, reads past the end) in lock-step with a Vec+index model, after every step. Exploration with shrinking.",
        "Needles are non-empty UTF-8 as the property states; the cursor model lets reads past the end advance the position (documented "
        "behaviour that clap_complete relies on).",
        "DESIGN.md section 4, C14",
    ),
}

NOT_YET = "check not built yet in this revision of /verif (planned: see DESIGN.md section 4)"


def main():
    checks = []
    for pid in sorted(CLAIMED):
        tech, text, note, ref = CLAIMED[pid]
        checks.append(
            {
                "property_id": pid,
                "quick_cmd": f"./check {pid} quick",
                "thorough_cmd": f"./check {pid} thorough",
                "evidence_file": f"/verif/evidence/{pid}.json",
                "replay_cmd_template": f"./check {pid} --replay {{path}}",
                "engine": "vcheck",
                "level_claimed": {"category": "exploration", "text": text, "design_ref": ref},
                "level_note": note,
                "technique": tech,
            }
        )
    na = [
        {"property_id": pid, "reason": NOT_YET}
        for pid in sorted(TITLES)
        if pid not in CLAIMED
    ]
    hooks_commits = (
        subprocess.run(
            ["git", "-C", "/repo", "log", "--format=%h %s", "--grep=verif-hooks"],
            capture_output=True,
            text=True,
        ).stdout.strip().splitlines()
    )
    m = {
        "version": 1,
        "setup_cmd": "./setup.sh",
        "hooks": {
            "guard": "cargo feature `verif-hooks` of clap_builder (off by default)",
            "enable": "the harness depends on clap_builder by path with features = [\"verif-hooks\"] (harness/Cargo.toml); "
            "only C20 uses the hook functions",
            "baseline_off_cmd": "cd /repo && cargo nextest run --workspace --no-fail-fast --tool-config-file pb:/w/lib/nextest.toml "
            "--profile pb --test-threads 8 --offline",
            "source_commits": [c.split()[0] for c in hooks_commits],
            "add_only": True,
        },
        "engines": [
            {
                "name": "vcheck",
                "path": "/verif/harness",
                "serves_properties": sorted(CLAIMED),
                "kind_free_text": "Rust property-based testing engine: choice-tape decoders driven by proptest (seeded, shrinking), "
                "bounded-exhaustive enumerators, corpus replay, known-finding matching, evidence writer; built against /repo by path "
                "with clap's debug assertions on (profile `strict`).",
            }
        ],
        "checks": checks,
        "notes": "Exit contract of ./check: 0 held on everything explored (KNOWN-FINDING lines possible), 1 with a VIOLATION line, "
        "2 inconclusive (harness build failure, watchdog, abnormal end). VERIF_SEED selects the PRNG seed (default 1). "
        "Failing cases are written to /verif/failures/<ID>/ (untracked); curated regression inputs live in /verif/corpus/<ID>/ and "
        "are replayed first on every run. known_findings.json lists recorded and fixed defects.",
        "not_applicable": na,
    }
    path = os.path.join(ROOT, "MANIFEST.json")
    json.dump(m, open(path, "w"), indent=1)
    open(path, "a").write("\n")
    try:
        import jsonschema

        jsonschema.validate(m, json.load(open("/root/.vp/MANIFEST.schema.json")))
        print("MANIFEST.json valid;", len(checks), "checks,", len(na), "not claimed")
    except ImportError:
        print("jsonschema not importable; wrote MANIFEST.json without validation")


if __name__ == "__main__":
    main()
