#!/usr/bin/env python3
"""Confirm a seeded change independently and file it under /verif/seeded/.

usage: confirm_mutant.py <ID> <k> <pkg> <tests-dir-relative-to-repo-root>

Reads $MUT_BASE/<ID>/mutant<k>/{patch.diff,demo.rs,meta.json} (MUT_BASE defaults to /tmp/mut). In a scratch
worktree (/tmp/confirm, re-used between calls for incremental builds; remove it
at the end of the session) it checks:
  1. the patch applies to /repo's HEAD and the workspace builds,
  2. the whole existing test-suite passes with the change (nextest, as BASELINE),
  3. the demonstration fails with the change,
  4. the demonstration passes without it.
Only then the change is copied to /verif/seeded/<ID>-<k>/ with meta.json extended
by what was run here.
"""
import json, os, re, shutil, subprocess, sys

ID, K, PKG, TESTS = sys.argv[1], sys.argv[2], sys.argv[3], sys.argv[4]
BASE = os.environ.get("MUT_BASE", "/tmp/mut")
SRC = f"{BASE}/{ID}/mutant{K}"
WT = "/tmp/confirm"
env = dict(os.environ, CARGO_NET_OFFLINE="true")


def sh(cmd, cwd=WT, timeout=3600):
    p = subprocess.run(cmd, shell=True, cwd=cwd, env=env, capture_output=True, text=True, timeout=timeout)
    return p.returncode, (p.stdout + p.stderr)


head = subprocess.run("git -C /repo rev-parse HEAD", shell=True, capture_output=True, text=True).stdout.strip()
if not os.path.isdir(WT):
    rc, out = sh(f"git -C /repo worktree add --detach {WT} HEAD", cwd="/")
    assert rc == 0, out
rc, out = sh(f"git checkout -q --detach {head} && git checkout -- . && git clean -fdq -e target")
assert rc == 0, out

meta = json.load(open(f"{SRC}/meta.json"))
feat = ""
m = re.search(r"--features[ =]+(\"[^\"]+\"|\S+)", meta.get("demo_command", ""))
if m:
    feat = "--features " + m.group(1)
if "--no-default-features" in meta.get("demo_command", ""):
    feat = "--no-default-features " + feat
name = f"verif_demo_{ID.lower()}_{K}"
demo_dst = os.path.join(WT, TESTS, name + ".rs")
demo_cmd = f"nice cargo test --offline -j 8 -p {PKG} --test {name} {feat}"
log = []


def step(what, cmd, expect_ok):
    rc, out = sh(cmd)
    tail = "\n".join(out.strip().splitlines()[-6:])
    ok = (rc == 0) == expect_ok
    log.append({"step": what, "cmd": cmd, "rc": rc, "as_expected": ok, "tail": tail[-1200:]})
    print(("ok   " if ok else "FAIL ") + what, "rc=", rc)
    if not ok:
        print(tail)
    return ok


good = True
good &= step("patch applies", f"git apply {SRC}/patch.diff", True)
if good:
    good &= step(
        "existing suite passes with the change",
        "nice cargo nextest run --workspace --no-fail-fast --tool-config-file pb:/w/lib/nextest.toml --profile pb --test-threads 8 --offline",
        True,
    )
    m2 = re.search(r"(\d+) tests run: (\d+) passed", log[-1]["tail"])
    if m2:
        log[-1]["tests_run"] = int(m2.group(1))
        log[-1]["tests_passed"] = int(m2.group(2))
        good &= m2.group(1) == m2.group(2) == "1346"
if good:
    os.makedirs(os.path.dirname(demo_dst), exist_ok=True)
    shutil.copy(f"{SRC}/demo.rs", demo_dst)
    good &= step("demonstration fails with the change", demo_cmd, False)
    out = log[-1]["tail"]
    if "could not compile" in out or "error[E" in out:
        print("demo does not compile!")
        good = False
    sh(f"git apply -R {SRC}/patch.diff")
    good &= step("demonstration passes without the change", demo_cmd, True)
    os.remove(demo_dst)
sh("git checkout -- . && git clean -fdq -e target")

if good:
    dst = f"/verif/seeded/{ID}-{K}"
    os.makedirs(dst, exist_ok=True)
    shutil.copy(f"{SRC}/patch.diff", dst)
    shutil.copy(f"{SRC}/demo.rs", dst)
    meta["confirmed_by_harness_author"] = {
        "repo_head": head,
        "demo_placed_at": os.path.join(TESTS, name + ".rs"),
        "demo_command": demo_cmd,
        "steps": log,
    }
    json.dump(meta, open(f"{dst}/meta.json", "w"), indent=1)
    print("KEPT", dst)
else:
    print("REJECTED", ID, K)
    json.dump(log, open(f"{SRC}/confirm_log.json", "w"), indent=1)
sys.exit(0 if good else 1)
