#!/usr/bin/env bash
# tools/multiseed.sh <tier> <seed>... -- run every registered check under several seeds; one line per run.
# Exit 0 iff every run exited 0. Meant for `vp run` (background) and for the final pre-commit sweep.
set -u
cd "$(dirname "${BASH_SOURCE[0]}")/.."
TIER="$1"; shift
bad=0
for seed in "$@"; do
  for id in C01 C02 C03 C04 C05 C06 C07 C08 C09 C10 C11 C12 C13 C14 C15 C16 C17 C18 C19 C20; do
    out=$(VERIF_SEED=$seed ./check $id $TIER 2>&1); rc=$?
    echo "seed=$seed $id rc=$rc $(echo "$out" | grep -E '^(OK|VIOLATION|INCONCLUSIVE)' | head -2 | tr '\n' ' ' | cut -c1-220)"
    if [ $rc -ne 0 ]; then bad=1; echo "$out" | grep -E '^(failure|message|case):' | cut -c1-1500; fi
  done
done
exit $bad
