#!/usr/bin/env bash
# tools/fuzz_stage.sh <ID> <seed> -- thorough-tier libFuzzer stage of a property (called by ./check).
# Each target is one part of the check behind a libFuzzer entry point (harness/fuzz): bytes -> tape words ->
# the part's decoder and oracle. Fixed work (-runs, -seed), fresh empty corpus per run, all targets of the
# property in parallel. Exit 0 = no violation, 1 = VIOLATION line printed (replay file written by the driver),
# 2 = inconclusive (build failure, libFuzzer timeout / OOM report, abnormal end).
set -u
ROOT="$(cd "$(dirname "${BASH_SOURCE[0]}")/.." && pwd)"
ID="$1"; SEED="$2"
export VERIF_ROOT="$ROOT" CARGO_NET_OFFLINE=true
# target runs max_len
case "$ID" in
  C01) T=("c01_parse 300000 4000") ;;
  C12) T=("c12_help 120000 5000") ;;
  C13) T=("c13_lex 4000000 400") ;;
  C14) T=("c14_osstr 3000000 400" "c14_cursor 1500000 500") ;;
  C18) T=("c18_engine 150000 4000") ;;
  C20) T=("c20_wrap 3000000 2000") ;;
  *) exit 0 ;;
esac
cd "$ROOT/harness"
names=(); for t in "${T[@]}"; do set -- $t; names+=("$1"); done
log="$(mktemp)"
for n in "${names[@]}"; do
  if ! cargo +nightly fuzz build "$n" >"$log" 2>&1; then
    tail -40 "$log"; rm -f "$log"
    echo "INCONCLUSIVE: fuzz target $n failed to build against /repo's working tree (property=$ID)"; exit 2
  fi
done
rm -f "$log"
BIN="$ROOT/harness/fuzz/target/x86_64-unknown-linux-gnu/release"
RUN="$(mktemp -d "$ROOT/harness/fuzz/run-XXXXXX")"
mkdir -p "$ROOT/failures/$ID"
pids=()
for t in "${T[@]}"; do
  set -- $t
  mkdir -p "$RUN/$1.corpus"
  ( ASAN_OPTIONS=detect_odr_violation=0:abort_on_error=1 timeout --signal=KILL 7200 "$BIN/$1" "$RUN/$1.corpus" \
      -runs="$(( $2 / ${VERIF_FUZZ_DIV:-1} ))" -seed="$SEED" -max_len="$3" -len_control=0 -timeout=120 -rss_limit_mb=6000 \
      -artifact_prefix="$ROOT/failures/$ID/fuzz-$1-" -print_final_stats=1 >"$RUN/$1.log" 2>&1; echo $? >"$RUN/$1.rc" ) &
  pids+=($!)
done
for p in "${pids[@]}"; do wait "$p"; done
status=0
summary="["
for t in "${T[@]}"; do
  set -- $t
  rc=$(cat "$RUN/$1.rc" 2>/dev/null || echo 99)
  done_line=$(grep -E "^#[0-9]+\s+DONE" "$RUN/$1.log" | tail -1)
  cov=$(echo "$done_line" | sed -n 's/.*cov: \([0-9]*\).*/\1/p'); ft=$(echo "$done_line" | sed -n 's/.*ft: \([0-9]*\).*/\1/p')
  corp=$(echo "$done_line" | sed -n 's/.*corp: \([0-9]*\).*/\1/p')
  execs=$(sed -n 's/^stat::number_of_executed_units: *\([0-9]*\)/\1/p' "$RUN/$1.log" | tail -1)
  echo "[$ID:fuzz:$1] runs=${execs:-?} seed=$SEED max_len=$3 edges=${cov:-?} features=${ft:-?} corpus=${corp:-?} exit=$rc"
  summary+="{\"target\":\"$1\",\"engine\":\"libFuzzer (cargo-fuzz, ASan)\",\"runs\":${execs:-0},\"seed\":$SEED,\"max_len\":$3,\"edges_covered\":${cov:-0},\"features\":${ft:-0},\"final_corpus\":${corp:-0},\"exit\":$rc},"
  if grep -q "^VIOLATION property=" "$RUN/$1.log"; then
    grep -E "^(failure:|message:|VIOLATION property=)" "$RUN/$1.log" | cut -c1-2000
    status=1
  elif [ "$rc" != 0 ] && [ $status -eq 0 ]; then
    tail -15 "$RUN/$1.log"
    echo "INCONCLUSIVE: property=$ID fuzz target $1 ended with status $rc without a violation (timeout / memory / abnormal end); not a violation"
    status=2
  fi
done
summary="${summary%,}]"
python3 - "$ROOT/evidence/$ID.json" "$summary" <<'PY'
import json, sys
p, s = sys.argv[1], json.loads(sys.argv[2])
try:
    d = json.load(open(p))
    d["coverage"]["fuzz_campaigns"] = s
    d["coverage"]["evaluations"] = d["coverage"].get("evaluations", 0) + sum(c["runs"] for c in s)
    d["coverage"]["rule"] = d["coverage"].get("rule", "") + " | thorough tier additionally: libFuzzer campaigns (fuzz_campaigns) over the same decoder and oracle, one byte per choice, fresh empty corpus, fixed -runs/-seed; their inputs are counted in evaluations but not in distinct_nontrivial."
    json.dump(d, open(p, "w"), indent=1)
except Exception as e:
    print("could not add the fuzz stage to the evidence file:", e)
PY
rm -rf "$RUN"
exit $status
