#!/usr/bin/env bash
# tools/try_mutant.sh <patch.diff> <ID> [tier]  -- apply a seeded change to /repo, run the check, undo the change.
set -u
PATCH="$1"; ID="$2"; TIER="${3:-quick}"
cd /repo || exit 2
if ! git diff --quiet; then echo "/repo has uncommitted changes; refusing"; exit 2; fi
git apply "$PATCH" || { echo "patch does not apply"; exit 2; }
cd /verif
./check "$ID" "$TIER" 2>&1 | tail -${LINES_SHOWN:-6}
rc=${PIPESTATUS[0]}
git -C /repo checkout -- .
echo "mutant rc=$rc"
exit $rc
