#!/usr/bin/env python3
"""Print the markdown table of seeded changes (section 8 of DESIGN.md) from seeded/*/meta.json and seeded/SWEEP.txt."""
import json, os, re
root = "/verif/seeded"
sweep = {}
for l in open(os.path.join(root, "SWEEP.txt")):
    m = re.match(r"(\S+) rc=(\S+) ?(.*)", l.strip())
    if m:
        sweep[m.group(1)] = (m.group(2), m.group(3))
print("| Change | What it breaks (author's summary, shortened) | Files | Quick check | Caught by (part, signature) |")
print("|--------|---------------------------------------------|-------|-------------|------------------------------|")
for name in sorted(os.listdir(root)):
    p = os.path.join(root, name, "meta.json")
    if not os.path.exists(p):
        continue
    d = json.load(open(p))
    summ = re.sub(r"\s+", " ", d.get("summary", "")).replace("|", "/")
    if len(summ) > 230:
        summ = summ[:227].rsplit(" ", 1)[0] + " ..."
    files = ", ".join(os.path.basename(f) for f in d.get("files_touched", []))
    rc, sig = sweep.get(name, ("?", ""))
    verdict = {"1": "caught", "0": "MISSED", "2": "n/a"}.get(rc, rc)
    if rc == "1" and not sig:
        sig = "(replay of a regression input in corpus/%s)" % name.split("-")[0]
    print("| %s | %s | %s | %s | `%s` |" % (name, summ, files, verdict, sig.replace("|", "/")))
