//! Choice tape: every generator is a pure function of a `&[u32]`.
//!
//! `choose(n)` maps the next word monotonically onto `0..n`, an exhausted tape
//! yields 0, so shrinking the tape (deleting words, lowering words) moves every
//! choice towards its first alternative and shortens every repetition.

#[derive(Clone)]
pub struct Tape<'a> {
    words: &'a [u32],
    pos: usize,
}

impl<'a> Tape<'a> {
    pub fn new(words: &'a [u32]) -> Self {
        Tape { words, pos: 0 }
    }

    pub fn used(&self) -> usize {
        self.pos
    }

    pub fn exhausted(&self) -> bool {
        self.pos >= self.words.len()
    }

    pub fn word(&mut self) -> u32 {
        let w = self.words.get(self.pos).copied().unwrap_or(0);
        self.pos += 1;
        w
    }

    /// Uniform in `0..n` (n == 0 or 1 gives 0 but still consumes a word so
    /// that the tape layout does not depend on n).
    pub fn choose(&mut self, n: usize) -> usize {
        let w = self.word() as u64;
        if n <= 1 {
            return 0;
        }
        ((w * n as u64) >> 32) as usize
    }

    pub fn bool(&mut self) -> bool {
        self.choose(2) == 1
    }

    /// True with probability num/den; the zero word (simplest) gives false.
    pub fn chance(&mut self, num: u32, den: u32) -> bool {
        let c = self.choose(den as usize) as u32;
        c >= den.saturating_sub(num)
    }

    /// Inclusive range, lowest value is the simplest.
    pub fn range(&mut self, lo: usize, hi: usize) -> usize {
        debug_assert!(lo <= hi);
        lo + self.choose(hi - lo + 1)
    }

    pub fn pick<'b, T>(&mut self, xs: &'b [T]) -> &'b T {
        &xs[self.choose(xs.len())]
    }

    pub fn pick_s<'b, S: AsRef<str>>(&mut self, xs: &'b [S]) -> &'b str {
        xs[self.choose(xs.len())].as_ref()
    }

    /// Index drawn according to integer weights; earlier entries are simpler.
    pub fn weighted(&mut self, ws: &[u32]) -> usize {
        let total: u64 = ws.iter().map(|w| *w as u64).sum();
        let mut x = (self.word() as u64 * total) >> 32;
        for (i, w) in ws.iter().enumerate() {
            if x < *w as u64 {
                return i;
            }
            x -= *w as u64;
        }
        ws.len() - 1
    }

    /// A vector of `lo..=hi` items.
    pub fn vec<T>(&mut self, lo: usize, hi: usize, mut f: impl FnMut(&mut Tape<'a>) -> T) -> Vec<T> {
        let n = self.range(lo, hi);
        (0..n).map(|_| f(self)).collect()
    }
}

/// Turn libFuzzer bytes into tape words: one byte per choice keeps byte-level
/// mutations local to one decision.
pub fn words_from_bytes(data: &[u8]) -> Vec<u32> {
    data.iter().map(|b| ((*b as u32) << 24) | 0x0080_0000).collect()
}
