//! Engine shared by all checks: choice tape, case running with panic capture,
//! proptest-driven random search with shrinking, bounded-exhaustive parts,
//! replay files, known findings, evidence files and the exit contract.

pub mod tape;
pub mod panics;
pub mod runner;

pub use panics::{catch, PanicInfo};
pub use runner::{FuzzDriver, 
    main_for, Budget, Check, Ctx, Failure, Gen, Part, Property, Tier, Verdict,
};
pub use tape::Tape;

/// 64-bit FNV-1a, used for case hashes and file names (stable across runs).
pub fn fnv64(bytes: &[u8]) -> u64 {
    let mut h: u64 = 0xcbf29ce484222325;
    for b in bytes {
        h ^= *b as u64;
        h = h.wrapping_mul(0x100000001b3);
    }
    h
}

/// A `Hasher` with a fixed key so that `distinct_nontrivial` is a pure function
/// of the cases.
#[derive(Default)]
pub struct StableHasher(u64);
impl std::hash::Hasher for StableHasher {
    fn finish(&self) -> u64 {
        self.0
    }
    fn write(&mut self, bytes: &[u8]) {
        let mut h = if self.0 == 0 { 0xcbf29ce484222325 } else { self.0 };
        for b in bytes {
            h ^= *b as u64;
            h = h.wrapping_mul(0x100000001b3);
        }
        self.0 = h;
    }
}

pub fn stable_hash<T: std::hash::Hash>(t: &T) -> u64 {
    use std::hash::Hasher;
    let mut h = StableHasher::default();
    t.hash(&mut h);
    h.finish()
}

/// Lossless, readable rendering of arbitrary bytes (used in replay files).
pub fn show_bytes(b: &[u8]) -> String {
    let mut s = String::new();
    for &c in b {
        match c {
            b'\\' => s.push_str("\\\\"),
            0x20..=0x7e => s.push(c as char),
            _ => s.push_str(&format!("\\x{c:02x}")),
        }
    }
    s
}
