//! Panic capture: run code under `catch_unwind` with a silent hook that records
//! message and location in a thread-local.

use std::cell::RefCell;
use std::panic::{self, AssertUnwindSafe};
use std::sync::Once;

#[derive(Clone, Debug)]
pub struct PanicInfo {
    pub message: String,
    pub file: String,
    pub line: u32,
}

impl PanicInfo {
    /// path below the repository root (or the last three components)
    pub fn file_tail(&self) -> String {
        // (VERIF_REPO_ROOT: only set by tools/lab.sh, which runs the checks against a scratch worktree)
        let root = std::env::var("VERIF_REPO_ROOT").unwrap_or_else(|_| "/repo".to_owned());
        let needle = format!("{}/", root.trim_end_matches('/'));
        if let Some(i) = self.file.find(&needle) {
            return self.file[i + needle.len()..].to_owned();
        }
        let parts: Vec<&str> = self.file.split('/').collect();
        let n = parts.len();
        if n >= 3 {
            format!("{}/{}/{}", parts[n - 3], parts[n - 2], parts[n - 1])
        } else {
            self.file.clone()
        }
    }

    /// Message with digits and quoted payloads removed, truncated: stable class.
    pub fn class(&self) -> String {
        let mut out = String::new();
        let mut in_quote = false;
        for c in self.message.chars() {
            if c == '\n' {
                break;
            }
            if c == '"' || c == '\'' || c == '`' {
                in_quote = !in_quote;
                continue;
            }
            if in_quote {
                continue;
            }
            if c.is_ascii_digit() {
                if !out.ends_with('#') {
                    out.push('#');
                }
                continue;
            }
            out.push(c);
            if out.len() >= 60 {
                break;
            }
        }
        out.trim().to_owned()
    }

    pub fn signature(&self) -> String {
        format!("panic@{}:{}", self.file_tail(), self.class())
    }

    pub fn is_in(&self, tails: &[&str]) -> bool {
        tails.iter().any(|t| self.file.ends_with(t))
    }
}

thread_local! {
    static LAST: RefCell<Option<PanicInfo>> = const { RefCell::new(None) };
    static CAPTURING: RefCell<u32> = const { RefCell::new(0) };
}

static HOOK: Once = Once::new();

pub fn install_hook() {
    HOOK.call_once(|| {
        let default = panic::take_hook();
        panic::set_hook(Box::new(move |info| {
            let capturing = CAPTURING.with(|c| *c.borrow() > 0);
            if !capturing {
                default(info);
                return;
            }
            let message = if let Some(s) = info.payload().downcast_ref::<&str>() {
                (*s).to_owned()
            } else if let Some(s) = info.payload().downcast_ref::<String>() {
                s.clone()
            } else {
                "<non-string panic payload>".to_owned()
            };
            let (file, line) = info
                .location()
                .map(|l| (l.file().to_owned(), l.line()))
                .unwrap_or_else(|| ("<unknown>".to_owned(), 0));
            LAST.with(|l| {
                *l.borrow_mut() = Some(PanicInfo {
                    message,
                    file,
                    line,
                })
            });
        }));
    });
}

/// Run `f`, converting a panic into `Err(PanicInfo)`.
pub fn catch<T>(f: impl FnOnce() -> T) -> Result<T, PanicInfo> {
    install_hook();
    CAPTURING.with(|c| *c.borrow_mut() += 1);
    let r = panic::catch_unwind(AssertUnwindSafe(f));
    CAPTURING.with(|c| *c.borrow_mut() -= 1);
    match r {
        Ok(v) => Ok(v),
        Err(_) => Err(LAST.with(|l| l.borrow_mut().take()).unwrap_or(PanicInfo {
            message: "<panic without hook record>".into(),
            file: "<unknown>".into(),
            line: 0,
        })),
    }
}
