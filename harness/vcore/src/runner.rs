//! Runner: random search (proptest over the choice tape, with shrinking),
//! bounded-exhaustive parts, corpus replay, known findings, evidence, exit
//! contract (0 held / 1 VIOLATION / 2 inconclusive).

use crate::panics::{catch, PanicInfo};
use crate::tape::Tape;
use proptest::prelude::*;
use proptest::test_runner::{Config, RngAlgorithm, TestCaseError, TestError, TestRng, TestRunner};
use serde::de::DeserializeOwned;
use serde::Serialize;
use serde_json::{json, Value};
use std::borrow::Cow;
use std::collections::{BTreeMap, HashSet};
use std::hash::Hash;
use std::path::{Path, PathBuf};
use std::sync::atomic::{AtomicBool, Ordering};
use std::time::Instant;

pub const WORKERS: usize = 16;
const DISTINCT_CAP: usize = 1 << 20;

#[derive(Clone, Copy, PartialEq, Eq, Debug)]
pub enum Tier {
    Quick,
    Thorough,
}

impl Tier {
    pub fn name(self) -> &'static str {
        match self {
            Tier::Quick => "quick",
            Tier::Thorough => "thorough",
        }
    }
    pub fn pick<T>(self, quick: T, thorough: T) -> T {
        match self {
            Tier::Quick => quick,
            Tier::Thorough => thorough,
        }
    }
}

#[derive(Clone, Copy)]
pub struct Budget {
    /// random cases in total (split over the workers)
    pub cases: u64,
    /// maximum tape length in words
    pub tape_len: usize,
}

#[derive(Clone, Debug)]
pub struct Failure {
    pub signature: String,
    pub message: String,
}

impl Failure {
    pub fn new(signature: impl Into<String>, message: impl Into<String>) -> Self {
        Failure {
            signature: signature.into(),
            message: message.into(),
        }
    }
    pub fn from_panic(p: &PanicInfo) -> Self {
        Failure {
            signature: p.signature(),
            message: format!("panicked at {}:{}: {}", p.file, p.line, p.message),
        }
    }
}

pub enum Verdict {
    Pass,
    Discard(&'static str),
    Fail(Failure),
}

impl Verdict {
    pub fn fail(signature: impl Into<String>, message: impl Into<String>) -> Verdict {
        Verdict::Fail(Failure::new(signature, message))
    }
}

/// Shorthand for oracles: `check!(cond, "signature", "message {}", x)`.
#[macro_export]
macro_rules! ensure {
    ($cond:expr, $sig:expr, $($fmt:tt)+) => {
        if !($cond) {
            return $crate::Verdict::Fail($crate::Failure::new($sig, format!($($fmt)+)));
        }
    };
}

#[derive(Clone, Default)]
pub struct Known {
    /// (property, signature) -> description
    pub entries: Vec<(String, String, String)>,
}

impl Known {
    pub fn load(root: &Path) -> Known {
        let mut k = Known::default();
        let p = root.join("known_findings.json");
        if let Ok(s) = std::fs::read_to_string(&p) {
            let v: Value = serde_json::from_str(&s).expect("known_findings.json must be valid JSON");
            for e in v["findings"].as_array().cloned().unwrap_or_default() {
                if e["status"] == "known" {
                    k.entries.push((
                        e["property"].as_str().unwrap_or("").to_owned(),
                        e["signature"].as_str().unwrap_or("").to_owned(),
                        e["what"].as_str().unwrap_or("").to_owned(),
                    ));
                }
            }
        }
        k
    }
    pub fn lookup(&self, property: &str, signature: &str) -> Option<&str> {
        self.entries
            .iter()
            .find(|(p, s, _)| p == property && s == signature)
            .map(|(_, _, w)| w.as_str())
    }
}

/// Per-worker statistics and services available to a running case.
pub struct Ctx {
    pub property: &'static str,
    pub tier: Tier,
    /// strict replay: known findings are not suppressed
    pub strict: bool,
    pub worker: usize,
    pub evaluations: u64,
    pub nontrivial: u64,
    pub discards: BTreeMap<&'static str, u64>,
    pub labels: BTreeMap<Cow<'static, str>, u64>,
    pub excluded: BTreeMap<&'static str, u64>,
    pub distinct: HashSet<u64>,
    pub distinct_capped: bool,
    pub samples: Vec<Value>,
    pub known_hits: BTreeMap<String, (u64, String, Value)>,
    pub enumerated: u64,
    /// random cases whose decoder asked for more words than the tape had (the rest of the case was
    /// decoded from zeros = simplest alternatives); a high share means `tape_len` starves the generator
    pub starved: u64,
    pub random_cases: u64,
    pub max_words_used: usize,
    nontrivial_flag: bool,
    frozen: bool,
    known: Known,
}

impl Ctx {
    pub fn new(property: &'static str, tier: Tier, worker: usize, known: Known) -> Ctx {
        Ctx {
            property,
            tier,
            strict: false,
            worker,
            evaluations: 0,
            nontrivial: 0,
            discards: BTreeMap::new(),
            labels: BTreeMap::new(),
            excluded: BTreeMap::new(),
            distinct: HashSet::new(),
            distinct_capped: false,
            samples: Vec::new(),
            known_hits: BTreeMap::new(),
            enumerated: 0,
            starved: 0,
            random_cases: 0,
            max_words_used: 0,
            nontrivial_flag: false,
            frozen: false,
            known,
        }
    }

    /// Count a class of cases (distribution reported in the evidence).
    pub fn label(&mut self, l: &'static str) {
        if !self.frozen {
            *self.labels.entry(Cow::Borrowed(l)).or_insert(0) += 1;
        }
    }
    pub fn label_owned(&mut self, l: String) {
        if !self.frozen {
            *self.labels.entry(Cow::Owned(l)).or_insert(0) += 1;
        }
    }
    /// Count something excluded by construction.
    pub fn exclude(&mut self, what: &'static str) {
        if !self.frozen {
            *self.excluded.entry(what).or_insert(0) += 1;
        }
    }
    /// Mark the current case as non-trivial by the part's stated rule.
    pub fn nontrivial(&mut self) {
        self.nontrivial_flag = true;
    }
    pub fn is_frozen(&self) -> bool {
        self.frozen
    }
    /// For checks that want to continue past a listed known finding inside one case: counts the
    /// hit and returns Pass if `f` is listed (and not in strict replay), otherwise hands `f` back.
    pub fn note_known(&mut self, f: &Failure) -> Verdict {
        if !self.strict && self.known.lookup(self.property, &f.signature).is_some() {
            if !self.frozen {
                if !self.known_hits.contains_key(&f.signature) {
                    self.known_hits.insert(f.signature.clone(), (0, f.message.clone(), Value::Null));
                }
                self.known_hits.get_mut(&f.signature).unwrap().0 += 1;
            }
            return Verdict::Pass;
        }
        Verdict::Fail(f.clone())
    }

    /// Book-keeping around one case. Returns the verdict to hand to the driver
    /// (known findings are turned into passes unless strict).
    fn account(
        &mut self,
        verdict: Verdict,
        hash: impl FnOnce() -> u64,
        sample: impl Fn() -> Value,
    ) -> Verdict {
        let nt = std::mem::replace(&mut self.nontrivial_flag, false);
        if self.frozen {
            return self.filter_known(verdict, false, || Value::Null);
        }
        self.evaluations += 1;
        match &verdict {
            Verdict::Discard(r) => {
                *self.discards.entry(r).or_insert(0) += 1;
            }
            Verdict::Pass => {
                if nt {
                    self.nontrivial += 1;
                    if self.distinct.len() < DISTINCT_CAP {
                        self.distinct.insert(hash());
                    } else {
                        self.distinct_capped = true;
                    }
                    if self.samples.len() < 2 {
                        self.samples.push(sample());
                    }
                }
            }
            Verdict::Fail(_) => {}
        }
        self.filter_known(verdict, true, sample)
    }

    fn filter_known(&mut self, verdict: Verdict, count: bool, sample: impl Fn() -> Value) -> Verdict {
        if let Verdict::Fail(f) = &verdict {
            if !self.strict {
                if self.known.lookup(self.property, &f.signature).is_some() {
                    if count {
                        if !self.known_hits.contains_key(&f.signature) {
                            self.known_hits.insert(f.signature.clone(), (0, f.message.clone(), sample()));
                        }
                        self.known_hits.get_mut(&f.signature).unwrap().0 += 1;
                    }
                    return Verdict::Pass;
                }
            }
        }
        verdict
    }

    fn merge(&mut self, o: Ctx) {
        self.evaluations += o.evaluations;
        self.nontrivial += o.nontrivial;
        self.enumerated += o.enumerated;
        self.starved += o.starved;
        self.random_cases += o.random_cases;
        self.max_words_used = self.max_words_used.max(o.max_words_used);
        for (k, v) in o.discards {
            *self.discards.entry(k).or_insert(0) += v;
        }
        for (k, v) in o.labels {
            *self.labels.entry(k).or_insert(0) += v;
        }
        for (k, v) in o.excluded {
            *self.excluded.entry(k).or_insert(0) += v;
        }
        self.distinct_capped |= o.distinct_capped;
        for h in o.distinct {
            self.distinct.insert(h);
        }
        for s in o.samples {
            if self.samples.len() < 4 {
                self.samples.push(s);
            }
        }
        for (k, (n, m, c)) in o.known_hits {
            let e = self.known_hits.entry(k).or_insert((0, m, c));
            e.0 += n;
        }
    }
}

/// A generated-input property: pure decoder + oracle.
pub trait Property: Sync + Send {
    type Case: Serialize + DeserializeOwned + Hash;
    fn name(&self) -> &'static str;
    /// How cases are generated and what makes one non-trivial / distinct.
    fn rule(&self) -> String;
    fn budget(&self, tier: Tier) -> Budget;
    fn decode(&self, t: &mut Tape<'_>) -> Self::Case;
    fn run(&self, case: &Self::Case, ctx: &mut Ctx) -> Verdict;
    /// Optional bounded-exhaustive portion: call `visit` for every case of
    /// shard `shard` of `nshards`; stop when it returns false.
    fn enumerate(
        &self,
        _tier: Tier,
        _shard: usize,
        _nshards: usize,
        _visit: &mut dyn FnMut(Self::Case) -> bool,
    ) -> bool {
        false
    }
    /// May a failing case additionally be minimised on its serialised form
    /// (dropping list elements / fields, shortening strings)? Only sound when
    /// the oracle does not rely on generator invariants.
    fn json_shrinkable(&self) -> bool {
        false
    }
}

/// Type-erased part of a check.
pub trait Part: Sync + Send {
    fn name(&self) -> &'static str;
    fn rule(&self) -> String;
    fn budget(&self, tier: Tier) -> Budget;
    fn run_tape(&self, tape: &[u32], ctx: &mut Ctx) -> Verdict;
    fn case_json(&self, tape: &[u32]) -> Value;
    fn run_case_json(&self, case: &Value, ctx: &mut Ctx) -> Result<Verdict, String>;
    /// returns (had an enumeration, first failing case)
    fn enumerate(&self, tier: Tier, shard: usize, nshards: usize, ctx: &mut Ctx) -> (bool, Option<(Value, Failure)>);
    fn json_shrinkable(&self) -> bool;
}

pub struct Gen<P: Property>(pub P);

impl<P: Property> Gen<P> {
    fn run_case(&self, case: &P::Case, ctx: &mut Ctx) -> Verdict {
        let v = match catch(|| self.0.run(case, ctx)) {
            Ok(v) => v,
            Err(p) => Verdict::Fail(Failure::from_panic(&p)),
        };
        ctx.account(
            v,
            || crate::stable_hash(case),
            || truncate_sample(serde_json::to_value(case).unwrap_or(Value::Null)),
        )
    }
}

fn truncate_sample(v: Value) -> Value {
    let s = v.to_string();
    if s.len() <= 6000 {
        v
    } else {
        let mut cut = 6000;
        while !s.is_char_boundary(cut) {
            cut -= 1;
        }
        json!({ "truncated_json": &s[..cut] })
    }
}

impl<P: Property> Part for Gen<P> {
    fn name(&self) -> &'static str {
        self.0.name()
    }
    fn rule(&self) -> String {
        self.0.rule()
    }
    fn budget(&self, tier: Tier) -> Budget {
        self.0.budget(tier)
    }
    fn run_tape(&self, tape: &[u32], ctx: &mut Ctx) -> Verdict {
        let case = match catch(|| {
            let mut t = Tape::new(tape);
            let c = self.0.decode(&mut t);
            (c, t.used())
        }) {
            Ok((c, used)) => {
                if !ctx.is_frozen() {
                    ctx.random_cases += 1;
                    if used > tape.len() {
                        ctx.starved += 1;
                    }
                    ctx.max_words_used = ctx.max_words_used.max(used);
                }
                c
            }
            Err(p) => {
                return Verdict::Fail(Failure::new(
                    format!("harness-decoder-{}", p.signature()),
                    format!("decoder panicked at {}:{}: {}", p.file, p.line, p.message),
                ))
            }
        };
        self.run_case(&case, ctx)
    }
    fn case_json(&self, tape: &[u32]) -> Value {
        let case = self.0.decode(&mut Tape::new(tape));
        serde_json::to_value(&case).unwrap_or(Value::Null)
    }
    fn run_case_json(&self, case: &Value, ctx: &mut Ctx) -> Result<Verdict, String> {
        let case: P::Case = serde_json::from_value(case.clone()).map_err(|e| e.to_string())?;
        Ok(self.run_case(&case, ctx))
    }
    fn json_shrinkable(&self) -> bool {
        self.0.json_shrinkable()
    }
    fn enumerate(&self, tier: Tier, shard: usize, nshards: usize, ctx: &mut Ctx) -> (bool, Option<(Value, Failure)>) {
        let mut failed: Option<(Value, Failure)> = None;
        let had = self.0.enumerate(tier, shard, nshards, &mut |case| {
            ctx.enumerated += 1;
            match self.run_case(&case, ctx) {
                Verdict::Fail(f) => {
                    failed = Some((serde_json::to_value(&case).unwrap_or(Value::Null), f));
                    false
                }
                _ => true,
            }
        });
        (had, failed)
    }
}

/// One-step simplifications of a JSON value (smaller first).
fn json_candidates(v: &Value) -> Vec<Value> {
    let mut out = Vec::new();
    match v {
        Value::Array(a) => {
            if a.len() > 1 {
                out.push(Value::Array(a[..a.len() / 2].to_vec()));
                out.push(Value::Array(a[a.len() / 2..].to_vec()));
            }
            for i in (0..a.len()).rev() {
                let mut b = a.clone();
                b.remove(i);
                out.push(Value::Array(b));
            }
            for i in 0..a.len() {
                for c in json_candidates(&a[i]) {
                    let mut b = a.clone();
                    b[i] = c;
                    out.push(Value::Array(b));
                }
            }
        }
        Value::Object(m) => {
            for k in m.keys() {
                let mut n = m.clone();
                n.remove(k);
                out.push(Value::Object(n));
            }
            for (k, x) in m {
                for c in json_candidates(x) {
                    let mut n = m.clone();
                    n.insert(k.clone(), c);
                    out.push(Value::Object(n));
                }
            }
        }
        Value::String(s) => {
            if !s.is_empty() {
                out.push(Value::String(String::new()));
                let cs: Vec<char> = s.chars().collect();
                if cs.len() > 1 {
                    out.push(Value::String(cs[..cs.len() / 2].iter().collect()));
                    out.push(Value::String(cs[cs.len() / 2..].iter().collect()));
                    out.push(Value::String(cs[..cs.len() - 1].iter().collect()));
                }
            }
        }
        Value::Number(n) => {
            if let Some(u) = n.as_u64() {
                if u != 0 {
                    out.push(json!(0));
                    out.push(json!(u / 2));
                    out.push(json!(u - 1));
                }
            } else if let Some(i) = n.as_i64() {
                if i != 0 {
                    out.push(json!(0));
                    out.push(json!(i / 2));
                }
            }
        }
        Value::Bool(true) => out.push(Value::Bool(false)),
        _ => {}
    }
    out
}

/// Greedy minimisation of a failing case on its serialised form, keeping the
/// failure signature.
fn json_shrink(part: &dyn Part, id: &'static str, tier: Tier, known: &Known, case: Value, failure: Failure) -> (Value, Failure) {
    let start = Instant::now();
    let mut best = case;
    let mut best_f = failure;
    let mut evals = 0usize;
    'outer: loop {
        for cand in json_candidates(&best) {
            if evals > 20_000 || start.elapsed().as_secs() > 60 {
                break 'outer;
            }
            evals += 1;
            let mut ctx = Ctx::new(id, tier, 0, known.clone());
            ctx.frozen = true;
            if let Ok(Verdict::Fail(f)) = part.run_case_json(&cand, &mut ctx) {
                if f.signature == best_f.signature {
                    best = cand;
                    best_f = f;
                    continue 'outer;
                }
            }
        }
        break;
    }
    (best, best_f)
}

pub struct Check {
    pub id: &'static str,
    pub parts: Vec<Box<dyn Part>>,
    pub assumptions: Vec<String>,
}

struct Violation {
    part: &'static str,
    case: Value,
    tape: Option<Vec<u32>>,
    failure: Failure,
    seed: u64,
}

fn verif_root() -> PathBuf {
    if let Ok(r) = std::env::var("VERIF_ROOT") {
        return PathBuf::from(r);
    }
    PathBuf::from("/verif")
}

fn write_failure(root: &Path, id: &str, v: &Violation) -> PathBuf {
    let dir = root.join("failures").join(id);
    let _ = std::fs::create_dir_all(&dir);
    let body = json!({
        "property": id,
        "part": v.part,
        "signature": v.failure.signature,
        "message": v.failure.message,
        "seed": v.seed,
        "case": v.case,
        "tape": v.tape,
    });
    let text = serde_json::to_string_pretty(&body).unwrap();
    let h = crate::fnv64(format!("{}{}{}", v.part, v.failure.signature, v.case).as_bytes());
    let path = dir.join(format!("fail-{h:016x}.json"));
    let _ = std::fs::write(&path, text);
    path
}

fn run_random(
    part: &dyn Part,
    id: &'static str,
    tier: Tier,
    seed: u64,
    known: &Known,
    stop: &AtomicBool,
) -> (Ctx, Option<Violation>) {
    let budget = part.budget(tier);
    let per_worker = (budget.cases + WORKERS as u64 - 1) / WORKERS as u64;
    let mut results: Vec<(Ctx, Option<Violation>)> = Vec::new();
    std::thread::scope(|s| {
        let mut handles = Vec::new();
        for w in 0..WORKERS {
            let known = known.clone();
            handles.push(
                std::thread::Builder::new()
                    .stack_size(64 << 20)
                    .spawn_scoped(s, move || {
                        let mut ctx = Ctx::new(id, tier, w, known);
                        if per_worker == 0 {
                            return (ctx, None);
                        }
                        let wseed = seed.wrapping_mul(1000).wrapping_add(w as u64);
                        let mut seed_bytes = [0u8; 32];
                        seed_bytes[..8].copy_from_slice(&wseed.to_le_bytes());
                        seed_bytes[8..16].copy_from_slice(&crate::fnv64(part.name().as_bytes()).to_le_bytes());
                        let rng = TestRng::from_seed(RngAlgorithm::ChaCha, &seed_bytes);
                        let mut config = Config::default();
                        config.cases = per_worker.min(u32::MAX as u64) as u32;
                        config.failure_persistence = None;
                        config.max_shrink_iters = 60_000;
                        config.max_shrink_time = 120_000;
                        config.max_global_rejects = u32::MAX;
                        config.verbose = 0;
                        let mut runner = TestRunner::new_with_rng(config, rng);
                        let strategy = proptest::collection::vec(any::<u32>(), 0..=budget.tape_len);
                        let ctx_cell = std::cell::RefCell::new(&mut ctx);
                        let res = runner.run(&strategy, |tape| {
                            let mut c = ctx_cell.borrow_mut();
                            if !c.frozen && stop.load(Ordering::Relaxed) {
                                return Ok(());
                            }
                            match part.run_tape(&tape, &mut c) {
                                Verdict::Fail(f) => {
                                    c.frozen = true;
                                    Err(TestCaseError::fail(f.signature))
                                }
                                _ => Ok(()),
                            }
                        });
                        drop(ctx_cell);
                        let viol = match res {
                            Ok(()) => None,
                            Err(TestError::Fail(_, tape)) => {
                                stop.store(true, Ordering::Relaxed);
                                ctx.frozen = true;
                                let failure = match part.run_tape(&tape, &mut ctx) {
                                    Verdict::Fail(f) => f,
                                    _ => Failure::new(
                                        "harness-flaky-shrink",
                                        "shrunk tape no longer fails (non-deterministic case?)",
                                    ),
                                };
                                let case = catch(|| part.case_json(&tape)).unwrap_or(Value::Null);
                                Some(Violation {
                                    part: part.name(),
                                    case,
                                    tape: Some(tape),
                                    failure,
                                    seed: wseed,
                                })
                            }
                            Err(TestError::Abort(r)) => Some(Violation {
                                part: part.name(),
                                case: Value::Null,
                                tape: None,
                                failure: Failure::new("harness-abort", format!("proptest aborted: {r}")),
                                seed: wseed,
                            }),
                        };
                        (ctx, viol)
                    })
                    .unwrap(),
            );
        }
        for h in handles {
            results.push(h.join().expect("worker thread died"));
        }
    });
    let mut total = Ctx::new(id, tier, 0, known.clone());
    let mut viol = None;
    for (c, v) in results {
        total.merge(c);
        if viol.is_none() {
            viol = v;
        }
    }
    (total, viol)
}

fn run_enumeration(
    part: &dyn Part,
    id: &'static str,
    tier: Tier,
    known: &Known,
) -> (Ctx, bool, Option<Violation>) {
    let mut results = Vec::new();
    std::thread::scope(|s| {
        let mut handles = Vec::new();
        for w in 0..WORKERS {
            let known = known.clone();
            handles.push(
                std::thread::Builder::new()
                    .stack_size(64 << 20)
                    .spawn_scoped(s, move || {
                        let mut ctx = Ctx::new(id, tier, w, known);
                        let (had, failed) = part.enumerate(tier, w, WORKERS, &mut ctx);
                        (ctx, had, failed)
                    })
                    .unwrap(),
            );
        }
        for h in handles {
            results.push(h.join().expect("worker thread died"));
        }
    });
    let mut total = Ctx::new(id, tier, 0, known.clone());
    let mut viol = None;
    let mut had_any = false;
    for (c, had, failed) in results {
        total.merge(c);
        had_any |= had;
        if viol.is_none() {
            if let Some((case, failure)) = failed {
                viol = Some(Violation {
                    part: part.name(),
                    case,
                    tape: None,
                    failure,
                    seed: 0,
                });
            }
        }
    }
    (total, had_any, viol)
}

fn part_evidence(part: &dyn Part, c: &Ctx, exhaustive_part: bool, budget: Budget) -> Value {
    json!({
        "part": part.name(),
        "rule": part.rule(),
        "evaluations": c.evaluations,
        "enumerated_exhaustively": c.enumerated,
        "has_exhaustive_portion": exhaustive_part,
        "random_cases_budget": budget.cases,
        "max_tape_words": budget.tape_len,
        "max_words_used_by_decoder": c.max_words_used,
        "cases_decoded_past_the_tape_end": c.starved,
        "share_decoded_past_the_tape_end": if c.random_cases > 0 { (c.starved as f64 / c.random_cases as f64 * 1000.0).round() / 1000.0 } else { 0.0 },
        "nontrivial": c.nontrivial,
        "distinct_nontrivial": c.distinct.len(),
        "distinct_is_lower_bound": c.distinct_capped,
        "discarded": c.discards,
        "excluded_by_construction": c.excluded,
        "classes": c.labels.iter().map(|(k, v)| (k.to_string(), json!(v))).collect::<serde_json::Map<_, _>>(),
        "known_finding_hits": c.known_hits.iter().map(|(k, (n, _, _))| (k.clone(), json!(n))).collect::<serde_json::Map<_, _>>(),
    })
}

fn replay_file(check: &Check, path: &Path, tier: Tier, known: &Known, strict: bool) -> Result<(Ctx, Option<Violation>), String> {
    let text = std::fs::read_to_string(path).map_err(|e| format!("{}: {e}", path.display()))?;
    let v: Value = serde_json::from_str(&text).map_err(|e| format!("{}: {e}", path.display()))?;
    let part_name = v["part"].as_str().unwrap_or("");
    let part = check
        .parts
        .iter()
        .find(|p| p.name() == part_name)
        .ok_or_else(|| format!("{}: unknown part {part_name:?}", path.display()))?;
    let mut ctx = Ctx::new(check.id, tier, 0, known.clone());
    ctx.strict = strict;
    let tape: Option<Vec<u32>> = v["tape"]
        .as_array()
        .map(|a| a.iter().map(|x| x.as_u64().unwrap_or(0) as u32).collect());
    let verdict = if !v["case"].is_null() {
        part.run_case_json(&v["case"], &mut ctx)?
    } else if let Some(t) = &tape {
        part.run_tape(t, &mut ctx)
    } else {
        return Err(format!("{}: neither case nor tape", path.display()));
    };
    let viol = match verdict {
        Verdict::Fail(failure) => Some(Violation {
            part: part.name(),
            case: v["case"].clone(),
            tape,
            failure,
            seed: 0,
        }),
        _ => None,
    };
    Ok((ctx, viol))
}

/// Entry point of the `vcheck` binary.
pub fn main_for(lookup: impl Fn(&str) -> Option<Check>) -> ! {
    crate::panics::install_hook();
    let args: Vec<String> = std::env::args().skip(1).collect();
    if args.is_empty() {
        eprintln!("usage: vcheck <ID> quick|thorough | vcheck <ID> --replay <file> [--allow-known]");
        std::process::exit(2);
    }
    let id = args[0].clone();
    let check = match lookup(&id) {
        Some(c) => c,
        None => {
            eprintln!("unknown property {id}");
            std::process::exit(2);
        }
    };
    let root = verif_root();
    let known = Known::load(&root);
    let seed: u64 = std::env::var("VERIF_SEED")
        .ok()
        .and_then(|s| s.trim().parse::<i64>().ok())
        .map(|v| v as u64)
        .unwrap_or(1);

    if args.get(1).map(|s| s.as_str()) == Some("--replay") {
        let path = PathBuf::from(args.get(2).expect("--replay needs a file"));
        let allow_known = args.iter().any(|a| a == "--allow-known");
        match replay_file(&check, &path, Tier::Quick, &known, !allow_known) {
            Ok((_, Some(v))) => {
                println!("replay: FAIL signature={} :: {}", v.failure.signature, v.failure.message);
                println!("VIOLATION property={} replay={}", check.id, path.display());
                std::process::exit(1);
            }
            Ok((_, None)) => {
                println!("replay: pass ({})", path.display());
                std::process::exit(0);
            }
            Err(e) => {
                eprintln!("INCONCLUSIVE: {e}");
                std::process::exit(2);
            }
        }
    }

    let tier = match args.get(1).map(|s| s.as_str()).or(std::env::var("VERIF_TIER").ok().as_deref()) {
        Some("thorough") => Tier::Thorough,
        _ => Tier::Quick,
    };
    let start = Instant::now();
    let mut total = Ctx::new(check.id, tier, 0, known.clone());
    let mut parts_ev = Vec::new();
    let mut violation: Option<Violation> = None;
    let mut replayed = 0u64;
    let mut all_exhaustive = true;

    // 1. regression corpus
    let corpus = root.join("corpus").join(check.id);
    let mut files: Vec<PathBuf> = std::fs::read_dir(&corpus)
        .map(|d| d.filter_map(|e| e.ok().map(|e| e.path())).filter(|p| p.extension().map(|e| e == "json").unwrap_or(false)).collect())
        .unwrap_or_default();
    files.sort();
    for f in &files {
        match replay_file(&check, f, tier, &known, false) {
            Ok((c, v)) => {
                replayed += 1;
                total.merge(c);
                if let Some(v) = v {
                    println!("regression file fails: {} signature={} :: {}", f.display(), v.failure.signature, v.failure.message);
                    println!("VIOLATION property={} replay={}", check.id, f.display());
                    write_evidence(&root, &check, tier, seed, &total, &parts_ev, replayed, start, 1, false);
                    std::process::exit(1);
                }
            }
            Err(e) => {
                eprintln!("INCONCLUSIVE: corpus file unreadable: {e}");
                std::process::exit(2);
            }
        }
    }

    // 2. per part: exhaustive portion, then random search
    for part in &check.parts {
        let (mut c, had_enum, mut v) = run_enumeration(part.as_ref(), check.id, tier, &known);
        let budget = part.budget(tier);
        if v.is_none() && budget.cases > 0 {
            all_exhaustive = false;
            let stop = AtomicBool::new(false);
            let (c2, v2) = run_random(part.as_ref(), check.id, tier, seed, &known, &stop);
            c.merge(c2);
            v = v2;
        }
        if !had_enum && budget.cases == 0 {
            all_exhaustive = false;
        }
        println!(
            "[{}:{}] evaluations={} (enumerated {}) nontrivial={} distinct_nontrivial={} discards={:?} known_hits={} starved={:.0}% max_words={}",
            check.id,
            part.name(),
            c.evaluations,
            c.enumerated,
            c.nontrivial,
            c.distinct.len(),
            c.discards,
            c.known_hits.values().map(|x| x.0).sum::<u64>(),
            if c.random_cases > 0 { c.starved as f64 * 100.0 / c.random_cases as f64 } else { 0.0 },
            c.max_words_used
        );
        parts_ev.push(part_evidence(part.as_ref(), &c, had_enum, budget));
        total.merge(c);
        if let Some(mut v) = v {
            if part.json_shrinkable() && !v.case.is_null() {
                let (case, failure) = json_shrink(part.as_ref(), check.id, tier, &known, v.case.clone(), v.failure.clone());
                v.case = case;
                v.failure = failure;
                // the tape no longer corresponds to the minimised case
                v.tape = None;
            }
            violation = Some(v);
            break;
        }
    }

    let nviol = if violation.is_some() { 1 } else { 0 };
    write_evidence(&root, &check, tier, seed, &total, &parts_ev, replayed, start, nviol, all_exhaustive);

    for (sig, (n, msg, _)) in &total.known_hits {
        let what = known.lookup(check.id, sig).unwrap_or("");
        let mut m = msg.replace('\n', " ");
        if m.len() > 300 {
            let mut cut = 300;
            while !m.is_char_boundary(cut) {
                cut -= 1;
            }
            m.truncate(cut);
        }
        println!("KNOWN-FINDING: property={} signature={} hits={} {} [e.g. {}]", check.id, sig, n, what, m);
    }
    if let Some(v) = violation {
        let path = write_failure(&root, check.id, &v);
        println!("failure: part={} signature={}", v.part, v.failure.signature);
        println!("message: {}", v.failure.message);
        let cs = v.case.to_string();
        let mut cut = cs.len().min(3000);
        while !cs.is_char_boundary(cut) {
            cut -= 1;
        }
        println!("case: {}", &cs[..cut]);
        println!("VIOLATION property={} replay={}", check.id, path.display());
        std::process::exit(1);
    }
    println!(
        "OK property={} tier={} seed={} evaluations={} distinct_nontrivial={} wall_s={:.1}",
        check.id,
        tier.name(),
        seed,
        total.evaluations,
        total.distinct.len(),
        start.elapsed().as_secs_f64()
    );
    std::process::exit(0);
}

#[allow(clippy::too_many_arguments)]
fn write_evidence(
    root: &Path,
    check: &Check,
    tier: Tier,
    seed: u64,
    total: &Ctx,
    parts: &[Value],
    replayed: u64,
    start: Instant,
    violations: i64,
    exhaustive: bool,
) {
    let rule = check
        .parts
        .iter()
        .map(|p| format!("[{}] {}", p.name(), p.rule()))
        .collect::<Vec<_>>()
        .join(" || ");
    let samples: Vec<Value> = if total.samples.is_empty() {
        vec![json!("no non-trivial case was generated in this run")]
    } else {
        total.samples.clone()
    };
    let ev = json!({
        "property_id": check.id,
        "tier": tier.name(),
        "seed": seed as i64,
        "level": "exploration",
        "coverage": {
            "evaluations": total.evaluations,
            "distinct_nontrivial": total.distinct.len(),
            "distinct_is_lower_bound": total.distinct_capped,
            "nontrivial_total": total.nontrivial,
            "rule": rule,
            "samples": samples,
            "exhaustive": exhaustive,
            "regression_files_replayed": replayed,
            "parts": parts,
            "known_finding_hits": total.known_hits.iter().map(|(k, (n, _, _))| (k.clone(), json!(n))).collect::<serde_json::Map<_, _>>(),
            "known_finding_examples": total.known_hits.iter().map(|(k, (_, m, c))| (k.clone(), json!({"message": m, "case": c}))).collect::<serde_json::Map<_, _>>(),
            "workers": WORKERS,
        },
        "assumptions": check.assumptions,
        "wall_s": (start.elapsed().as_secs_f64() * 100.0).round() / 100.0,
        "violations": violations,
    });
    let dir = root.join("evidence");
    let _ = std::fs::create_dir_all(&dir);
    // (VERIF_EVIDENCE_VARIANT: a secondary run of the same property in another build configuration keeps its own file)
    let path = match std::env::var("VERIF_EVIDENCE_VARIANT") {
        Ok(v) if !v.is_empty() => dir.join(format!("{}.{}.json", check.id, v)),
        _ => dir.join(format!("{}.json", check.id)),
    };
    std::fs::write(&path, serde_json::to_string_pretty(&ev).unwrap()).expect("cannot write evidence file");
}

// ---------------------------------------------------------------------------
// coverage-guided driver: the same decoders and oracles behind a libFuzzer entry point

/// One part of a check, driven by raw fuzzer bytes (`harness/fuzz`). Every byte becomes one tape word,
/// so libFuzzer's byte-level mutations are choice-level mutations of the structured case.
pub struct FuzzDriver {
    check: Check,
    part: usize,
    ctx: Ctx,
    root: PathBuf,
    tape_len: usize,
}

impl FuzzDriver {
    pub fn new(check: Check, part_name: &str) -> FuzzDriver {
        let root = verif_root();
        let known = Known::load(&root);
        let part = check.parts.iter().position(|p| p.name() == part_name).unwrap_or_else(|| panic!("no part {part_name} in {}", check.id));
        let tape_len = check.parts[part].budget(Tier::Thorough).tape_len;
        let ctx = Ctx::new(check.id, Tier::Thorough, 0, known);
        FuzzDriver { check, part, ctx, root, tape_len }
    }

    /// Runs one input; on a violation writes the replay file, prints the VIOLATION line and aborts
    /// (so that libFuzzer keeps the input as a crash artifact as well).
    pub fn one(&mut self, data: &[u8]) {
        let mut words = crate::tape::words_from_bytes(data);
        words.truncate(self.tape_len);
        let part = &self.check.parts[self.part];
        if let Verdict::Fail(f) = part.run_tape(&words, &mut self.ctx) {
            let v = Violation {
                part: part.name(),
                case: part.case_json(&words),
                tape: Some(words),
                failure: f,
                seed: 0,
            };
            let path = write_failure(&self.root, self.check.id, &v);
            println!("failure: part={} signature={}", v.part, v.failure.signature);
            println!("message: {}", v.failure.message);
            println!("VIOLATION property={} replay={}", self.check.id, path.display());
            use std::io::Write;
            let _ = std::io::stdout().flush();
            std::process::abort();
        }
    }
}
