#![no_main]
use libfuzzer_sys::fuzz_target;
use std::cell::RefCell;

thread_local! {
    static DRIVER: RefCell<vcore::FuzzDriver> = RefCell::new(vcore::FuzzDriver::new(vcheck::lookup("C20").expect("check"), "wrap"));
}

fuzz_target!(|data: &[u8]| {
    DRIVER.with(|d| d.borrow_mut().one(data));
});
