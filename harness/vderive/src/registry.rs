//! Type-erased access to one corpus family.

use crate::desc::*;
use crate::obs::*;
use clap::error::ErrorKind;
use clap::{ArgMatches, Command};
use std::ffi::OsString;

pub struct Entry {
    pub rust: &'static str,
    pub bin: &'static str,
    pub node: fn() -> Node,
    pub enums: Vec<fn() -> EnumDesc>,
    pub command: fn() -> Command,
    pub command_for_update: fn() -> Command,
    /// `Parser::try_parse_from`
    pub parse: fn(&[OsString]) -> Result<Obs, (ErrorKind, String)>,
    /// `FromArgMatches::from_arg_matches`
    pub from_matches: fn(&ArgMatches) -> Result<Obs, (ErrorKind, String)>,
    /// build the value from the observation, `Parser::try_update_from`, observe
    pub update: fn(&Obs, &[OsString]) -> Result<Obs, (ErrorKind, String)>,
    /// FromObs then ToObs (sanity of the mechanical impls)
    pub echo: fn(&Obs) -> Obs,
}

pub fn entry<T>(rust: &'static str, bin: &'static str, node: fn() -> Node, enums: Vec<fn() -> EnumDesc>) -> Entry
where
    T: clap::Parser + ToObs + FromObs,
{
    Entry {
        rust,
        bin,
        node,
        enums,
        command: || <T as clap::CommandFactory>::command(),
        command_for_update: || <T as clap::CommandFactory>::command_for_update(),
        parse: |argv| <T as clap::Parser>::try_parse_from(argv.iter()).map(|v| v.to_obs()).map_err(|e| (e.kind(), e.to_string())),
        from_matches: |m| <T as clap::FromArgMatches>::from_arg_matches(m).map(|v| v.to_obs()).map_err(|e| (e.kind(), e.to_string())),
        update: |o, argv| {
            let mut v = T::from_obs(o);
            <T as clap::Parser>::try_update_from(&mut v, argv.iter()).map(|()| v.to_obs()).map_err(|e| (e.kind(), e.to_string()))
        },
        echo: |o| T::from_obs(o).to_obs(),
    }
}

pub fn occs<T>(m: &ArgMatches, id: &str) -> Result<Option<Vec<Vec<Obs>>>, String>
where
    T: ToObs + Clone + Send + Sync + 'static,
{
    match m.try_get_occurrences::<T>(id) {
        Ok(None) => Ok(None),
        Ok(Some(o)) => Ok(Some(o.map(|g| g.map(|v| v.to_obs()).collect()).collect())),
        Err(e) => Err(e.to_string()),
    }
}

pub fn extract_none(_m: &ArgMatches, _id: &str) -> Result<Option<Vec<Vec<Obs>>>, String> {
    Ok(None)
}
