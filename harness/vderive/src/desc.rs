//! Plain-data description of a corpus type, emitted by gen_corpus.py from the
//! same abstract model the Rust source is emitted from.

use crate::obs::Obs;
use clap::ArgMatches;

pub struct EnumVariant {
    pub rust: &'static str,
    pub name: &'static str,
    pub aliases: Vec<&'static str>,
    pub skipped: bool,
}

pub struct EnumDesc {
    pub name: &'static str,
    pub variants: Vec<EnumVariant>,
    /// `ValueEnum::from_str(s, ignore_case)` observed
    pub from_str: fn(&str, bool) -> Option<Obs>,
    /// `to_possible_value().get_name()` of the variant
    pub to_name: fn(&Obs) -> Option<String>,
    /// `value_variants()`
    pub listed: fn() -> Vec<Obs>,
}

pub enum ValTy {
    Str,
    I64,
    Enum(EnumDesc),
}

#[derive(Clone, Copy, PartialEq, Eq, Debug, Hash)]
pub enum Shape {
    Bool,
    Count,
    Req,
    Opt,
    OptOpt,
    Vec,
    OptVec,
    VecVec,
    OptVecVec,
}

/// typed occurrences of an id: None when the matches hold nothing for it
pub type Extract = fn(&ArgMatches, &str) -> Result<Option<Vec<Vec<Obs>>>, String>;

pub struct ArgDesc {
    pub id: &'static str,
    pub shape: Shape,
    pub val: ValTy,
    pub long: Option<&'static str>,
    pub short: Option<char>,
    pub aliases: Vec<&'static str>,
    pub positional: bool,
    /// default values (default_value_t / default_values_t); Req + default = optional on the command line
    pub default: Option<Vec<Obs>>,
    pub num_args: Option<(usize, usize)>,
    pub delim: Option<char>,
    pub ignore_case: bool,
    pub require_equals: bool,
    pub extract: Extract,
}

pub enum FieldKind {
    Arg(ArgDesc),
    Skip(ValTy),
    Flatten { inner: StructDesc, optional: bool },
    Sub { inner: SubDesc, optional: bool },
}

pub struct FieldDesc {
    pub name: &'static str,
    pub kind: FieldKind,
}

pub struct StructDesc {
    pub name: &'static str,
    pub group_id: Option<&'static str>,
    pub fields: Vec<FieldDesc>,
}

pub enum VarKind {
    Unit,
    Named(StructDesc),
    Tuple(StructDesc),
    Nested(SubDesc),
    Flatten(SubDesc),
    External,
    Skipped,
}

pub struct SubVariant {
    pub rust: &'static str,
    pub name: &'static str,
    pub aliases: Vec<&'static str>,
    pub kind: VarKind,
}

pub struct SubDesc {
    pub name: &'static str,
    pub variants: Vec<SubVariant>,
}

pub enum Node {
    Struct(StructDesc),
    Enum(SubDesc),
}
