//! The reference side of C15: what a value of a corpus type must be, given the
//! descriptor and the `ArgMatches` (shape rules of the derive reference
//! documentation), what an update must do, which values are expressible, and how
//! a value is printed back to an argv.

use crate::desc::*;
use crate::obs::Obs;
use clap::parser::ValueSource;
use clap::ArgMatches;
use std::ffi::OsString;
use vcore::Tape;

/// Extraction that must fail according to the shape rules.
#[derive(Debug, Clone, PartialEq, Eq)]
pub enum Refusal {
    MissingRequired(String),
    MissingSubcommand,
    UnknownSubcommand(String),
    /// the oracle itself could not read the matches (wrong type stored, …)
    Broken(String),
}

pub type Exp = Result<Obs, Refusal>;

fn flat(o: &[Vec<Obs>]) -> Vec<Obs> {
    o.iter().flatten().cloned().collect()
}

fn present(m: &ArgMatches, id: &str) -> bool {
    matches!(m.try_contains_id(id), Ok(true))
}

/// Value-enum fields: every raw string the matches hold must map, through the
/// descriptor's name / alias table, to the variant that was stored.
fn check_raw_enum(a: &ArgDesc, m: &ArgMatches, typed: &[Vec<Obs>]) -> Result<(), Refusal> {
    let ValTy::Enum(e) = &a.val else { return Ok(()) };
    if m.value_source(a.id) == Some(ValueSource::DefaultValue) {
        return Ok(());
    }
    let raws: Vec<String> = match m.try_get_raw(a.id) {
        Ok(Some(r)) => r.map(|s| s.to_string_lossy().into_owned()).collect(),
        _ => return Ok(()),
    };
    let typed = flat(typed);
    if raws.len() != typed.len() {
        return Err(Refusal::Broken(format!("{}: {} raw values but {} typed values", a.id, raws.len(), typed.len())));
    }
    for (raw, t) in raws.iter().zip(&typed) {
        let want = e.lookup(raw, a.ignore_case);
        match want {
            Some(v) if Obs::Enum(v.to_owned()) == *t => {}
            _ => {
                return Err(Refusal::Broken(format!(
                    "{}: raw value {raw:?} maps to {:?} by the enum's name/alias table (ignore_case={}) but the matches hold {t:?}",
                    a.id, want, a.ignore_case
                )))
            }
        }
    }
    Ok(())
}

impl EnumDesc {
    /// reference mapping string -> variant (Rust identifier)
    pub fn lookup(&self, s: &str, ignore_case: bool) -> Option<&'static str> {
        for v in &self.variants {
            if v.skipped {
                continue;
            }
            let hit = |n: &str| if ignore_case { n.to_lowercase() == s.to_lowercase() } else { n == s };
            if hit(v.name) || v.aliases.iter().any(|a| hit(a)) {
                return Some(v.rust);
            }
        }
        None
    }
}

pub fn expected_arg(a: &ArgDesc, m: &ArgMatches) -> Exp {
    match a.shape {
        Shape::Bool => return Ok(Obs::Bool(m.get_flag(a.id))),
        Shape::Count => return Ok(Obs::Int(m.get_count(a.id) as i64)),
        _ => {}
    }
    let occ = (a.extract)(m, a.id).map_err(Refusal::Broken)?;
    if let Some(o) = &occ {
        check_raw_enum(a, m, o)?;
    }
    let here = present(m, a.id);
    Ok(match a.shape {
        Shape::Req => match occ.as_deref().map(flat).and_then(|v| v.into_iter().next()) {
            Some(v) => v,
            None => return Err(Refusal::MissingRequired(a.id.to_owned())),
        },
        Shape::Opt => match occ.as_deref().map(flat).and_then(|v| v.into_iter().next()) {
            Some(v) => Obs::some(v),
            None => Obs::None,
        },
        Shape::OptOpt => {
            if here {
                Obs::some(match occ.as_deref().map(flat).and_then(|v| v.into_iter().next()) {
                    Some(v) => Obs::some(v),
                    None => Obs::None,
                })
            } else {
                Obs::None
            }
        }
        Shape::Vec => Obs::List(occ.as_deref().map(flat).unwrap_or_default()),
        Shape::OptVec => {
            if here {
                Obs::some(Obs::List(occ.as_deref().map(flat).unwrap_or_default()))
            } else {
                Obs::None
            }
        }
        Shape::VecVec => Obs::List(occ.unwrap_or_default().into_iter().map(Obs::List).collect()),
        Shape::OptVecVec => match occ {
            Some(o) => Obs::some(Obs::List(o.into_iter().map(Obs::List).collect())),
            None => Obs::None,
        },
        Shape::Bool | Shape::Count => unreachable!(),
    })
}

/// all argument descriptors of a level (through flattened structs)
pub fn level_args<'a>(s: &'a StructDesc, out: &mut Vec<&'a ArgDesc>) {
    for f in &s.fields {
        match &f.kind {
            FieldKind::Arg(a) => out.push(a),
            FieldKind::Flatten { inner, .. } => level_args(inner, out),
            _ => {}
        }
    }
}

pub fn level_sub(s: &StructDesc) -> Option<(&SubDesc, bool)> {
    for f in &s.fields {
        match &f.kind {
            FieldKind::Sub { inner, optional } => return Some((inner, *optional)),
            FieldKind::Flatten { inner, .. } => {
                if let Some(x) = level_sub(inner) {
                    return Some(x);
                }
            }
            _ => {}
        }
    }
    None
}

fn explicit(m: &ArgMatches, id: &str) -> bool {
    matches!(m.value_source(id), Some(ValueSource::CommandLine) | Some(ValueSource::EnvVariable))
}

fn named(m: &ArgMatches, id: &str) -> bool {
    matches!(m.value_source(id), Some(ValueSource::CommandLine))
}

fn any_arg(s: &StructDesc, m: &ArgMatches, pred: fn(&ArgMatches, &str) -> bool) -> bool {
    let mut v = Vec::new();
    level_args(s, &mut v);
    v.iter().any(|a| pred(m, a.id))
}

fn skip_default(v: &ValTy) -> Obs {
    match v {
        ValTy::Str => Obs::Str(String::new()),
        ValTy::I64 => Obs::Int(0),
        ValTy::Enum(_) => Obs::Unit,
    }
}

pub fn expected_struct(s: &StructDesc, m: &ArgMatches) -> Exp {
    let mut out = Vec::new();
    for f in &s.fields {
        let v = match &f.kind {
            FieldKind::Arg(a) => expected_arg(a, m)?,
            FieldKind::Skip(v) => skip_default(v),
            FieldKind::Flatten { inner, optional: false } => expected_struct(inner, m)?,
            FieldKind::Flatten { inner, optional: true } => {
                // present iff one of the struct's own arguments was given explicitly
                if any_arg(inner, m, explicit) {
                    Obs::some(expected_struct(inner, m)?)
                } else {
                    Obs::None
                }
            }
            FieldKind::Sub { inner, optional: false } => expected_sub(inner, m)?,
            FieldKind::Sub { inner, optional: true } => match m.subcommand() {
                // a subcommand the field's type does not own (the application added it to the derived command): the
                // optional field stays empty (`Subcommand::has_subcommand` decides)
                Some((name, sm)) if !inner.owns(name) && !inner.has_external() && !is_external(sm) => Obs::None,
                Some(_) => Obs::some(expected_sub(inner, m)?),
                None => Obs::None,
            },
        };
        out.push((f.name.to_owned(), v));
    }
    Ok(Obs::Struct(out))
}

impl SubDesc {
    /// does this enum (through flattened child enums) own subcommand `name`?
    pub fn owns(&self, name: &str) -> bool {
        self.variants.iter().any(|v| match &v.kind {
            VarKind::Flatten(inner) => inner.owns(name),
            VarKind::External | VarKind::Skipped => false,
            _ => v.name == name,
        })
    }
    pub fn has_external(&self) -> bool {
        self.variants.iter().any(|v| matches!(v.kind, VarKind::External))
    }
}

pub fn is_external(sm: &ArgMatches) -> bool {
    matches!(sm.try_contains_id(""), Ok(true))
}

fn external_payload(name: &str, sm: &ArgMatches) -> Exp {
    let mut v = vec![Obs::Str(name.to_owned())];
    match sm.try_get_many::<OsString>("") {
        Ok(Some(vals)) => v.extend(vals.map(|s| Obs::Str(s.to_string_lossy().into_owned()))),
        Ok(None) => {}
        Err(_) => match sm.try_get_many::<String>("") {
            Ok(Some(vals)) => v.extend(vals.map(|s| Obs::Str(s.clone()))),
            Ok(None) => {}
            Err(e) => return Err(Refusal::Broken(format!("external subcommand values unreadable: {e}"))),
        },
    }
    Ok(Obs::List(v))
}

pub fn expected_sub(e: &SubDesc, m: &ArgMatches) -> Exp {
    let Some((name, sm)) = m.subcommand() else { return Err(Refusal::MissingSubcommand) };
    // a word after `--` that spells a declared subcommand is recorded as an *external* subcommand of that name:
    // its sub-matches hold the external values under the id ""
    let external = is_external(sm);
    for v in &e.variants {
        if external {
            break;
        }
        match &v.kind {
            VarKind::Flatten(inner) if inner.owns(name) => return Ok(Obs::variant(v.rust, expected_sub(inner, m)?)),
            VarKind::Flatten(_) | VarKind::External | VarKind::Skipped => {}
            _ if v.name != name => {}
            VarKind::Unit => return Ok(Obs::variant(v.rust, Obs::Unit)),
            VarKind::Named(s) | VarKind::Tuple(s) => return Ok(Obs::variant(v.rust, expected_struct(s, sm)?)),
            VarKind::Nested(inner) => return Ok(Obs::variant(v.rust, expected_sub(inner, sm)?)),
        }
    }
    for v in &e.variants {
        if matches!(v.kind, VarKind::External) {
            return Ok(Obs::variant(v.rust, external_payload(name, sm)?));
        }
    }
    Err(Refusal::UnknownSubcommand(name.to_owned()))
}

/// Does the line hold, at some level, a word written after `--` that is recorded as an external subcommand
/// although it spells a subcommand owned by a *flattened* child enum? (known finding, see known_findings.json)
pub fn escaped_word_names_flattened_subcommand(n: &Node, m: &ArgMatches) -> bool {
    fn in_struct(s: &StructDesc, m: &ArgMatches) -> bool {
        match level_sub(s) {
            Some((e, _)) => in_sub(e, m),
            None => false,
        }
    }
    fn in_sub(e: &SubDesc, m: &ArgMatches) -> bool {
        let Some((name, sm)) = m.subcommand() else { return false };
        if is_external(sm) {
            return e.variants.iter().any(|v| matches!(&v.kind, VarKind::Flatten(inner) if inner.owns(name)));
        }
        for v in &e.variants {
            match &v.kind {
                VarKind::Flatten(inner) if inner.owns(name) => return in_sub(inner, m),
                VarKind::Named(s) | VarKind::Tuple(s) if v.name == name => return in_struct(s, sm),
                VarKind::Nested(inner) if v.name == name => return in_sub(inner, sm),
                _ => {}
            }
        }
        false
    }
    match n {
        Node::Struct(s) => in_struct(s, m),
        Node::Enum(e) => in_sub(e, m),
    }
}

pub fn expected(n: &Node, m: &ArgMatches) -> Exp {
    match n {
        Node::Struct(s) => expected_struct(s, m),
        Node::Enum(e) => expected_sub(e, m),
    }
}

// ---------------------------------------------------------------------------
// update: only what the command line names changes

pub fn apply_struct(s: &StructDesc, old: &Obs, m: &ArgMatches) -> Exp {
    let mut out = Vec::new();
    for f in &s.fields {
        let o = old.field(f.name);
        let v = match &f.kind {
            FieldKind::Arg(a) => {
                if named(m, a.id) {
                    expected_arg(a, m)?
                } else {
                    o.clone()
                }
            }
            FieldKind::Skip(_) => o.clone(),
            FieldKind::Flatten { inner, optional: false } => apply_struct(inner, o, m)?,
            FieldKind::Flatten { inner, optional: true } => match o {
                Obs::Some(x) => Obs::some(apply_struct(inner, x, m)?),
                _ => {
                    if any_arg(inner, m, named) {
                        Obs::some(expected_struct(inner, m)?)
                    } else {
                        Obs::None
                    }
                }
            },
            FieldKind::Sub { inner, optional: false } => apply_sub(inner, o, m)?,
            FieldKind::Sub { inner, optional: true } => match o {
                Obs::Some(x) => Obs::some(apply_sub(inner, x, m)?),
                _ => {
                    if m.subcommand().is_some() {
                        Obs::some(expected_sub(inner, m)?)
                    } else {
                        Obs::None
                    }
                }
            },
        };
        out.push((f.name.to_owned(), v));
    }
    Ok(Obs::Struct(out))
}

pub fn apply_sub(e: &SubDesc, old: &Obs, m: &ArgMatches) -> Exp {
    let Some((name, sm)) = m.subcommand() else { return Ok(old.clone()) };
    let (old_rust, old_payload) = old.as_variant();
    let external = is_external(sm);
    for v in &e.variants {
        if external {
            break;
        }
        let same = v.rust == old_rust;
        match &v.kind {
            VarKind::Flatten(inner) if inner.owns(name) => {
                return Ok(Obs::variant(v.rust, if same { apply_sub(inner, old_payload, m)? } else { expected_sub(inner, m)? }))
            }
            VarKind::Flatten(_) | VarKind::External | VarKind::Skipped => {}
            _ if v.name != name => {}
            VarKind::Unit => return Ok(Obs::variant(v.rust, Obs::Unit)),
            VarKind::Named(s) | VarKind::Tuple(s) => {
                return Ok(Obs::variant(v.rust, if same { apply_struct(s, old_payload, sm)? } else { expected_struct(s, sm)? }))
            }
            VarKind::Nested(inner) => {
                return Ok(Obs::variant(v.rust, if same { apply_sub(inner, old_payload, sm)? } else { expected_sub(inner, sm)? }))
            }
        }
    }
    expected_sub(e, m)
}

pub fn apply(n: &Node, old: &Obs, m: &ArgMatches) -> Exp {
    match n {
        Node::Struct(s) => apply_struct(s, old, m),
        Node::Enum(e) => apply_sub(e, old, m),
    }
}

// ---------------------------------------------------------------------------
// values of a type

const STR_POOL: &[&str] = &["v", "w1", "a b", "", "-x", "--yy", "=", "a=b", "ü", "a,b", "al", "0", "-5", "sk-ip", "x y z", "\"q\"", "'", "\\"];
const SAFE_POOL: &[&str] = &["v", "w1", "a b", "ü", "0", "x=y", "zz9", "Q"];
const INT_POOL: &[i64] = &[0, 1, -1, 7, -3, 42, 4096, i64::MAX, i64::MIN, 100000];

fn gen_scalar(a: &ArgDesc, t: &mut Tape<'_>) -> Obs {
    match &a.val {
        ValTy::Str => {
            // positional values and values of multi-value occurrences are written as words of their own
            let own_word = a.positional || a.num_args.is_some();
            let s = if own_word { *t.pick(SAFE_POOL) } else { *t.pick(STR_POOL) };
            let s = if a.delim.is_some() { s.replace(',', ";") } else { s.to_owned() };
            let s = if a.delim.is_some() && s.is_empty() { "e".to_owned() } else { s };
            Obs::Str(s)
        }
        ValTy::I64 => {
            let own_word = a.positional || a.num_args.is_some();
            let mut v = *t.pick(INT_POOL);
            if own_word && v < 0 {
                v = v.checked_neg().unwrap_or(5);
            }
            Obs::Int(v)
        }
        ValTy::Enum(e) => {
            let vs: Vec<&EnumVariant> = e.variants.iter().filter(|v| !v.skipped).collect();
            Obs::Enum(t.pick(&vs).rust.to_owned())
        }
    }
}

fn occ_len(a: &ArgDesc, t: &mut Tape<'_>) -> usize {
    match a.num_args {
        Some((lo, hi)) => t.range(lo.max(1), hi),
        None => 1,
    }
}

pub fn gen_arg_value(a: &ArgDesc, t: &mut Tape<'_>) -> Obs {
    match a.shape {
        Shape::Bool => Obs::Bool(t.bool()),
        Shape::Count => Obs::Int(t.range(0, 4) as i64),
        Shape::Req => {
            if let Some(d) = &a.default {
                if t.chance(1, 3) {
                    return d[0].clone();
                }
            }
            gen_scalar(a, t)
        }
        Shape::Opt => {
            if t.bool() {
                Obs::some(gen_scalar(a, t))
            } else {
                Obs::None
            }
        }
        Shape::OptOpt => match t.choose(3) {
            0 => Obs::None,
            1 => Obs::some(Obs::None),
            _ => Obs::some(Obs::some(gen_scalar(a, t))),
        },
        Shape::Vec => {
            if let Some(d) = &a.default {
                if t.chance(1, 3) {
                    return Obs::List(d.clone());
                }
            }
            Obs::List(gen_list(a, t))
        }
        Shape::OptVec => match t.choose(3) {
            0 => Obs::None,
            _ => {
                let zero_ok = matches!(a.num_args, Some((0, _)));
                if zero_ok && t.chance(1, 4) {
                    Obs::some(Obs::List(vec![]))
                } else {
                    let mut l = gen_list(a, t);
                    if l.is_empty() {
                        l.push(gen_scalar(a, t));
                    }
                    Obs::some(Obs::List(l))
                }
            }
        },
        Shape::VecVec => Obs::List(gen_occs(a, t)),
        Shape::OptVecVec => {
            if t.bool() {
                let mut o = gen_occs(a, t);
                if o.is_empty() {
                    let n = occ_len(a, t);
                    o.push(Obs::List((0..n).map(|_| gen_scalar(a, t)).collect()));
                }
                Obs::some(Obs::List(o))
            } else {
                Obs::None
            }
        }
    }
}

fn gen_list(a: &ArgDesc, t: &mut Tape<'_>) -> Vec<Obs> {
    let n = t.range(0, 3);
    (0..n).map(|_| gen_scalar(a, t)).collect()
}

fn gen_occs(a: &ArgDesc, t: &mut Tape<'_>) -> Vec<Obs> {
    let n = t.range(0, 3);
    (0..n)
        .map(|_| {
            // (an occurrence may be empty where num_args starts at 0)
            let k = if matches!(a.num_args, Some((0, _))) && t.chance(1, 3) { 0 } else { occ_len(a, t) };
            Obs::List((0..k).map(|_| gen_scalar(a, t)).collect())
        })
        .collect()
}

/// `parsed`: the value must be one a parse can return (skipped fields at their
/// default); otherwise skipped fields hold anything (old values for updates).
pub fn gen_struct(s: &StructDesc, t: &mut Tape<'_>, parsed: bool) -> Obs {
    let mut out = Vec::new();
    for f in &s.fields {
        let v = match &f.kind {
            FieldKind::Arg(a) => gen_arg_value(a, t),
            FieldKind::Skip(v) => {
                if parsed {
                    skip_default(v)
                } else {
                    match v {
                        ValTy::Str => Obs::Str((*t.pick(STR_POOL)).to_owned()),
                        _ => Obs::Int(*t.pick(INT_POOL)),
                    }
                }
            }
            FieldKind::Flatten { inner, optional } => {
                if *optional && t.chance(1, 3) {
                    Obs::None
                } else {
                    let x = gen_struct(inner, t, parsed);
                    if *optional {
                        Obs::some(x)
                    } else {
                        x
                    }
                }
            }
            FieldKind::Sub { inner, optional } => {
                if *optional && t.chance(1, 3) {
                    Obs::None
                } else {
                    let x = gen_sub(inner, t, parsed);
                    if *optional {
                        Obs::some(x)
                    } else {
                        x
                    }
                }
            }
        };
        out.push((f.name.to_owned(), v));
    }
    Obs::Struct(out)
}

const EXT_NAMES: &[&str] = &["ext", "other-tool", "zz", "X9"];
const EXT_ARGS: &[&str] = &["a", "-f", "--long", "b c", "--k=v", "ü"];

pub fn gen_sub(e: &SubDesc, t: &mut Tape<'_>, parsed: bool) -> Obs {
    let vs: Vec<&SubVariant> = e.variants.iter().filter(|v| parsed && !matches!(v.kind, VarKind::Skipped) || !parsed).collect();
    let v = *t.pick(&vs);
    let payload = match &v.kind {
        VarKind::Unit | VarKind::Skipped => Obs::Unit,
        VarKind::Named(s) | VarKind::Tuple(s) => gen_struct(s, t, parsed),
        VarKind::Nested(inner) | VarKind::Flatten(inner) => gen_sub(inner, t, parsed),
        VarKind::External => {
            let mut l = vec![Obs::Str((*t.pick(EXT_NAMES)).to_owned())];
            for _ in 0..t.range(0, 3) {
                l.push(Obs::Str((*t.pick(EXT_ARGS)).to_owned()));
            }
            Obs::List(l)
        }
    };
    Obs::variant(v.rust, payload)
}

pub fn gen_value(n: &Node, t: &mut Tape<'_>, parsed: bool) -> Obs {
    match n {
        Node::Struct(s) => gen_struct(s, t, parsed),
        Node::Enum(e) => gen_sub(e, t, parsed),
    }
}

// ---------------------------------------------------------------------------
// printing a value back to an argv

#[derive(Debug)]
pub enum Unprintable {
    /// no command line yields this value (documented limits of the shapes)
    Inexpressible(&'static str),
}

/// How a value is written: `vary` picks among equivalent spellings, `subset`
/// prints only some fields (update lines).
#[derive(Clone, Copy)]
pub struct Mode {
    pub vary: bool,
    pub subset: bool,
}

struct Occ {
    id: &'static str,
    toks: Vec<String>,
    /// a following word would be taken as a value of this occurrence
    open: bool,
}

struct LevelOut {
    opts: Vec<Occ>,
    /// None: positional left out
    positionals: Vec<Option<String>>,
}

fn scalar_text(a: &ArgDesc, o: &Obs, t: &mut Tape<'_>, vary: bool) -> String {
    match (o, &a.val) {
        (Obs::Str(s), _) => s.clone(),
        (Obs::Int(i), _) => i.to_string(),
        (Obs::Enum(r), ValTy::Enum(e)) => {
            let v = e.variants.iter().find(|v| v.rust == r).expect("variant");
            let mut names = vec![v.name];
            if vary {
                names.extend(v.aliases.iter().copied());
            }
            let n = *t.pick(&names);
            if vary && a.ignore_case {
                match t.choose(3) {
                    0 => n.to_owned(),
                    1 => n.to_uppercase(),
                    _ => n.to_lowercase(),
                }
            } else {
                n.to_owned()
            }
        }
        _ => String::new(),
    }
}

/// (switch text, is_long)
fn switch(a: &ArgDesc, t: &mut Tape<'_>, vary: bool) -> (String, bool) {
    let mut forms: Vec<(String, bool)> = Vec::new();
    if let Some(l) = a.long {
        forms.push((format!("--{l}"), true));
        if vary {
            for al in &a.aliases {
                forms.push((format!("--{al}"), true));
            }
        }
    }
    if let Some(s) = a.short {
        forms.push((format!("-{s}"), false));
    }
    if vary {
        t.pick(&forms).clone()
    } else {
        forms[0].clone()
    }
}

/// One occurrence with its values: a single value is attached with `=` (or, in
/// vary mode, sometimes written as the next word), several values are words of
/// their own.
fn occurrence(a: &ArgDesc, vals: &[String], t: &mut Tape<'_>, vary: bool) -> Occ {
    let (sw, _long) = switch(a, t, vary);
    let max = match (a.shape, a.num_args) {
        (_, Some((_, hi))) => hi,
        _ => 1,
    };
    if vals.is_empty() {
        // bare switch of an optional-value option: open unless the value must be attached
        return Occ { id: a.id, toks: vec![sw], open: !a.require_equals };
    }
    if vals.len() == 1 {
        let v = &vals[0];
        let detach = vary && !a.require_equals && !v.starts_with('-') && t.chance(1, 3);
        if detach {
            return Occ { id: a.id, toks: vec![sw, v.clone()], open: max > 1 };
        }
        // an attached value ends the occurrence
        return Occ { id: a.id, toks: vec![format!("{sw}={v}")], open: false };
    }
    let mut toks = vec![sw];
    toks.extend(vals.iter().cloned());
    Occ { id: a.id, toks, open: vals.len() < max }
}

fn is_default(a: &ArgDesc, v: &[Obs]) -> bool {
    a.default.as_deref().map(|d| d == v).unwrap_or(false)
}

fn print_arg(a: &ArgDesc, o: &Obs, lvl: &mut LevelOut, t: &mut Tape<'_>, vary: bool) -> Result<(), Unprintable> {
    let texts = |xs: &[Obs], t: &mut Tape<'_>| -> Vec<String> { xs.iter().map(|x| scalar_text(a, x, t, vary)).collect() };
    if a.positional {
        match (a.shape, o) {
            (Shape::Req, v) => {
                if is_default(a, std::slice::from_ref(v)) && t.bool() {
                    lvl.positionals.push(None);
                } else {
                    lvl.positionals.push(Some(scalar_text(a, v, t, vary)));
                }
            }
            (Shape::Opt, Obs::None) => lvl.positionals.push(None),
            (Shape::Opt, Obs::Some(v)) => lvl.positionals.push(Some(scalar_text(a, v, t, vary))),
            (Shape::Vec, Obs::List(xs)) => {
                if xs.is_empty() {
                    lvl.positionals.push(None)
                } else {
                    lvl.positionals.extend(texts(xs, t).into_iter().map(Some))
                }
            }
            (Shape::OptVec, Obs::None) => lvl.positionals.push(None),
            (Shape::OptVec, Obs::Some(l)) => match &**l {
                Obs::List(xs) if !xs.is_empty() => lvl.positionals.extend(texts(xs, t).into_iter().map(Some)),
                _ => return Err(Unprintable::Inexpressible("positional Option<Vec>: Some(empty)")),
            },
            _ => return Err(Unprintable::Inexpressible("positional shape/value mismatch")),
        }
        return Ok(());
    }
    match (a.shape, o) {
        (Shape::Bool, Obs::Bool(b)) => {
            if *b {
                lvl.opts.push(Occ { id: a.id, toks: vec![switch(a, t, vary).0], open: false });
            }
        }
        (Shape::Count, Obs::Int(n)) => {
            for _ in 0..*n {
                lvl.opts.push(Occ { id: a.id, toks: vec![switch(a, t, vary).0], open: false });
            }
        }
        (Shape::Req, v) => {
            if is_default(a, std::slice::from_ref(v)) && t.bool() {
                return Ok(());
            }
            let s = scalar_text(a, v, t, vary);
            lvl.opts.push(occurrence(a, &[s], t, vary));
        }
        (Shape::Opt, Obs::None) | (Shape::OptOpt, Obs::None) | (Shape::OptVec, Obs::None) | (Shape::OptVecVec, Obs::None) => {}
        (Shape::Opt, Obs::Some(v)) => {
            let s = scalar_text(a, v, t, vary);
            lvl.opts.push(occurrence(a, &[s], t, vary));
        }
        (Shape::OptOpt, Obs::Some(inner)) => match &**inner {
            Obs::None => lvl.opts.push(occurrence(a, &[], t, vary)),
            Obs::Some(v) => {
                let s = scalar_text(a, v, t, vary);
                lvl.opts.push(occurrence(a, &[s], t, vary));
            }
            _ => return Err(Unprintable::Inexpressible("optopt payload")),
        },
        (Shape::Vec, Obs::List(xs)) => {
            if is_default(a, xs) && t.bool() {
                return Ok(());
            }
            if xs.is_empty() {
                if a.default.is_some() {
                    return Err(Unprintable::Inexpressible("Vec with default_values_t cannot be made empty"));
                }
                return Ok(());
            }
            print_list(a, xs, lvl, t, vary);
        }
        (Shape::OptVec, Obs::Some(l)) => match &**l {
            Obs::List(xs) if xs.is_empty() => {
                if matches!(a.num_args, Some((0, _))) {
                    lvl.opts.push(occurrence(a, &[], t, vary));
                } else {
                    return Err(Unprintable::Inexpressible("Option<Vec>: Some(empty) needs num_args = 0.."));
                }
            }
            Obs::List(xs) => print_list(a, xs, lvl, t, vary),
            _ => return Err(Unprintable::Inexpressible("optvec payload")),
        },
        (Shape::VecVec, Obs::List(os)) => print_occs(a, os, lvl, t, vary),
        (Shape::OptVecVec, Obs::Some(l)) => match &**l {
            Obs::List(os) if os.is_empty() => return Err(Unprintable::Inexpressible("Option<Vec<Vec>>: Some(empty)")),
            Obs::List(os) => print_occs(a, os, lvl, t, vary),
            _ => return Err(Unprintable::Inexpressible("optvecvec payload")),
        },
        _ => return Err(Unprintable::Inexpressible("shape/value mismatch")),
    }
    Ok(())
}

fn print_list(a: &ArgDesc, xs: &[Obs], lvl: &mut LevelOut, t: &mut Tape<'_>, vary: bool) {
    let texts: Vec<String> = xs.iter().map(|x| scalar_text(a, x, t, vary)).collect();
    if let Some(d) = a.delim {
        if vary && t.bool() {
            let joined = texts.join(&d.to_string());
            lvl.opts.push(occurrence(a, &[joined], t, vary));
            return;
        }
    }
    if let Some((_, hi)) = a.num_args {
        // several values per occurrence allowed: chunk them
        let mut i = 0;
        while i < texts.len() {
            let k = if vary { t.range(1, hi.min(texts.len() - i)) } else { 1 };
            lvl.opts.push(occurrence(a, &texts[i..i + k], t, vary));
            i += k;
        }
        return;
    }
    for x in &texts {
        lvl.opts.push(occurrence(a, std::slice::from_ref(x), t, vary));
    }
}

fn print_occs(a: &ArgDesc, os: &[Obs], lvl: &mut LevelOut, t: &mut Tape<'_>, vary: bool) {
    for o in os {
        if let Obs::List(xs) = o {
            let texts: Vec<String> = xs.iter().map(|x| scalar_text(a, x, t, vary)).collect();
            lvl.opts.push(occurrence(a, &texts, t, vary));
        }
    }
}

type Only<'x> = &'x mut dyn FnMut(&mut Tape<'_>) -> bool;

fn print_fields(s: &StructDesc, o: &Obs, lvl: &mut LevelOut, sub: &mut Option<Vec<String>>, t: &mut Tape<'_>, mode: Mode, only: Only<'_>) -> Result<(), Unprintable> {
    for f in &s.fields {
        let v = o.field(f.name);
        match &f.kind {
            FieldKind::Arg(a) => {
                if !mode.subset || only(t) {
                    print_arg(a, v, lvl, t, mode.vary)?
                } else if a.positional {
                    lvl.positionals.push(None);
                }
            }
            FieldKind::Skip(_) => {}
            FieldKind::Flatten { inner, optional: false } => print_fields(inner, v, lvl, sub, t, mode, only)?,
            FieldKind::Flatten { inner, optional: true } => {
                if let Obs::Some(x) = v {
                    let count = |l: &LevelOut| l.opts.len() + l.positionals.iter().flatten().count();
                    let before = count(lvl);
                    print_fields(inner, x, lvl, sub, t, mode, only)?;
                    if count(lvl) == before && !mode.subset {
                        return Err(Unprintable::Inexpressible("Option<flatten>: Some(x) where x names no argument"));
                    }
                } else if !mode.subset {
                    // the command keeps the struct's required arguments required (the option only reflects presence)
                    let mut args = Vec::new();
                    level_args(inner, &mut args);
                    if args.iter().any(|a| a.shape == Shape::Req && a.default.is_none()) {
                        return Err(Unprintable::Inexpressible("Option<flatten>: None although the struct has required arguments"));
                    }
                }
            }
            FieldKind::Sub { inner, optional } => {
                let x = match (optional, v) {
                    (true, Obs::Some(x)) => Some(&**x),
                    (true, _) => None,
                    (false, x) => Some(x),
                };
                if let Some(x) = x {
                    if !mode.subset || only(t) {
                        *sub = Some(print_sub(inner, x, t, mode, only)?);
                    }
                }
            }
        }
    }
    Ok(())
}

fn sub_names(e: &SubDesc, out: &mut Vec<&'static str>) {
    for v in &e.variants {
        match &v.kind {
            VarKind::Flatten(inner) => sub_names(inner, out),
            VarKind::External | VarKind::Skipped => {}
            _ => {
                out.push(v.name);
                out.extend(v.aliases.iter().copied());
            }
        }
    }
}

fn assemble(s: &StructDesc, lvl: LevelOut, sub: Option<Vec<String>>, t: &mut Tape<'_>, mode: Mode) -> Result<Vec<String>, Unprintable> {
    // a positional can only be left out when nothing positional follows it
    let mut pos = Vec::new();
    let mut gap = false;
    for p in lvl.positionals {
        match p {
            None => gap = true,
            Some(p) => {
                if gap {
                    return Err(Unprintable::Inexpressible("positional after an omitted positional"));
                }
                pos.push(p);
            }
        }
    }
    if let Some((e, _)) = level_sub(s) {
        let mut names = Vec::new();
        sub_names(e, &mut names);
        names.push("help");
        if pos.iter().any(|p| names.contains(&p.as_str())) || (e.has_external() && false) {
            return Err(Unprintable::Inexpressible("positional value spelled like a subcommand"));
        }
    }
    if let (true, Some(words), Some((e, _))) = (gap, &sub, level_sub(s)) {
        let mut names = Vec::new();
        sub_names(e, &mut names);
        if !names.contains(&words[0].as_str()) {
            return Err(Unprintable::Inexpressible("external subcommand after an omitted positional (the name would fill the positional)"));
        }
    }
    if pos.iter().any(|p| p.starts_with('-')) {
        return Err(Unprintable::Inexpressible("positional value starting with a hyphen"));
    }
    // group occurrences per argument (order inside a group is the order of the values), permute the groups
    let mut groups: Vec<Vec<Occ>> = Vec::new();
    for o in lvl.opts {
        match groups.iter_mut().find(|g| g[0].id == o.id) {
            Some(g) => g.push(o),
            None => groups.push(vec![o]),
        }
    }
    if mode.vary && groups.len() > 1 {
        for i in (1..groups.len()).rev() {
            let j = t.choose(i + 1);
            groups.swap(i, j);
        }
    }
    // the last occurrence before positionals / the subcommand must not be open
    let follows = !pos.is_empty() || sub.is_some();
    if follows && groups.last().map(|g| g.last().unwrap().open).unwrap_or(false) {
        match groups.iter().position(|g| !g.last().unwrap().open) {
            Some(i) => {
                let g = groups.remove(i);
                groups.push(g);
            }
            None => return Err(Unprintable::Inexpressible("an open option occurrence would swallow the next word")),
        }
    }
    let mut out: Vec<String> = Vec::new();
    for g in groups {
        for o in g {
            out.extend(o.toks);
        }
    }
    out.extend(pos);
    if let Some(s) = sub {
        out.extend(s);
    }
    Ok(out)
}

fn print_sub(e: &SubDesc, o: &Obs, t: &mut Tape<'_>, mode: Mode, only: Only<'_>) -> Result<Vec<String>, Unprintable> {
    let (rust, payload) = o.as_variant();
    let v = e.variants.iter().find(|v| v.rust == rust).ok_or(Unprintable::Inexpressible("unknown variant"))?;
    let name = {
        let mut names = vec![v.name];
        if mode.vary {
            names.extend(v.aliases.iter().copied());
        }
        (*t.pick(&names)).to_owned()
    };
    match &v.kind {
        VarKind::Skipped => Err(Unprintable::Inexpressible("skipped variant")),
        VarKind::Unit => Ok(vec![name]),
        VarKind::Named(s) | VarKind::Tuple(s) => {
            let mut out = vec![name];
            out.extend(print_struct(s, payload, t, mode, only)?);
            Ok(out)
        }
        VarKind::Nested(inner) => {
            let mut out = vec![name];
            out.extend(print_sub(inner, payload, t, mode, only)?);
            Ok(out)
        }
        VarKind::Flatten(inner) => print_sub(inner, payload, t, mode, only),
        VarKind::External => match payload {
            Obs::List(xs) if !xs.is_empty() => {
                let words: Vec<String> = xs.iter().map(|x| if let Obs::Str(s) = x { s.clone() } else { String::new() }).collect();
                let mut names = Vec::new();
                sub_names(e, &mut names);
                if names.contains(&words[0].as_str()) || words[0].starts_with('-') || words[0] == "help" {
                    return Err(Unprintable::Inexpressible("external name shadows a variant"));
                }
                Ok(words)
            }
            _ => Err(Unprintable::Inexpressible("external subcommand without a name")),
        },
    }
}

pub fn print_struct(s: &StructDesc, o: &Obs, t: &mut Tape<'_>, mode: Mode, only: Only<'_>) -> Result<Vec<String>, Unprintable> {
    let mut lvl = LevelOut { opts: vec![], positionals: vec![] };
    let mut sub = None;
    print_fields(s, o, &mut lvl, &mut sub, t, mode, only)?;
    assemble(s, lvl, sub, t, mode)
}

/// Print `o` entirely, or (mode.subset) only the fields for which `only` says yes.
pub fn print(n: &Node, o: &Obs, t: &mut Tape<'_>, mode: Mode, only: Only<'_>) -> Result<Vec<String>, Unprintable> {
    match n {
        Node::Struct(s) => print_struct(s, o, t, mode, only),
        Node::Enum(e) => print_sub(e, o, t, mode, only),
    }
}


// ---------------------------------------------------------------------------
// free-form command lines (agreement + extraction part)

const NOISE: &[&str] = &["--nope", "-Z", "--", "stray", "-", "--=", "-5", "=x", ""];

fn free_value(a: &ArgDesc, t: &mut Tape<'_>) -> String {
    match &a.val {
        ValTy::Str => (*t.pick(STR_POOL)).to_owned(),
        ValTy::I64 => {
            if t.chance(1, 8) {
                (*t.pick(&["x", "", "1.5", "99999999999999999999", "+3", " 4"])).to_owned()
            } else {
                t.pick(INT_POOL).to_string()
            }
        }
        ValTy::Enum(e) => {
            let v = t.pick(&e.variants);
            let mut names = vec![v.name.to_owned()];
            names.extend(v.aliases.iter().map(|a| a.to_string()));
            names.push(v.rust.to_owned());
            let n = t.pick(&names).clone();
            match t.choose(5) {
                0 => n.to_uppercase(),
                1 => n.to_lowercase(),
                2 => {
                    let mut c = n.chars();
                    match c.next() {
                        Some(f) => f.to_uppercase().collect::<String>() + c.as_str(),
                        None => n,
                    }
                }
                _ => n,
            }
        }
    }
}

pub fn free_level(s: &StructDesc, t: &mut Tape<'_>, out: &mut Vec<String>) {
    let mut args = Vec::new();
    level_args(s, &mut args);
    let mut toks: Vec<Vec<String>> = Vec::new();
    let mut pos: Vec<String> = Vec::new();
    for a in &args {
        let required = matches!(a.shape, Shape::Req) && a.default.is_none();
        let take = if required { !t.chance(1, 8) } else { t.chance(1, 2) };
        if !take {
            continue;
        }
        if a.positional {
            let n = match a.shape {
                Shape::Vec | Shape::OptVec => t.range(1, 3),
                _ => 1,
            };
            for _ in 0..n {
                pos.push(free_value(a, t));
            }
            continue;
        }
        let reps = match a.shape {
            Shape::Count => t.range(1, 3),
            Shape::Vec | Shape::OptVec | Shape::VecVec | Shape::OptVecVec => t.range(1, 3),
            _ => {
                if t.chance(1, 10) {
                    2
                } else {
                    1
                }
            }
        };
        for _ in 0..reps {
            let (sw, is_long) = switch(a, t, true);
            match a.shape {
                Shape::Bool | Shape::Count => toks.push(vec![sw]),
                _ => {
                    let n = match (a.shape, a.num_args) {
                        (Shape::OptOpt, _) => t.range(0, 1),
                        (_, Some((lo, hi))) => t.range(lo, hi),
                        _ => 1,
                    };
                    let vals: Vec<String> = (0..n).map(|_| free_value(a, t)).collect();
                    let vals = if a.delim.is_some() && vals.len() == 1 && t.bool() { vec![format!("{},{}", vals[0], free_value(a, t))] } else { vals };
                    if vals.len() == 1 {
                        match t.choose(3) {
                            0 => toks.push(vec![format!("{sw}={}", vals[0])]),
                            1 if !is_long => toks.push(vec![format!("{sw}{}", vals[0])]),
                            _ => toks.push(vec![sw, vals[0].clone()]),
                        }
                    } else {
                        let mut v = vec![sw];
                        v.extend(vals);
                        toks.push(v);
                    }
                }
            }
        }
    }
    // interleave options and positionals, positional values in declaration order
    let mut seq: Vec<Option<Vec<String>>> = toks.into_iter().map(Some).collect();
    for _ in 0..pos.len() {
        let at = t.choose(seq.len() + 1);
        seq.insert(at, None);
    }
    let mut pi = pos.into_iter();
    let mut noise_budget = 1;
    for item in seq {
        if noise_budget > 0 && t.chance(1, 12) {
            out.push((*t.pick(NOISE)).to_owned());
            noise_budget -= 1;
        }
        match item {
            Some(toks) => out.extend(toks),
            None => out.extend(pi.next()),
        }
    }
    if let Some((e, optional)) = level_sub(s) {
        let skip = if optional { t.chance(1, 3) } else { t.chance(1, 10) };
        if !skip {
            free_sub(e, t, out);
        }
    }
}


pub fn free_sub(e: &SubDesc, t: &mut Tape<'_>, out: &mut Vec<String>) {
    let v = t.pick(&e.variants);
    match &v.kind {
        VarKind::Skipped => out.push(v.rust.to_lowercase()),
        VarKind::External => {
            out.push((*t.pick(EXT_NAMES)).to_owned());
            for _ in 0..t.range(0, 3) {
                out.push((*t.pick(EXT_ARGS)).to_owned());
            }
        }
        VarKind::Flatten(inner) => free_sub(inner, t, out),
        k => {
            let mut names = vec![v.name];
            names.extend(v.aliases.iter().copied());
            out.push((*t.pick(&names)).to_owned());
            match k {
                VarKind::Named(s) | VarKind::Tuple(s) => free_level(s, t, out),
                VarKind::Nested(inner) => {
                    if !t.chance(1, 10) {
                        free_sub(inner, t, out)
                    }
                }
                _ => {}
            }
        }
    }
}

pub fn free_argv(n: &Node, t: &mut Tape<'_>) -> Vec<String> {
    let mut out = Vec::new();
    match n {
        Node::Struct(s) => free_level(s, t, &mut out),
        Node::Enum(e) => {
            if !t.chance(1, 12) {
                free_sub(e, t, &mut out)
            }
        }
    }
    out
}

/// number of distinct argument shapes held explicitly by the matches, through all levels
pub fn shapes_touched(n: &Node, m: &ArgMatches) -> usize {
    fn walk_struct(s: &StructDesc, m: &ArgMatches, acc: &mut std::collections::BTreeSet<String>) {
        let mut args = Vec::new();
        level_args(s, &mut args);
        for a in args {
            if explicit(m, a.id) {
                acc.insert(format!("{:?}{}", a.shape, if a.positional { "p" } else { "" }));
            }
        }
        if let Some((e, _)) = level_sub(s) {
            walk_sub(e, m, acc);
        }
    }
    fn walk_sub(e: &SubDesc, m: &ArgMatches, acc: &mut std::collections::BTreeSet<String>) {
        let Some((name, sm)) = m.subcommand() else { return };
        acc.insert("sub".into());
        if is_external(sm) {
            return;
        }
        for v in &e.variants {
            match &v.kind {
                VarKind::Flatten(inner) if inner.owns(name) => walk_sub(inner, m, acc),
                VarKind::Named(s) | VarKind::Tuple(s) if v.name == name => walk_struct(s, sm, acc),
                VarKind::Nested(inner) if v.name == name => walk_sub(inner, sm, acc),
                _ => {}
            }
        }
    }
    let mut acc = std::collections::BTreeSet::new();
    match n {
        Node::Struct(s) => walk_struct(s, m, &mut acc),
        Node::Enum(e) => walk_sub(e, m, &mut acc),
    }
    acc.len()
}
