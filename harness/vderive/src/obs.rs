//! Normalised observation of a value of a corpus type. Produced mechanically
//! (`ToObs`) from the derived value and, independently, by the interpreter from
//! `ArgMatches` + descriptor.

use serde::{Deserialize, Serialize};

#[derive(Clone, Debug, PartialEq, Eq, Hash, Serialize, Deserialize)]
pub enum Obs {
    Unit,
    Bool(bool),
    Int(i64),
    Str(String),
    /// a value-enum variant, by its Rust identifier
    Enum(String),
    None,
    Some(Box<Obs>),
    List(Vec<Obs>),
    Struct(Vec<(String, Obs)>),
    /// subcommand enum variant (Rust identifier) and payload
    Variant(String, Box<Obs>),
}

static MISSING: Obs = Obs::Unit;

impl Obs {
    pub fn variant(name: &str, payload: Obs) -> Obs {
        Obs::Variant(name.to_owned(), Box::new(payload))
    }
    pub fn some(o: Obs) -> Obs {
        Obs::Some(Box::new(o))
    }
    pub fn field(&self, name: &str) -> &Obs {
        match self {
            Obs::Struct(fs) => fs.iter().find(|(n, _)| n == name).map(|(_, o)| o).unwrap_or(&MISSING),
            _ => &MISSING,
        }
    }
    pub fn as_variant(&self) -> (&str, &Obs) {
        match self {
            Obs::Variant(n, p) => (n.as_str(), p),
            _ => ("", &MISSING),
        }
    }
    pub fn as_enum(&self) -> &str {
        match self {
            Obs::Enum(n) => n,
            _ => "",
        }
    }
}

pub trait ToObs {
    fn to_obs(&self) -> Obs;
}
pub trait FromObs: Sized {
    fn from_obs(o: &Obs) -> Self;
}

impl ToObs for bool {
    fn to_obs(&self) -> Obs {
        Obs::Bool(*self)
    }
}
impl FromObs for bool {
    fn from_obs(o: &Obs) -> Self {
        matches!(o, Obs::Bool(true))
    }
}
impl ToObs for u8 {
    fn to_obs(&self) -> Obs {
        Obs::Int(*self as i64)
    }
}
impl FromObs for u8 {
    fn from_obs(o: &Obs) -> Self {
        match o {
            Obs::Int(i) => *i as u8,
            _ => 0,
        }
    }
}
impl ToObs for i64 {
    fn to_obs(&self) -> Obs {
        Obs::Int(*self)
    }
}
impl FromObs for i64 {
    fn from_obs(o: &Obs) -> Self {
        match o {
            Obs::Int(i) => *i,
            _ => 0,
        }
    }
}
impl ToObs for String {
    fn to_obs(&self) -> Obs {
        Obs::Str(self.clone())
    }
}
impl FromObs for String {
    fn from_obs(o: &Obs) -> Self {
        match o {
            Obs::Str(s) => s.clone(),
            _ => String::new(),
        }
    }
}
impl<T: ToObs> ToObs for Option<T> {
    fn to_obs(&self) -> Obs {
        match self {
            None => Obs::None,
            Some(x) => Obs::some(x.to_obs()),
        }
    }
}
impl<T: FromObs> FromObs for Option<T> {
    fn from_obs(o: &Obs) -> Self {
        match o {
            Obs::Some(x) => Some(T::from_obs(x)),
            _ => None,
        }
    }
}
impl<T: ToObs> ToObs for Vec<T> {
    fn to_obs(&self) -> Obs {
        Obs::List(self.iter().map(|x| x.to_obs()).collect())
    }
}
impl<T: FromObs> FromObs for Vec<T> {
    fn from_obs(o: &Obs) -> Self {
        match o {
            Obs::List(xs) => xs.iter().map(T::from_obs).collect(),
            _ => Vec::new(),
        }
    }
}
impl<T: ToObs> ToObs for Box<T> {
    fn to_obs(&self) -> Obs {
        (**self).to_obs()
    }
}
impl<T: FromObs> FromObs for Box<T> {
    fn from_obs(o: &Obs) -> Self {
        Box::new(T::from_obs(o))
    }
}
