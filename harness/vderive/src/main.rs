//! C15 — Derived parsers are exactly their command plus field extraction, and round-trip.
//!
//! Separate binary: the derive corpus only compiles when C15 runs.

mod corpus;
#[cfg(feature = "extra-corpus")]
mod corpus_extra;
mod desc;
mod interp;
mod obs;
mod registry;

use desc::*;
use interp::*;
use obs::Obs;
use registry::Entry;
use serde::{Deserialize, Serialize};
use std::ffi::OsString;
use std::sync::OnceLock;
use vcore::*;

struct Family {
    entry: Entry,
    node: Node,
}

fn families() -> &'static Vec<Family> {
    static F: OnceLock<Vec<Family>> = OnceLock::new();
    F.get_or_init(|| {
        let mut es = corpus::registry();
        #[cfg(feature = "extra-corpus")]
        es.extend(corpus_extra::registry());
        es.into_iter()
            .map(|entry| {
                let node = (entry.node)();
                Family { entry, node }
            })
            .collect()
    })
}

fn family(name: &str) -> Option<&'static Family> {
    families().iter().find(|f| f.entry.rust == name)
}

fn pick_family(t: &mut Tape<'_>) -> &'static Family {
    let fs = families();
    &fs[t.choose(fs.len())]
}

fn argv_of(bin: &str, words: &[String]) -> Vec<OsString> {
    std::iter::once(bin.to_owned()).chain(words.iter().cloned()).map(OsString::from).collect()
}

// ---------------------------------------------------------------------------
// where two observations differ, in terms of the descriptor

fn diff_struct(s: &StructDesc, want: &Obs, got: &Obs) -> Option<(String, String)> {
    for f in &s.fields {
        let (w, g) = (want.field(f.name), got.field(f.name));
        if w == g {
            continue;
        }
        let path = f.name.to_owned();
        return Some(match &f.kind {
            FieldKind::Arg(a) => (format!("arg:{:?}{}", a.shape, if a.positional { ":positional" } else { "" }), format!("{path}: expected {w:?}, derived value has {g:?}")),
            FieldKind::Skip(_) => ("skip".into(), format!("{path}: expected {w:?}, derived value has {g:?}")),
            FieldKind::Flatten { inner, optional } => {
                let (w2, g2) = if *optional {
                    match (w, g) {
                        (Obs::Some(w2), Obs::Some(g2)) => (&**w2, &**g2),
                        _ => return Some(("flatten:option-presence".into(), format!("{path}: expected {w:?}, derived value has {g:?}"))),
                    }
                } else {
                    (w, g)
                };
                match diff_struct(inner, w2, g2) {
                    Some((k, p)) => (k, format!("{path}.{p}")),
                    None => ("flatten".into(), path),
                }
            }
            FieldKind::Sub { inner, optional } => {
                let (w2, g2) = if *optional {
                    match (w, g) {
                        (Obs::Some(w2), Obs::Some(g2)) => (&**w2, &**g2),
                        _ => return Some(("subcommand:option-presence".into(), format!("{path}: expected {w:?}, derived value has {g:?}"))),
                    }
                } else {
                    (w, g)
                };
                match diff_sub(inner, w2, g2) {
                    Some((k, p)) => (k, format!("{path}.{p}")),
                    None => ("subcommand".into(), path),
                }
            }
        });
    }
    if want != got {
        return Some(("struct".into(), format!("expected {want:?}, derived value has {got:?}")));
    }
    None
}

fn diff_sub(e: &SubDesc, want: &Obs, got: &Obs) -> Option<(String, String)> {
    if want == got {
        return None;
    }
    let (wr, wp) = want.as_variant();
    let (gr, gp) = got.as_variant();
    if wr != gr {
        return Some(("subcommand:variant".into(), format!("expected variant {wr}, derived value is {gr} ({got:?})")));
    }
    let v = e.variants.iter().find(|v| v.rust == wr)?;
    match &v.kind {
        VarKind::Named(s) | VarKind::Tuple(s) => diff_struct(s, wp, gp).map(|(k, p)| (k, format!("{wr}.{p}"))),
        VarKind::Nested(inner) | VarKind::Flatten(inner) => diff_sub(inner, wp, gp).map(|(k, p)| (k, format!("{wr}.{p}"))),
        VarKind::External => Some(("subcommand:external".into(), format!("{wr}: expected {wp:?}, derived value has {gp:?}"))),
        _ => Some(("subcommand:payload".into(), format!("{wr}: expected {wp:?}, derived value has {gp:?}"))),
    }
}

fn diff(n: &Node, want: &Obs, got: &Obs) -> (String, String) {
    let d = match n {
        Node::Struct(s) => diff_struct(s, want, got),
        Node::Enum(e) => diff_sub(e, want, got),
    };
    d.unwrap_or_else(|| ("value".into(), format!("expected {want:?}, got {got:?}")))
}

// ---------------------------------------------------------------------------
// part 1: parse == command + extraction

#[derive(Serialize, Deserialize, Hash, Clone, Debug)]
struct ParseCase {
    family: String,
    argv: Vec<String>,
}

struct ParseAgreement;

impl Property for ParseAgreement {
    type Case = ParseCase;
    fn name(&self) -> &'static str {
        "parse-vs-command"
    }
    fn rule(&self) -> String {
        "a corpus family and a command line written from its descriptor (every spelling of switches, values of the right and wrong type, value-enum names / aliases / case \
         variants, subcommand names / aliases / external names, repeated and missing arguments, one noise token). Oracle: T::try_parse_from succeeds iff \
         T::command().try_get_matches_from does (same ErrorKind otherwise); on success the derived value, observed field by field, equals the shape rules applied to those \
         matches by the interpreter, and FromArgMatches::from_arg_matches on the same matches gives the same value. non-trivial = an accepted line whose matches hold >= 2 \
         distinct argument shapes explicitly (or a subcommand), or a rejected line; distinct = distinct (family, argv)"
            .into()
    }
    fn budget(&self, tier: Tier) -> Budget {
        Budget { cases: tier.pick(1_500_000, 6_000_000), tape_len: 600 }
    }
    fn decode(&self, t: &mut Tape<'_>) -> ParseCase {
        let f = pick_family(t);
        ParseCase { family: f.entry.rust.to_owned(), argv: free_argv(&f.node, t) }
    }
    fn run(&self, case: &ParseCase, ctx: &mut Ctx) -> Verdict {
        let Some(f) = family(&case.family) else { return Verdict::Discard("unknown-family") };
        let argv = argv_of(f.entry.bin, &case.argv);
        let derived = match catch(|| (f.entry.parse)(&argv)) {
            Ok(r) => r,
            Err(p) => return Verdict::Fail(Failure::from_panic(&p)),
        };
        let matches = match catch(|| (f.entry.command)().try_get_matches_from(argv.iter())) {
            Ok(r) => r,
            Err(p) => return Verdict::Fail(Failure::from_panic(&p)),
        };
        match (&derived, &matches) {
            (Err((k1, _)), Err(e)) => {
                ensure!(*k1 == e.kind(), "derive:error-kind-differs", "{}: {:?}: try_parse_from fails with {:?}, the command with {:?}", case.family, case.argv, k1, e.kind());
                ctx.label("rejected");
                ctx.nontrivial();
                Verdict::Pass
            }
            (Ok(v), Err(e)) => Verdict::fail(
                "derive:accepts-what-the-command-rejects",
                format!("{}: {:?}: try_parse_from gives {v:?} but the command rejects the line ({:?})", case.family, case.argv, e.kind()),
            ),
            (Err((k, msg)), Ok(m)) => {
                let exp = expected(&f.node, m);
                let what = match exp {
                    Ok(_) => "although every field can be extracted by the shape rules".to_owned(),
                    Err(r) => format!("(shape rules: {r:?})"),
                };
                let clash = if escaped_word_names_flattened_subcommand(&f.node, m) { ":escaped-word-names-flattened-subcommand" } else { "" };
                let fail = Failure::new(
                    format!("derive:rejects-what-the-command-accepts:{k:?}{clash}"),
                    format!("{}: {:?}: the command accepts the line but try_parse_from fails with {k:?} {what}: {}", case.family, case.argv, msg.lines().next().unwrap_or("")),
                );
                ctx.note_known(&fail)
            }
            (Ok(v), Ok(m)) => {
                let exp = match expected(&f.node, m) {
                    Ok(e) => e,
                    Err(r) => {
                        return Verdict::fail(
                            "derive:value-where-extraction-must-fail",
                            format!("{}: {:?}: the shape rules cannot extract a value ({r:?}) yet the derived parser returned {v:?}", case.family, case.argv),
                        )
                    }
                };
                if exp != *v {
                    let (k, p) = diff(&f.node, &exp, v);
                    return Verdict::fail(format!("derive:field-differs:{k}"), format!("{}: {:?}: {p}", case.family, case.argv));
                }
                match catch(|| (f.entry.from_matches)(m)) {
                    Ok(Ok(v2)) => ensure!(v2 == *v, "derive:from_arg_matches-differs-from-parse", "{}: {:?}: parse gives {v:?}, from_arg_matches {v2:?}", case.family, case.argv),
                    Ok(Err((k, _))) => return Verdict::fail("derive:from_arg_matches-differs-from-parse", format!("{}: {:?}: parse gives {v:?}, from_arg_matches fails {k:?}", case.family, case.argv)),
                    Err(p) => return Verdict::Fail(Failure::from_panic(&p)),
                }
                let n = shapes_touched(&f.node, m);
                ctx.label(match n {
                    0 => "accepted:0-shapes",
                    1 => "accepted:1-shape",
                    2 => "accepted:2-shapes",
                    _ => "accepted:3+-shapes",
                });
                if n >= 2 {
                    ctx.nontrivial();
                }
                Verdict::Pass
            }
        }
    }
    fn json_shrinkable(&self) -> bool {
        true
    }
}

// ---------------------------------------------------------------------------
// part 1b: the derived command extended by the application

/// `T::command().subcommand(Command::new("zz-extra") ...)` followed by `FromArgMatches::from_arg_matches`: a struct whose
/// subcommand field is `Option<Sub>` must still be extracted, with the field empty, when the line names the added
/// subcommand.
struct Augmented;

fn augmentable() -> &'static Vec<&'static Family> {
    static F: OnceLock<Vec<&'static Family>> = OnceLock::new();
    F.get_or_init(|| {
        families()
            .iter()
            .filter(|f| match &f.node {
                Node::Struct(s) => matches!(level_sub(s), Some((e, true)) if !e.has_external()),
                Node::Enum(_) => false,
            })
            .collect()
    })
}

impl Property for Augmented {
    type Case = ParseCase;
    fn name(&self) -> &'static str {
        "augmented-command"
    }
    fn rule(&self) -> String {
        format!(
            "the {} corpus families whose root struct has an `Option<Sub>` subcommand field (no external variant) x a command line written from the descriptor \
             followed by the name of a subcommand that the application added to `T::command()` and 0-2 values for it. Oracle: whenever the extended command accepts \
             the line, FromArgMatches::from_arg_matches / from_arg_matches_mut on those matches succeed and equal the shape rules (own arguments as usual, the subcommand \
             field None when the matched subcommand is the added one). non-trivial = an accepted line that reached the added subcommand; distinct = distinct (family, argv)",
            augmentable().len()
        )
    }
    fn budget(&self, tier: Tier) -> Budget {
        Budget { cases: tier.pick(200_000, 1_000_000), tape_len: 600 }
    }
    fn decode(&self, t: &mut Tape<'_>) -> ParseCase {
        let fs = augmentable();
        if fs.is_empty() {
            return ParseCase { family: String::new(), argv: Vec::new() };
        }
        let f = fs[t.choose(fs.len())];
        let mut argv = free_argv(&f.node, t);
        argv.push("zz-extra".to_owned());
        for _ in 0..t.range(0, 2) {
            argv.push((*t.pick(&["v", "w1", "0"])).to_owned());
        }
        ParseCase { family: f.entry.rust.to_owned(), argv }
    }
    fn run(&self, case: &ParseCase, ctx: &mut Ctx) -> Verdict {
        let Some(f) = family(&case.family) else { return Verdict::Discard("unknown-family") };
        let argv = argv_of(f.entry.bin, &case.argv);
        let cmd = (f.entry.command)().subcommand(clap::Command::new("zz-extra").arg(clap::Arg::new("rest").num_args(0..)));
        let m = match catch(|| cmd.try_get_matches_from(argv.iter())) {
            Ok(Ok(m)) => m,
            Ok(Err(_)) => return Verdict::Discard("line-rejected-by-the-extended-command"),
            Err(p) => return Verdict::Fail(Failure::from_panic(&p)),
        };
        let exp = match expected(&f.node, &m) {
            Ok(e) => e,
            Err(_) => return Verdict::Discard("shape-rules-cannot-extract"),
        };
        match catch(|| (f.entry.from_matches)(&m)) {
            Ok(Ok(v)) => {
                if exp != v {
                    let (k, p) = diff(&f.node, &exp, &v);
                    return Verdict::fail(format!("derive:augmented:field-differs:{k}"), format!("{}: {:?}: {p}", case.family, case.argv));
                }
            }
            Ok(Err((k, msg))) => {
                return Verdict::fail(
                    format!("derive:augmented:rejects-what-the-command-accepts:{k:?}"),
                    format!(
                        "{}: {:?}: the extended command accepts the line, the shape rules give {exp:?}, but from_arg_matches fails with {k:?}: {}",
                        case.family,
                        case.argv,
                        msg.lines().next().unwrap_or("")
                    ),
                )
            }
            Err(p) => return Verdict::Fail(Failure::from_panic(&p)),
        }
        if m.subcommand_name() == Some("zz-extra") {
            ctx.label("added-subcommand-reached");
            ctx.nontrivial();
        }
        Verdict::Pass
    }
    fn json_shrinkable(&self) -> bool {
        true
    }
}

// ---------------------------------------------------------------------------
// part 2: print -> parse round trip

#[derive(Serialize, Deserialize, Hash, Clone, Debug)]
struct RoundCase {
    family: String,
    value: Obs,
    /// choices of the printer (spellings, order)
    spell: Vec<u32>,
    vary: bool,
}

struct RoundTrip;

impl Property for RoundTrip {
    type Case = RoundCase;
    fn name(&self) -> &'static str {
        "round-trip"
    }
    fn rule(&self) -> String {
        "a corpus family, a value of the type generated from the descriptor (every shape, None / Some(None) / Some(Some), empty and multi-element vectors, nested occurrences, \
         optional flattened structs, every subcommand variant incl. nested, flattened and external ones, skipped fields at their default) and printer choices (canonical \
         `--long=value` form, or varied: short / alias switches, detached values, delimiter-joined lists, chunked occurrences, enum aliases and case variants under \
         ignore_case, subcommand aliases, permuted options). Values no command line can express are discarded and counted. Oracle: T::try_parse_from(print(v)) == v. \
         non-trivial = the value prints to >= 3 words; distinct = distinct (family, value, argv)"
            .into()
    }
    fn budget(&self, tier: Tier) -> Budget {
        Budget { cases: tier.pick(1_500_000, 6_000_000), tape_len: 500 }
    }
    fn decode(&self, t: &mut Tape<'_>) -> RoundCase {
        let f = pick_family(t);
        let vary = t.chance(2, 3);
        let value = gen_value(&f.node, t, true);
        let spell = (0..48).map(|_| t.word()).collect();
        RoundCase { family: f.entry.rust.to_owned(), value, spell, vary }
    }
    fn run(&self, case: &RoundCase, ctx: &mut Ctx) -> Verdict {
        let Some(f) = family(&case.family) else { return Verdict::Discard("unknown-family") };
        let echo = match catch(|| (f.entry.echo)(&case.value)) {
            Ok(e) => e,
            Err(_) => return Verdict::Discard("not-a-value-of-the-type"),
        };
        if echo != case.value {
            return Verdict::Discard("not-a-value-of-the-type");
        }
        let mut t = Tape::new(&case.spell);
        let words = match print(&f.node, &case.value, &mut t, Mode { vary: case.vary, subset: false }, &mut |_| true) {
            Ok(w) => w,
            Err(Unprintable::Inexpressible(why)) => {
                ctx.label_owned(format!("inexpressible:{why}"));
                return Verdict::Discard("inexpressible-value");
            }
        };
        if words.is_empty() && (f.entry.command)().is_arg_required_else_help_set() {
            // the root type reserves the empty line for help: the value "nothing given" has no command line
            ctx.label_owned("inexpressible:empty line under arg_required_else_help".to_owned());
            return Verdict::Discard("inexpressible-value");
        }
        let argv = argv_of(f.entry.bin, &words);
        let got = match catch(|| (f.entry.parse)(&argv)) {
            Ok(r) => r,
            Err(p) => return Verdict::Fail(Failure::from_panic(&p)),
        };
        match got {
            Err((k, msg)) => Verdict::fail(
                format!("roundtrip:printed-value-rejected:{k:?}"),
                format!("{}: value {:?} printed as {:?} is rejected: {}", case.family, case.value, words, msg.lines().next().unwrap_or("")),
            ),
            Ok(v) => {
                if v != case.value {
                    let (k, p) = diff(&f.node, &case.value, &v);
                    return Verdict::fail(format!("roundtrip:value-differs:{k}"), format!("{}: printed as {:?}: {p}", case.family, words));
                }
                ctx.label(if case.vary { "varied-spelling" } else { "canonical-spelling" });
                if words.len() >= 3 {
                    ctx.nontrivial();
                }
                Verdict::Pass
            }
        }
    }
    fn json_shrinkable(&self) -> bool {
        // sound: anything that is not a value of the type is discarded by the echo test
        true
    }
}

// ---------------------------------------------------------------------------
// part 3: update histories

#[derive(Serialize, Deserialize, Hash, Clone, Debug)]
struct UpdateCase {
    family: String,
    old: Obs,
    lines: Vec<Vec<String>>,
}

struct Update;

impl Property for Update {
    type Case = UpdateCase;
    fn name(&self) -> &'static str {
        "update-histories"
    }
    fn rule(&self) -> String {
        "a corpus family, an existing value of the type (any value, skipped fields and skipped variants included) and 1-3 update lines, each the printed form of a random \
         subset of the fields of another generated value (so some fields are named and others are not; a line may switch to another subcommand variant). Oracle per step: \
         with m = T::command_for_update().try_get_matches_from(line), try_update_from succeeds iff m is Ok and the shape rules can extract every newly created part; the new \
         value equals the old one with exactly the arguments whose value_source is CommandLine replaced by the shape rule applied to m (same variant: recursively; other \
         variant: fresh extraction; no subcommand on the line: subcommand field untouched; Option<flatten>/Option<subcommand> stay None unless named). non-trivial = some \
         step names at least one argument and leaves at least one other field of the old value in place; distinct = distinct (family, old, lines)"
            .into()
    }
    fn budget(&self, tier: Tier) -> Budget {
        Budget { cases: tier.pick(1_000_000, 4_000_000), tape_len: 1000 }
    }
    fn decode(&self, t: &mut Tape<'_>) -> UpdateCase {
        let f = pick_family(t);
        let old = gen_value(&f.node, t, false);
        let n = t.range(1, 3);
        let mut lines = Vec::new();
        for _ in 0..n {
            let v = gen_value(&f.node, t, true);
            let mut sub = t.clone();
            let mut line = print(&f.node, &v, t, Mode { vary: true, subset: true }, &mut |_| sub.chance(1, 2)).unwrap_or_default();
            // the line that names nothing at all (for an enum the printer always names the variant)
            if t.chance(1, 12) {
                line.clear();
            }
            lines.push(line);
        }
        UpdateCase { family: f.entry.rust.to_owned(), old, lines }
    }
    fn run(&self, case: &UpdateCase, ctx: &mut Ctx) -> Verdict {
        let Some(f) = family(&case.family) else { return Verdict::Discard("unknown-family") };
        match catch(|| (f.entry.echo)(&case.old)) {
            Ok(e) if e == case.old => {}
            _ => return Verdict::Discard("not-a-value-of-the-type"),
        }
        let mut cur = case.old.clone();
        let mut interesting = false;
        for (i, line) in case.lines.iter().enumerate() {
            let argv = argv_of(f.entry.bin, line);
            let m = match catch(|| (f.entry.command_for_update)().try_get_matches_from(argv.iter())) {
                Ok(r) => r,
                Err(p) => return Verdict::Fail(Failure::from_panic(&p)),
            };
            let upd = match catch(|| (f.entry.update)(&cur, &argv)) {
                Ok(r) => r,
                Err(p) => return Verdict::Fail(Failure::from_panic(&p)),
            };
            let m = match (m, &upd) {
                (Err(e), Err((k, _))) => {
                    ensure!(e.kind() == *k, "update:error-kind-differs", "{}: step {i} {:?}: update fails with {k:?}, the update command with {:?}", case.family, line, e.kind());
                    // an update command never requires anything: every argument and subcommand is optional there
                    ensure!(
                        !matches!(
                            k,
                            clap::error::ErrorKind::MissingRequiredArgument
                                | clap::error::ErrorKind::MissingSubcommand
                                | clap::error::ErrorKind::DisplayHelpOnMissingArgumentOrSubcommand
                        ),
                        format!("update:update-command-requires-something:{k:?}"),
                        "{}: step {i} {:?} on {cur:?}: command_for_update() itself rejects the line with {k:?}: {}",
                        case.family,
                        line,
                        e.to_string().lines().next().unwrap_or("")
                    );
                    ctx.label_owned(format!("step-rejected:{k:?}"));
                    break;
                }
                (Err(e), Ok(v)) => {
                    return Verdict::fail(
                        "update:accepts-what-the-update-command-rejects",
                        format!("{}: step {i} {:?}: command_for_update rejects the line ({:?}) but the update succeeded giving {v:?}", case.family, line, e.kind()),
                    )
                }
                (Ok(m), _) => m,
            };
            let want = apply(&f.node, &cur, &m);
            match (want, upd) {
                (Err(r), Err(_)) => {
                    ctx.label_owned(format!("step-refused:{}", refusal_class(&r)));
                    break;
                }
                (Err(r), Ok(v)) => {
                    return Verdict::fail(
                        "update:value-where-extraction-must-fail",
                        format!("{}: step {i} {:?} on {cur:?}: the shape rules cannot build the new part ({r:?}) yet the update gave {v:?}", case.family, line),
                    )
                }
                (Ok(w), Err((k, msg))) => {
                    let changed = w != cur;
                    return Verdict::fail(
                        format!("update:fails:{k:?}:{}", if changed { "line-names-something" } else { "line-names-nothing-new" }),
                        format!("{}: step {i} {:?} on {cur:?}: expected {w:?} but the update failed with {k:?}: {}", case.family, line, msg.lines().next().unwrap_or("")),
                    );
                }
                (Ok(w), Ok(v)) => {
                    if w != v {
                        let (k, p) = diff(&f.node, &w, &v);
                        let untouched = diff_is_unnamed(&f.node, &cur, &w, &v);
                        return Verdict::fail(
                            format!("update:{}:{k}", if untouched { "unnamed-field-changed" } else { "named-field-wrong" }),
                            format!("{}: step {i} {:?} on {cur:?}: {p}", case.family, line),
                        );
                    }
                    if w != cur && !line.is_empty() {
                        // something changed; was something else kept?
                        if leaves(&cur) > 1 {
                            interesting = true;
                        }
                    }
                    cur = v;
                }
            }
        }
        ctx.label(match case.lines.len() {
            1 => "history:1-step",
            2 => "history:2-steps",
            _ => "history:3-steps",
        });
        if interesting {
            ctx.nontrivial();
        }
        Verdict::Pass
    }
    fn json_shrinkable(&self) -> bool {
        true
    }
}

fn refusal_class(r: &Refusal) -> &'static str {
    match r {
        Refusal::MissingRequired(_) => "missing-required",
        Refusal::MissingSubcommand => "missing-subcommand",
        Refusal::UnknownSubcommand(_) => "unknown-subcommand",
        Refusal::Broken(_) => "unreadable",
    }
}

fn leaves(o: &Obs) -> usize {
    match o {
        Obs::Struct(fs) => fs.iter().map(|(_, v)| leaves(v)).sum(),
        Obs::Variant(_, p) => 1 + leaves(p),
        Obs::Some(x) => leaves(x).max(1),
        _ => 1,
    }
}

/// the first differing field: did the expected value keep the old one there (i.e. the line did not name it)?
fn diff_is_unnamed(n: &Node, old: &Obs, want: &Obs, got: &Obs) -> bool {
    fn first_diff<'a>(old: &'a Obs, want: &'a Obs, got: &'a Obs) -> Option<(&'a Obs, &'a Obs)> {
        match (want, got) {
            (Obs::Struct(w), Obs::Struct(_)) => {
                for (name, wv) in w {
                    let gv = got.field(name);
                    if wv != gv {
                        return first_diff(old.field(name), wv, gv);
                    }
                }
                None
            }
            (Obs::Variant(wn, wp), Obs::Variant(gn, gp)) if wn == gn => {
                let (on, op) = old.as_variant();
                if on == wn {
                    first_diff(op, wp, gp)
                } else {
                    Some((old, want))
                }
            }
            (Obs::Some(w), Obs::Some(g)) => match old {
                Obs::Some(o) => first_diff(o, w, g),
                _ => Some((old, want)),
            },
            _ => Some((old, want)),
        }
    }
    let _ = n;
    match first_diff(old, want, got) {
        Some((o, w)) => o == w,
        None => false,
    }
}

// ---------------------------------------------------------------------------
// part 4: value enums

#[derive(Serialize, Deserialize, Hash, Clone, Debug)]
enum EnumCase {
    Map { family: String, index: usize, input: String, ignore_case: bool },
    Table { family: String, index: usize },
}

struct ValueEnums;

fn enum_inputs(e: &EnumDesc) -> Vec<String> {
    let mut out = Vec::new();
    for v in &e.variants {
        let mut names = vec![v.name.to_owned(), v.rust.to_owned()];
        names.extend(v.aliases.iter().map(|a| a.to_string()));
        for n in names {
            out.push(n.to_uppercase());
            out.push(n.to_lowercase());
            let mut c = n.chars();
            if let Some(f) = c.next() {
                out.push(f.to_uppercase().collect::<String>() + c.as_str());
            }
            out.push(format!("{n} "));
            out.push(n[..n.len().saturating_sub(1)].to_owned());
            out.push(n);
        }
    }
    out.push(String::new());
    out.sort();
    out.dedup();
    out
}

impl ValueEnums {
    fn check(&self, case: &EnumCase, ctx: &mut Ctx) -> Verdict {
        let (fam, idx) = match case {
            EnumCase::Map { family, index, .. } | EnumCase::Table { family, index } => (family, *index),
        };
        let Some(f) = family(fam) else { return Verdict::Discard("unknown-family") };
        let Some(mk) = f.entry.enums.get(idx) else { return Verdict::Discard("unknown-enum") };
        let e = mk();
        match case {
            EnumCase::Map { input, ignore_case, .. } => {
                let want = e.lookup(input, *ignore_case).map(|r| Obs::Enum(r.to_owned()));
                let got = match catch(|| (e.from_str)(input, *ignore_case)) {
                    Ok(g) => g,
                    Err(p) => return Verdict::Fail(Failure::from_panic(&p)),
                };
                if want != got {
                    let kind = match (&want, &got) {
                        (Some(_), None) => {
                            let is_alias = e.variants.iter().any(|v| v.aliases.iter().any(|a| a.eq_ignore_ascii_case(input)));
                            if is_alias {
                                "alias-not-mapped"
                            } else {
                                "name-not-mapped"
                            }
                        }
                        (None, Some(_)) => "foreign-string-mapped",
                        _ => "mapped-to-another-variant",
                    };
                    return Verdict::fail(
                        format!("value-enum:{kind}{}", if *ignore_case { ":ignore-case" } else { "" }),
                        format!("{}: from_str({input:?}, {ignore_case}) = {got:?}, the name/alias table says {want:?}", e.name),
                    );
                }
                if want.is_some() {
                    ctx.label(if *ignore_case { "maps:ignore-case" } else { "maps:exact" });
                    ctx.nontrivial();
                } else {
                    ctx.label("no-variant");
                }
                Verdict::Pass
            }
            EnumCase::Table { .. } => {
                let listed = (e.listed)();
                let want: Vec<Obs> = e.variants.iter().filter(|v| !v.skipped).map(|v| Obs::Enum(v.rust.to_owned())).collect();
                ensure!(listed == want, "value-enum:value_variants", "{}: value_variants() = {listed:?}, declared non-skipped variants {want:?}", e.name);
                for v in &e.variants {
                    let got = match catch(|| (e.to_name)(&Obs::Enum(v.rust.to_owned()))) {
                        Ok(g) => g,
                        Err(p) => return Verdict::Fail(Failure::from_panic(&p)),
                    };
                    let want = if v.skipped { None } else { Some(v.name.to_owned()) };
                    ensure!(got == want, "value-enum:to_possible_value", "{}::{}: to_possible_value name {got:?}, expected {want:?}", e.name, v.rust);
                }
                ctx.nontrivial();
                Verdict::Pass
            }
        }
    }
}

impl Property for ValueEnums {
    type Case = EnumCase;
    fn name(&self) -> &'static str {
        "value-enums"
    }
    fn rule(&self) -> String {
        "every ValueEnum of the corpus (renamed, rename_all styles, one or several aliases, skipped variants): bounded-exhaustive over names, aliases, Rust identifiers, their \
         upper / lower / capitalised / truncated / padded variants x ignore_case, plus the variant table. Oracle: from_str(s, ic) is the variant whose declared name or alias \
         equals s (ASCII-case-insensitively iff ic), otherwise an error; to_possible_value().get_name() is the declared name, None for skipped variants; value_variants() \
         lists exactly the non-skipped variants in order. non-trivial = a string that maps to a variant, or a table case"
            .into()
    }
    fn budget(&self, tier: Tier) -> Budget {
        Budget { cases: tier.pick(20_000, 200_000), tape_len: 16 }
    }
    fn decode(&self, t: &mut Tape<'_>) -> EnumCase {
        let with: Vec<&Family> = families().iter().filter(|f| !f.entry.enums.is_empty()).collect();
        let f = with[t.choose(with.len())];
        let index = t.choose(f.entry.enums.len());
        let e = (f.entry.enums[index])();
        let inputs = enum_inputs(&e);
        let input = inputs[t.choose(inputs.len())].clone();
        EnumCase::Map { family: f.entry.rust.to_owned(), index, input, ignore_case: t.bool() }
    }
    fn run(&self, case: &EnumCase, ctx: &mut Ctx) -> Verdict {
        self.check(case, ctx)
    }
    fn enumerate(&self, _tier: Tier, shard: usize, nshards: usize, visit: &mut dyn FnMut(EnumCase) -> bool) -> bool {
        let mut k = 0usize;
        for f in families() {
            for (index, mk) in f.entry.enums.iter().enumerate() {
                k += 1;
                if k % nshards != shard {
                    continue;
                }
                let e = mk();
                if !visit(EnumCase::Table { family: f.entry.rust.to_owned(), index }) {
                    return true;
                }
                for input in enum_inputs(&e) {
                    for ic in [false, true] {
                        if !visit(EnumCase::Map { family: f.entry.rust.to_owned(), index, input: input.clone(), ignore_case: ic }) {
                            return true;
                        }
                    }
                }
            }
        }
        true
    }
}

fn check() -> Check {
    Check {
        id: "C15",
        parts: vec![Box::new(Gen(ParseAgreement)), Box::new(Gen(Augmented)), Box::new(Gen(RoundTrip)), Box::new(Gen(Update)), Box::new(Gen(ValueEnums))],
        assumptions: vec![
            format!("programs are quantified by a generated, compiled corpus of {} derive families (harness/vderive/gen_corpus.py: a systematic shape x value type x spelling matrix plus seeded random composition); a proc-macro input cannot be varied at run time", families().len()),
            "the descriptor of each family (ids, long/short names under rename_all, shapes, attributes) is emitted by the corpus generator from its abstract model, not read back from the macro's output".into(),
            "attributes that excuse requirements (exclusive, conflicts, subcommand_negates_reqs), env, global/from_global and custom value parsers are not in the corpus; Option<flatten> structs contain no nested flatten".into(),
            "update: only successful steps are judged (state after a failed update is unspecified); \"named on the command line\" = value_source == CommandLine in the matches of command_for_update".into(),
        ],
    }
}

fn main() {
    vcore::main_for(|id| if id == "C15" { Some(check()) } else { None })
}
