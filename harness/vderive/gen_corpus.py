#!/usr/bin/env python3
"""Generate the derive corpus for C15.

    gen_corpus.py --seed N --random K --out src/corpus.rs

The corpus is a list of *families*: one top-level `#[derive(Parser)]` type plus
the `Args` structs, `Subcommand` enums and `ValueEnum`s it is made of. Every
family is described once, abstractly (python dicts below), and emitted twice:

  * as Rust source using the derive macros (the system under test), and
  * as a plain-data descriptor (`desc::Node`) saying, per field, which type
    shape it has, how it is spelled on the command line (id / long / short /
    positional; names computed HERE from the rename_all style, not by the
    macro) and which attributes matter to the oracle.

The harness never looks at the macro's output to learn what a type means; the
descriptor is the reference. `ToObs` / `FromObs` impls are mechanical field
walks (no knowledge of clap).

The first part of the corpus is systematic (every shape x value type x
long/short/positional where the combination is meaningful), the rest is random
composition from --seed.
"""
import argparse
import random

WORDS = ["al", "bo", "cy", "di", "eb", "fa", "gu", "ho", "ix", "jo", "ka", "lu", "mo", "ny", "ob", "pa", "qi", "ro", "su", "ty", "ul", "vo", "wa", "xe", "yu", "zo"]
SHORTS = "abcdefgijklmnopqrstuwxyzABCDEFGIJKLMNOPQRSTUWXYZ"
STYLES = ["kebab-case", "snake_case", "SCREAMING_SNAKE_CASE", "camelCase", "PascalCase", "lower", "UPPER", "verbatim"]


def cased(words, style, verbatim):
    """Name for a list of lower-case words under a rename_all style."""
    if style == "kebab-case":
        return "-".join(words)
    if style == "snake_case":
        return "_".join(words)
    if style == "SCREAMING_SNAKE_CASE":
        return "_".join(w.upper() for w in words)
    if style == "camelCase":
        return words[0] + "".join(w.capitalize() for w in words[1:])
    if style == "PascalCase":
        return "".join(w.capitalize() for w in words)
    if style == "lower":
        return "".join(words)
    if style == "UPPER":
        return "".join(w.upper() for w in words)
    if style == "verbatim":
        return verbatim
    raise ValueError(style)


def rs_str(s):
    return '"' + s.replace("\\", "\\\\").replace('"', '\\"') + '"'


class Family:
    def __init__(self, idx, rng):
        self.idx = idx
        self.rng = rng
        self.prefix = "T%03d" % idx if idx < 1000 else "X%04d" % idx
        self.names = []
        for a in WORDS:
            for b in WORDS:
                if a != b:
                    self.names.append([a, b])
        rng.shuffle(self.names)
        self.singles = [[w] for w in WORDS]
        rng.shuffle(self.singles)
        self.shorts = list(SHORTS)
        rng.shuffle(self.shorts)
        self.types = []  # emitted rust items, in order
        self.value_enums = {}
        self.counter = 0
        # extras families (appended after the original corpus, own RNG): attribute combinations added later
        self.extras = False

    def fresh_words(self):
        if self.rng.random() < 0.3 and self.singles:
            return self.singles.pop()
        return self.names.pop()

    def fresh_short(self):
        return self.shorts.pop()

    def fresh_type(self, hint):
        self.counter += 1
        return "%s%s%d" % (self.prefix, hint, self.counter)


# --------------------------------------------------------------------------
# abstract model


def value_enum(fam, rng):
    name = fam.fresh_type("E")
    style = rng.choice(STYLES[:7]) if rng.random() < 0.5 else None
    n = rng.randint(2, 4)
    variants = []
    used = set()
    pool = [w for w in WORDS]
    rng.shuffle(pool)
    for i in range(n):
        words = [pool.pop(), pool.pop()] if rng.random() < 0.6 else [pool.pop()]
        rust = "".join(w.capitalize() for w in words)
        v = {"rust": rust, "words": words, "name": None, "aliases": [], "skipped": False}
        if rng.random() < 0.25:
            v["name"] = "n" + pool.pop() + str(i)
        k = rng.choice([0, 0, 1, 2])
        for j in range(k):
            a = pool.pop()
            a = a + rng.choice(["x", "X", "-z", "_q"]) if rng.random() < 0.5 else a.capitalize() + "k"
            v["aliases"].append(a)
        variants.append(v)
    if rng.random() < 0.3:
        words = [pool.pop()]
        variants.append({"rust": "Sk" + words[0].capitalize(), "words": ["sk", words[0]], "name": None, "aliases": [], "skipped": True})
    if fam.extras:
        # several alias sources on one variant: `alias = .., aliases = [..]` and two `aliases` lists
        for i, v in enumerate(variants[:2]):
            if v["skipped"]:
                continue
            while len(v["aliases"]) < 3:
                v["aliases"].append("x" + pool.pop() + str(len(v["aliases"])))
            v["alias_decl"] = "mixed" if i == 0 else "two-lists"
    e = {"rust": name, "style": style, "variants": variants}
    for v in variants:
        v["final"] = v["name"] if v["name"] is not None else cased(v["words"], style or "kebab-case", v["rust"])
    fam.value_enums[name] = e
    fam.types.append(("value_enum", e))
    return e


SHAPES_OPT = ["bool", "count", "req", "opt", "optopt", "vec", "optvec", "vecvec", "optvecvec", "default"]
SHAPES_POS = ["req", "opt", "default", "vec", "optvec"]


def make_arg(fam, rng, shape, val, where, style, f_extra=None):
    """where: 'long' | 'short' | 'both' | 'pos'"""
    words = fam.fresh_words()
    ident = "_".join(words)
    f = {
        "kind": "arg",
        "ident": ident,
        "words": words,
        "shape": shape,
        "val": val,
        "where": where,
        "long": None,
        "short": None,
        "id": ident,
        "aliases": [],
        "default": None,
        "num_args": None,
        "delim": None,
        "ignore_case": False,
        "require_equals": False,
        "attrs": [],
    }
    attrs = []
    if where in ("long", "both"):
        if rng.random() < 0.2:
            f["long"] = "x" + "-".join(fam.fresh_words())
            attrs.append("long = %s" % rs_str(f["long"]))
        else:
            f["long"] = cased(words, style, ident)
            attrs.append("long")
        if rng.random() < 0.15:
            a = "y" + "-".join(fam.fresh_words())
            f["aliases"].append(a)
            attrs.append("%s = %s" % (rng.choice(["alias", "visible_alias"]), rs_str(a)))
    if where in ("short", "both"):
        first = cased(words, style, ident)[0]
        if first in fam.shorts and rng.random() < 0.4:
            fam.shorts.remove(first)
            f["short"] = first
            attrs.append("short")
        else:
            f["short"] = fam.fresh_short()
            attrs.append("short = '%s'" % f["short"])
    if rng.random() < 0.12:
        f["id"] = "id_" + ident
        attrs.append("id = %s" % rs_str(f["id"]))
    if shape == "count":
        attrs.append("action = clap::ArgAction::Count")
    is_enum = val not in ("str", "i64")
    if shape not in ("bool", "count") and is_enum:
        attrs.append("value_enum")
        if rng.random() < 0.4:
            f["ignore_case"] = True
            attrs.append("ignore_case = true")
    if shape == "default":
        if val == "str":
            d = rng.choice(["dflt", "d v", ""])
            f["default"] = [d]
            attrs.append("default_value_t = String::from(%s)" % rs_str(d))
        elif val == "i64":
            d = rng.choice([0, 7, -3, 4096])
            f["default"] = [d]
            attrs.append("default_value_t = %d" % d)
        else:
            e = fam.value_enums[val]
            v = rng.choice([v for v in e["variants"] if not v["skipped"]])
            f["default"] = [v["rust"]]
            attrs.append("default_value_t = %s::%s" % (val, v["rust"]))
    if shape == "cond":
        # a plain `T` whose only default is conditional: still required unless the condition holds
        other, trigger = f_extra["cond_on"]
        if val == "str":
            d = "cd"
            lit = rs_str(d)
        elif val == "i64":
            d = 5
            lit = rs_str("5")
        else:
            e = fam.value_enums[val]
            v = [v for v in e["variants"] if not v["skipped"]][0]
            d = v["rust"]
            lit = rs_str(v["final"])
        f["cond"] = (other, trigger, d)
        attrs.append("default_value_if(%s, %s, %s)" % (rs_str(other), rs_str(trigger), lit))
    if shape == "optopt" and rng.random() < 0.5:
        f["require_equals"] = True
        attrs.append("require_equals = true")
    if shape in ("vec", "optvec") and where != "pos":
        r = rng.random()
        if r < 0.25:
            f["delim"] = ","
            attrs.append("value_delimiter = ','")
        elif r < 0.45:
            f["num_args"] = (1, 3)
            attrs.append("num_args = 1..=3")
        elif r < 0.6 and shape == "optvec":
            f["num_args"] = (0, 2)
            attrs.append("num_args = 0..=2")
        if shape == "vec" and val == "i64" and f["delim"] is None and f["num_args"] is None and rng.random() < 0.4:
            f["default"] = [1, 2]
            attrs.append("default_values_t = vec![1, 2]")
    if shape in ("vecvec", "optvecvec"):
        r = rng.random()
        if r < 0.5:
            f["num_args"] = (1, 3)
            attrs.append("num_args = 1..=3")
        elif r < 0.65:
            f["num_args"] = (2, 2)
            attrs.append("num_args = 2")
        elif r < 0.85 and where != "pos":
            # occurrences may be empty
            f["num_args"] = (0, 2)
            attrs.append("num_args = 0..=2")
    f["attrs"] = attrs
    return f


def rust_type(f):
    base = {"str": "String", "i64": "i64"}.get(f["val"], f["val"])
    s = f["shape"]
    if s == "bool":
        return "bool"
    if s == "count":
        return "u8"
    return {
        "req": "%s",
        "cond": "%s",
        "default": "%s",
        "opt": "Option<%s>",
        "optopt": "Option<Option<%s>>",
        "vec": "Vec<%s>",
        "optvec": "Option<Vec<%s>>",
        "vecvec": "Vec<Vec<%s>>",
        "optvecvec": "Option<Vec<Vec<%s>>>",
    }[s] % base


def pick_val(fam, rng, enums):
    r = rng.random()
    if r < 0.4:
        return "str"
    if r < 0.7:
        return "i64"
    if enums and rng.random() < 0.7:
        return rng.choice(enums)["rust"]
    e = value_enum(fam, rng)
    enums.append(e)
    return e["rust"]


def random_fields(fam, rng, style, enums, n_opts, positional_shapes):
    fields = []
    for _ in range(n_opts):
        shape = rng.choice(SHAPES_OPT)
        val = "str" if shape in ("bool", "count") else pick_val(fam, rng, enums)
        where = rng.choice(["long", "long", "both", "short"])
        fields.append(make_arg(fam, rng, shape, val, where, style))
    pos = []
    for shape in positional_shapes:
        val = pick_val(fam, rng, enums)
        pos.append(make_arg(fam, rng, shape, val, "pos", style))
    # interleave keeping positional order
    out = fields[:]
    for p in pos:
        at = rng.randint(0, len(out))
        out.insert(at, p)
    # restore relative order of positionals
    idxs = [i for i, f in enumerate(out) if f["where"] == "pos"]
    for i, p in zip(idxs, pos):
        out[i] = p
    if rng.random() < 0.2:
        words = fam.fresh_words()
        out.insert(rng.randint(0, len(out)), {"kind": "skip", "ident": "_".join(words), "val": rng.choice(["str", "i64"])})
    return out


def positional_plan(rng, allow_multi):
    plan = []
    n_req = rng.choice([0, 0, 1, 1, 2])
    plan += ["req"] * n_req
    r = rng.random()
    if r < 0.3:
        plan.append(rng.choice(["opt", "default"]))
    if allow_multi and rng.random() < 0.35:
        plan.append(rng.choice(["vec", "optvec"]))
    return plan


def args_struct(fam, rng, enums, derive, depth, allow_sub, allow_multi_pos, allow_positionals=True, allow_flatten=True):
    name = fam.fresh_type("S")
    style = rng.choice(STYLES) if rng.random() < 0.4 else None
    st = {"rust": name, "derive": derive, "style": style, "fields": [], "sub": None}
    eff = style or "kebab-case"
    has_sub = allow_sub and rng.random() < 0.45
    host_positionals = allow_positionals
    flat = None
    if allow_flatten and depth < 2 and rng.random() < 0.45:
        optional = rng.random() < 0.4
        # positionals live either here or in the flattened child
        child_pos = allow_positionals and rng.random() < 0.3
        if child_pos:
            host_positionals = False
        child = args_struct(
            fam, rng, enums, "Args", depth + 1, False, allow_multi_pos and not has_sub and child_pos, allow_positionals=child_pos, allow_flatten=not optional
        )
        words = fam.fresh_words()
        flat = {"kind": "flatten", "ident": "_".join(words), "inner": child, "optional": optional}
    plan = positional_plan(rng, allow_multi_pos and not has_sub) if host_positionals else []
    st["fields"] = random_fields(fam, rng, eff, enums, rng.randint(1, 4), plan)
    if flat:
        # the flattened child's positionals must come after ours: only one of us has any, so any place works
        st["fields"].insert(rng.randint(0, len(st["fields"])), flat)
    if has_sub:
        sub = sub_enum(fam, rng, enums, depth + 1)
        words = fam.fresh_words()
        st["fields"].append({"kind": "sub", "ident": "_".join(words), "inner": sub, "optional": rng.random() < 0.5})
    fam.types.append(("struct", st))
    return st


def sub_enum(fam, rng, enums, depth, derive="Subcommand", allow_flatten=True, allow_external=True):
    name = fam.fresh_type("C")
    style = rng.choice(STYLES[:7]) if rng.random() < 0.3 else None
    en = {"rust": name, "derive": derive, "style": style, "variants": []}
    n = rng.randint(2, 4)
    kinds = []
    for _ in range(n):
        kinds.append(rng.choice(["unit", "named", "named", "tuple", "nested", "flatten"]))
    if allow_external and rng.random() < 0.2:
        kinds.append("external")
    if rng.random() < 0.15:
        kinds.append("skipped")
    for k in kinds:
        if k in ("nested", "flatten") and (depth >= 2 or (k == "flatten" and not allow_flatten)):
            k = "named"
        words = fam.fresh_words()
        rust = "".join(w.capitalize() for w in words)
        v = {"rust": rust, "words": words, "kind": k, "name": None, "aliases": [], "payload": None}
        if k in ("unit", "named", "tuple", "nested"):
            if rng.random() < 0.2:
                v["name"] = "n-" + "-".join(fam.fresh_words())
            if rng.random() < 0.3:
                v["aliases"].append("a" + "".join(fam.fresh_words()))
            v["final"] = v["name"] if v["name"] is not None else cased(words, style or "kebab-case", rust)
        if k == "named":
            plan = positional_plan(rng, True)
            v["payload"] = {"rust": None, "style": None, "fields": random_fields(fam, rng, style or "kebab-case", enums, rng.randint(0, 3), plan)}
        elif k == "tuple":
            v["payload"] = args_struct(fam, rng, enums, "Args", depth + 1, depth < 1, True)
        elif k == "nested":
            v["payload"] = sub_enum(fam, rng, enums, depth + 1)
        elif k == "flatten":
            v["payload"] = sub_enum(fam, rng, enums, depth + 1, allow_flatten=False, allow_external=False)
        en["variants"].append(v)
    fam.types.append(("enum", en))
    return en


# --------------------------------------------------------------------------
# systematic families


def systematic(idx, rng, shapes, where, val_kind):
    fam = Family(idx, rng)
    enums = []
    style = "kebab-case"
    fields = []
    for shape in shapes:
        if shape in ("bool", "count"):
            val = "str"
        elif val_kind == "enum":
            if not enums:
                enums.append(value_enum(fam, rng))
            val = enums[0]["rust"]
        else:
            val = val_kind
        fields.append(make_arg(fam, rng, shape, val, where, style))
    st = {"rust": fam.fresh_type("S"), "derive": "Parser", "style": None, "fields": fields, "sub": None}
    fam.types.append(("struct", st))
    fam.top = ("struct", st)
    return fam


def random_family(idx, rng):
    fam = Family(idx, rng)
    enums = []
    if rng.random() < 0.2:
        en = sub_enum(fam, rng, enums, 0, derive="Parser")
        fam.top = ("enum", en)
    else:
        st = args_struct(fam, rng, enums, "Parser", 0, True, True)
        fam.top = ("struct", st)
    return fam


def settings_family(idx, rng):
    """command-level settings that ask for something on an empty line, declared on the root type itself: the parse path
    honours them (derived parser and command agree), the update path must not inherit them"""
    fam = Family(idx, rng)
    fam.extras = True
    enums = []
    attrs = [["arg_required_else_help = true"], ["subcommand_required = true"], ["arg_required_else_help = true", "subcommand_required = true"]][idx % 3]
    if idx % 2 == 0:
        en = sub_enum(fam, rng, enums, 0, derive="Parser", allow_external=False)
        en["cmd_attrs"] = attrs
        fam.top = ("enum", en)
    else:
        style = "kebab-case"
        fields = [make_arg(fam, rng, rng.choice(["bool", "opt", "default"]), "str", "long", style),
                  make_arg(fam, rng, rng.choice(["opt", "vec", "count"]), rng.choice(["str", "i64"]), "long", style)]
        sub = sub_enum(fam, rng, enums, 1, allow_external=False)
        fields.append({"kind": "sub", "ident": "_".join(fam.fresh_words()), "inner": sub, "optional": "subcommand_required = true" not in attrs})
        st = {"rust": fam.fresh_type("S"), "derive": "Parser", "style": None, "fields": fields, "sub": None, "cmd_attrs": attrs}
        fam.types.append(("struct", st))
        fam.top = ("struct", st)
    return fam


def extras_family(idx, rng):
    """conditional defaults on plain `T` fields, several alias sources on value-enum variants"""
    fam = Family(idx, rng)
    fam.extras = True
    enums = [value_enum(fam, rng)]
    style = "kebab-case"

    def cond_fields(n_cond):
        trig = make_arg(fam, rng, "opt", "str", "long", style)
        fields = [trig]
        for _ in range(n_cond):
            val = rng.choice(["str", "i64", enums[0]["rust"]])
            fields.append(make_arg(fam, rng, "cond", val, rng.choice(["long", "both"]), style, f_extra={"cond_on": (trig["id"], "v")}))
        for _ in range(rng.randint(0, 2)):
            shape = rng.choice(["bool", "count", "opt", "vec", "default"])
            val = "str" if shape in ("bool", "count") else rng.choice(["str", "i64", enums[0]["rust"]])
            fields.append(make_arg(fam, rng, shape, val, "long", style))
        rng.shuffle(fields)
        return fields

    r = rng.random()
    if fam.idx % 4 == 3:
        # the trait glue for Box<T>: a flattened struct and a subcommand enum held behind a Box
        child = {"rust": fam.fresh_type("S"), "derive": "Args", "style": None, "fields": [
            make_arg(fam, rng, "req", rng.choice(["str", "i64"]), "long", style),
            make_arg(fam, rng, rng.choice(["opt", "bool", "vec"]), "str", "long", style)], "sub": None}
        fam.types.append(("struct", child))
        top_fields = [make_arg(fam, rng, rng.choice(["bool", "opt", "default"]), "str", "long", style)]
        top_fields.append({"kind": "flatten", "ident": "_".join(fam.fresh_words()), "inner": child, "optional": False, "boxed": True})
        if rng.random() < 0.5:
            sub = sub_enum(fam, rng, enums, 1)
            top_fields.append({"kind": "sub", "ident": "_".join(fam.fresh_words()), "inner": sub, "optional": rng.random() < 0.5, "boxed": True})
        st = {"rust": fam.fresh_type("S"), "derive": "Parser", "style": None, "fields": top_fields, "sub": None}
    elif r < 0.5:
        st = {"rust": fam.fresh_type("S"), "derive": "Parser", "style": None, "fields": cond_fields(rng.randint(1, 2)), "sub": None}
    else:
        child = {"rust": fam.fresh_type("S"), "derive": "Args", "style": None, "fields": cond_fields(1), "sub": None}
        fam.types.append(("struct", child))
        top_fields = [make_arg(fam, rng, rng.choice(["bool", "opt"]), "str", "long", style)]
        top_fields.append({"kind": "flatten", "ident": "_".join(fam.fresh_words()), "inner": child, "optional": False})
        top_fields.append(make_arg(fam, rng, "req", enums[0]["rust"], "long", style))
        st = {"rust": fam.fresh_type("S"), "derive": "Parser", "style": None, "fields": top_fields, "sub": None}
    fam.types.append(("struct", st))
    fam.top = ("struct", st)
    return fam


# --------------------------------------------------------------------------
# emitters


def emit_value_enum(e, out):
    out.append("#[derive(clap::ValueEnum, Clone, Debug, PartialEq)]")
    if e["style"]:
        out.append("#[value(rename_all = %s)]" % rs_str(e["style"]))
    out.append("pub enum %s {" % e["rust"])
    for v in e["variants"]:
        attrs = []
        if v["skipped"]:
            attrs.append("skip")
        if v["name"] is not None:
            attrs.append("name = %s" % rs_str(v["name"]))
        decl = v.get("alias_decl")
        if decl == "mixed":
            attrs.append("alias = %s" % rs_str(v["aliases"][0]))
            attrs.append("aliases = [%s]" % ", ".join(rs_str(a) for a in v["aliases"][1:]))
        elif decl == "two-lists":
            attrs.append("aliases = [%s]" % rs_str(v["aliases"][0]))
            attrs.append("aliases = [%s]" % ", ".join(rs_str(a) for a in v["aliases"][1:]))
        elif len(v["aliases"]) == 1:
            attrs.append("alias = %s" % rs_str(v["aliases"][0]))
        elif len(v["aliases"]) > 1:
            attrs.append("aliases = [%s]" % ", ".join(rs_str(a) for a in v["aliases"]))
        if attrs:
            out.append("    #[value(%s)]" % ", ".join(attrs))
        out.append("    %s," % v["rust"])
    out.append("}")
    n = e["rust"]
    out.append("impl ToObs for %s { fn to_obs(&self) -> Obs { Obs::Enum(match self { %s }.to_owned()) } }" % (n, ", ".join('Self::%s => "%s"' % (v["rust"], v["rust"]) for v in e["variants"])))
    out.append(
        "impl FromObs for %s { fn from_obs(o: &Obs) -> Self { match o.as_enum() { %s, other => panic!(\"no variant {other}\") } } }"
        % (n, ", ".join('"%s" => Self::%s' % (v["rust"], v["rust"]) for v in e["variants"]))
    )
    out.append("impl std::fmt::Display for %s { fn fmt(&self, f: &mut std::fmt::Formatter<'_>) -> std::fmt::Result { use clap::ValueEnum; f.write_str(self.to_possible_value().expect(\"skipped variant displayed\").get_name()) } }" % n)
    out.append("fn desc_%s() -> EnumDesc { EnumDesc { name: %s, variants: vec![%s],\n    from_str: |s, ic| <%s as clap::ValueEnum>::from_str(s, ic).ok().map(|v| v.to_obs()),\n    to_name: |o| { use clap::ValueEnum; <%s as FromObs>::from_obs(o).to_possible_value().map(|p| p.get_name().to_owned()) },\n    listed: || { use clap::ValueEnum; <%s>::value_variants().iter().map(|v| v.to_obs()).collect() } } }" % (
        n,
        rs_str(n),
        ", ".join(
            "EnumVariant { rust: %s, name: %s, aliases: vec![%s], skipped: %s }"
            % (rs_str(v["rust"]), rs_str(v["final"]), ", ".join(rs_str(a) for a in v["aliases"]), "true" if v["skipped"] else "false")
            for v in e["variants"]
        ),
        n,
        n,
        n,
    ))
    out.append("")


def field_decl(f):
    lines = []
    if f["kind"] == "arg":
        if f["attrs"]:
            lines.append("#[arg(%s)]" % ", ".join(f["attrs"]))
        lines.append("%s: %s," % (f["ident"], rust_type(f)))
    elif f["kind"] == "skip":
        lines.append("#[arg(skip)]")
        lines.append("%s: %s," % (f["ident"], "String" if f["val"] == "str" else "i64"))
    elif f["kind"] == "flatten":
        lines.append("#[command(flatten)]")
        t = f["inner"]["rust"]
        if f.get("boxed"):
            t = "Box<%s>" % t
        lines.append("%s: %s," % (f["ident"], "Option<%s>" % t if f["optional"] else t))
    elif f["kind"] == "sub":
        lines.append("#[command(subcommand)]")
        t = f["inner"]["rust"]
        if f.get("boxed"):
            t = "Box<%s>" % t
        lines.append("%s: %s," % (f["ident"], "Option<%s>" % t if f["optional"] else t))
    return lines


def val_desc(val):
    if val == "str":
        return "ValTy::Str"
    if val == "i64":
        return "ValTy::I64"
    return "ValTy::Enum(desc_%s())" % val


def obs_lit(val, v):
    if val == "str":
        return "Obs::Str(%s.to_owned())" % rs_str(v)
    if val == "i64":
        return "Obs::Int(%d)" % v
    return "Obs::Enum(%s.to_owned())" % rs_str(v)


def field_desc(f):
    if f["kind"] == "arg":
        shape = {
            "bool": "Bool",
            "count": "Count",
            "req": "Req",
            "cond": "Req",
            "default": "Req",
            "opt": "Opt",
            "optopt": "OptOpt",
            "vec": "Vec",
            "optvec": "OptVec",
            "vecvec": "VecVec",
            "optvecvec": "OptVecVec",
        }[f["shape"]]
        ty = {"str": "String", "i64": "i64"}.get(f["val"], f["val"])
        extract = {"Bool": "extract_none", "Count": "extract_none"}.get(shape, "occs::<%s>" % ty)
        default = "None" if f["default"] is None else "Some(vec![%s])" % ", ".join(obs_lit(f["val"], v) for v in f["default"])
        na = "None" if f["num_args"] is None else "Some((%d, %d))" % f["num_args"]
        return (
            "FieldDesc { name: %s, kind: FieldKind::Arg(ArgDesc { id: %s, shape: Shape::%s, val: %s, long: %s, short: %s, aliases: vec![%s], positional: %s, "
            "default: %s, num_args: %s, delim: %s, ignore_case: %s, require_equals: %s, extract: %s }) }"
            % (
                rs_str(f["ident"]),
                rs_str(f["id"]),
                shape,
                val_desc(f["val"]),
                "Some(%s)" % rs_str(f["long"]) if f["long"] else "None",
                "Some('%s')" % f["short"] if f["short"] else "None",
                ", ".join(rs_str(a) for a in f["aliases"]),
                "true" if f["where"] == "pos" else "false",
                default,
                na,
                "Some('%s')" % f["delim"] if f["delim"] else "None",
                "true" if f["ignore_case"] else "false",
                "true" if f["require_equals"] else "false",
                extract,
            )
        )
    if f["kind"] == "skip":
        return "FieldDesc { name: %s, kind: FieldKind::Skip(%s) }" % (rs_str(f["ident"]), val_desc(f["val"]))
    if f["kind"] == "flatten":
        return "FieldDesc { name: %s, kind: FieldKind::Flatten { inner: %s, optional: %s } }" % (rs_str(f["ident"]), struct_desc(f["inner"]), "true" if f["optional"] else "false")
    if f["kind"] == "sub":
        return "FieldDesc { name: %s, kind: FieldKind::Sub { inner: %s, optional: %s } }" % (rs_str(f["ident"]), enum_desc(f["inner"]), "true" if f["optional"] else "false")
    raise ValueError(f["kind"])


def struct_desc(st):
    return "StructDesc { name: %s, group_id: %s, fields: vec![\n        %s] }" % (
        rs_str(st["rust"] or ""),
        "Some(%s)" % rs_str(st["rust"]) if st["rust"] else "None",
        ",\n        ".join(field_desc(f) for f in st["fields"]),
    )


def enum_desc(en):
    vs = []
    for v in en["variants"]:
        k = v["kind"]
        if k == "unit":
            kind = "VarKind::Unit"
        elif k == "named":
            kind = "VarKind::Named(%s)" % struct_desc(v["payload"])
        elif k == "tuple":
            kind = "VarKind::Tuple(%s)" % struct_desc(v["payload"])
        elif k == "nested":
            kind = "VarKind::Nested(%s)" % enum_desc(v["payload"])
        elif k == "flatten":
            kind = "VarKind::Flatten(%s)" % enum_desc(v["payload"])
        elif k == "external":
            kind = "VarKind::External"
        elif k == "skipped":
            kind = "VarKind::Skipped"
        vs.append(
            "SubVariant { rust: %s, name: %s, aliases: vec![%s], kind: %s }"
            % (rs_str(v["rust"]), rs_str(v.get("final") or ""), ", ".join(rs_str(a) for a in v["aliases"]), kind)
        )
    return "SubDesc { name: %s, variants: vec![\n        %s] }" % (rs_str(en["rust"]), ",\n        ".join(vs))


def fields_to_obs(fields, access):
    return "Obs::Struct(vec![%s])" % ", ".join("(%s.to_owned(), %s.to_obs())" % (rs_str(f["ident"]), access(f["ident"])) for f in fields)


def fields_from_obs(fields, src):
    return ", ".join("%s: FromObs::from_obs(%s.field(%s))" % (f["ident"], src, rs_str(f["ident"])) for f in fields)


def emit_struct(st, out, top_name=None):
    out.append("#[derive(clap::%s, Clone, Debug, PartialEq)]" % st["derive"])
    cmd = []
    if top_name:
        cmd.append("name = %s" % rs_str(top_name))
    if st["style"]:
        cmd.append("rename_all = %s" % rs_str(st["style"]))
    cmd.extend(st.get("cmd_attrs", []))
    if cmd:
        out.append("#[command(%s)]" % ", ".join(cmd))
    out.append("pub struct %s {" % st["rust"])
    for f in st["fields"]:
        for l in field_decl(f):
            out.append("    " + l)
    out.append("}")
    n = st["rust"]
    out.append("impl ToObs for %s { fn to_obs(&self) -> Obs { %s } }" % (n, fields_to_obs(st["fields"], lambda i: "self." + i)))
    out.append("impl FromObs for %s { fn from_obs(o: &Obs) -> Self { Self { %s } } }" % (n, fields_from_obs(st["fields"], "o")))
    out.append("")


def emit_enum(en, out, top_name=None):
    out.append("#[derive(clap::%s, Clone, Debug, PartialEq)]" % en["derive"])
    cmd = []
    if top_name:
        cmd.append("name = %s" % rs_str(top_name))
    if en["style"]:
        cmd.append("rename_all = %s" % rs_str(en["style"]))
    cmd.extend(en.get("cmd_attrs", []))
    if cmd:
        out.append("#[command(%s)]" % ", ".join(cmd))
    out.append("pub enum %s {" % en["rust"])
    to_arms = []
    from_arms = []
    for v in en["variants"]:
        k = v["kind"]
        attrs = []
        if v["name"] is not None:
            attrs.append("name = %s" % rs_str(v["name"]))
        for a in v["aliases"]:
            attrs.append("alias = %s" % rs_str(a))
        r = v["rust"]
        if k == "unit":
            if attrs:
                out.append("    #[command(%s)]" % ", ".join(attrs))
            out.append("    %s," % r)
            to_arms.append('Self::%s => Obs::variant("%s", Obs::Unit)' % (r, r))
            from_arms.append('"%s" => Self::%s' % (r, r))
        elif k == "named":
            if attrs:
                out.append("    #[command(%s)]" % ", ".join(attrs))
            out.append("    %s {" % r)
            for f in v["payload"]["fields"]:
                for l in field_decl(f):
                    out.append("        " + l)
            out.append("    },")
            names = [f["ident"] for f in v["payload"]["fields"]]
            to_arms.append('Self::%s { %s } => Obs::variant("%s", %s)' % (r, ", ".join(names), r, fields_to_obs(v["payload"]["fields"], lambda i: i)))
            from_arms.append('"%s" => Self::%s { %s }' % (r, r, fields_from_obs(v["payload"]["fields"], "p")))
        elif k in ("tuple", "nested", "flatten"):
            if k == "nested":
                attrs.append("subcommand")
            if k == "flatten":
                attrs = ["flatten"]
            if attrs:
                out.append("    #[command(%s)]" % ", ".join(attrs))
            out.append("    %s(%s)," % (r, v["payload"]["rust"]))
            to_arms.append('Self::%s(x) => Obs::variant("%s", x.to_obs())' % (r, r))
            from_arms.append('"%s" => Self::%s(FromObs::from_obs(p))' % (r, r))
        elif k == "external":
            out.append("    #[command(external_subcommand)]")
            out.append("    %s(Vec<String>)," % r)
            to_arms.append('Self::%s(x) => Obs::variant("%s", x.to_obs())' % (r, r))
            from_arms.append('"%s" => Self::%s(FromObs::from_obs(p))' % (r, r))
        elif k == "skipped":
            out.append("    #[command(skip)]")
            out.append("    %s," % r)
            to_arms.append('Self::%s => Obs::variant("%s", Obs::Unit)' % (r, r))
            from_arms.append('"%s" => Self::%s' % (r, r))
    out.append("}")
    n = en["rust"]
    out.append("impl ToObs for %s { fn to_obs(&self) -> Obs { match self { %s } } }" % (n, ", ".join(to_arms)))
    out.append(
        "impl FromObs for %s { #[allow(unused_variables)] fn from_obs(o: &Obs) -> Self { let (n, p) = o.as_variant(); match n { %s, other => panic!(\"no variant {other}\") } } }"
        % (n, ", ".join(from_arms))
    )
    out.append("")


def emit_family(fam, out, registry):
    kind, top = fam.top
    bin_name = fam.prefix.lower()
    for k, t in fam.types:
        if k == "value_enum":
            emit_value_enum(t, out)
    for k, t in fam.types:
        if k == "struct":
            emit_struct(t, out, bin_name if t is top else None)
        elif k == "enum":
            emit_enum(t, out, bin_name if t is top else None)
    node = "Node::Struct(%s)" % struct_desc(top) if kind == "struct" else "Node::Enum(%s)" % enum_desc(top)
    out.append("fn node_%s() -> Node {\n    %s\n}" % (top["rust"], node))
    out.append("")
    enums = [t["rust"] for k, t in fam.types if k == "value_enum"]
    registry.append("entry::<%s>(%s, %s, node_%s, vec![%s])" % (top["rust"], rs_str(top["rust"]), rs_str(bin_name), top["rust"], ", ".join("desc_%s" % e for e in enums)))


def main():
    ap = argparse.ArgumentParser()
    ap.add_argument("--seed", type=int, default=1)
    ap.add_argument("--random", type=int, default=60)
    ap.add_argument("--out", required=True)
    ap.add_argument("--module-doc", default="committed corpus")
    ap.add_argument("--start", type=int, default=0, help="index of the first family (type name prefix T<idx>)")
    ap.add_argument("--no-systematic", action="store_true")
    ap.add_argument("--extras", type=int, default=24, help="families with conditional defaults / mixed alias declarations")
    ap.add_argument("--settings", type=int, default=6, help="families with arg_required_else_help / subcommand_required on the root type")
    a = ap.parse_args()
    rng = random.Random(a.seed)
    fams = []
    idx = a.start
    # systematic matrix: shape x value type x spelling
    opt_groups = [["bool", "count", "req"], ["opt", "optopt", "default"], ["vec", "optvec"], ["vecvec", "optvecvec"]]
    for where in () if a.no_systematic else ("long", "short", "both"):
        for val in ("str", "i64", "enum"):
            for g in opt_groups:
                fams.append(systematic(idx, rng, g, where, val))
                idx += 1
    for val in () if a.no_systematic else ("str", "i64", "enum"):
        for g in (["req", "opt"], ["req", "default"], ["req", "vec"], ["opt", "optvec"], ["vec"], ["req", "req", "default", "optvec"]):
            fams.append(systematic(idx, rng, g, "pos", val))
            idx += 1
    for _ in range(a.random):
        fams.append(random_family(idx, rng))
        idx += 1
    # appended later, with an RNG of their own so that the families above stay byte-identical
    rng2 = random.Random(a.seed * 7919 + 17)
    for _ in range(a.extras):
        fams.append(extras_family(idx, rng2))
        idx += 1
    rng3 = random.Random(a.seed * 104729 + 5)
    for _ in range(a.settings):
        fams.append(settings_family(idx, rng3))
        idx += 1
    out = []
    out.append("// @generated by gen_corpus.py --seed %d --random %d --extras %d --settings %d (%s). Do not edit." % (a.seed, a.random, a.extras, a.settings, a.module_doc))
    out.append("#![allow(non_snake_case, non_camel_case_types, dead_code, clippy::all)]")
    out.append("use crate::desc::*;")
    out.append("use crate::obs::*;")
    out.append("use crate::registry::{entry, occs, extract_none, Entry};")
    out.append("")
    registry = []
    for fam in fams:
        emit_family(fam, out, registry)
    out.append("pub fn registry() -> Vec<Entry> {\n    vec![\n        %s,\n    ]\n}" % ",\n        ".join(registry))
    with open(a.out, "w") as fh:
        fh.write("\n".join(out) + "\n")
    print("families: %d" % len(fams))


if __name__ == "__main__":
    main()
