//! Canonical observation of `ArgMatches` and `Error` through public API only.

use clap::parser::ValueSource;
use clap::ArgMatches;
use serde::{Deserialize, Serialize};

#[derive(Serialize, Deserialize, Clone, Debug, PartialEq, Eq, Hash)]
pub enum Source {
    Default,
    Env,
    CommandLine,
    Other,
}

#[derive(Serialize, Deserialize, Clone, Debug, PartialEq, Eq, Hash)]
pub struct ArgObs {
    pub id: String,
    pub source: Option<Source>,
    /// raw values grouped per occurrence
    pub occurrences: Vec<Vec<Vec<u8>>>,
    pub indices: Vec<usize>,
}

impl ArgObs {
    pub fn flat(&self) -> Vec<Vec<u8>> {
        self.occurrences.iter().flatten().cloned().collect()
    }
}

#[derive(Serialize, Deserialize, Clone, Debug, PartialEq, Eq, Hash)]
pub struct LevelObs {
    pub args: Vec<ArgObs>,
    /// ids listed by `ids()` that this level's accessors reject (propagated globals)
    pub foreign_ids: Vec<String>,
    pub args_present: bool,
    pub sub: Option<(String, Box<LevelObs>)>,
}

impl LevelObs {
    pub fn arg(&self, id: &str) -> Option<&ArgObs> {
        self.args.iter().find(|a| a.id == id)
    }
    pub fn chain(&self) -> Vec<String> {
        let mut v = Vec::new();
        let mut cur = self;
        while let Some((n, s)) = &cur.sub {
            v.push(n.clone());
            cur = s;
        }
        v
    }
    pub fn level(&self, depth: usize) -> Option<&LevelObs> {
        let mut cur = self;
        for _ in 0..depth {
            cur = &cur.sub.as_ref()?.1;
        }
        Some(cur)
    }
}

pub fn source_of(s: ValueSource) -> Source {
    match s {
        ValueSource::DefaultValue => Source::Default,
        ValueSource::EnvVariable => Source::Env,
        ValueSource::CommandLine => Source::CommandLine,
        _ => Source::Other,
    }
}

pub fn observe(m: &ArgMatches) -> LevelObs {
    let mut args = Vec::new();
    let mut foreign = Vec::new();
    for id in m.ids() {
        let id = id.as_str();
        match m.try_get_raw_occurrences(id) {
            Ok(occ) => {
                let occurrences: Vec<Vec<Vec<u8>>> = occ
                    .map(|o| {
                        o.map(|vals| vals.map(|v| v.as_encoded_bytes().to_vec()).collect())
                            .collect()
                    })
                    .unwrap_or_default();
                let indices = m.indices_of(id).map(|i| i.collect()).unwrap_or_default();
                let source = m.value_source(id).map(source_of);
                args.push(ArgObs {
                    id: id.to_owned(),
                    source,
                    occurrences,
                    indices,
                });
            }
            Err(_) => foreign.push(id.to_owned()),
        }
    }
    args.sort_by(|a, b| a.id.cmp(&b.id));
    foreign.sort();
    LevelObs {
        args,
        foreign_ids: foreign,
        args_present: m.args_present(),
        sub: m.subcommand().map(|(n, s)| (n.to_owned(), Box::new(observe(s)))),
    }
}

#[derive(Serialize, Deserialize, Clone, Debug, PartialEq, Eq, Hash)]
pub struct ErrObs {
    pub kind: String,
    pub use_stderr: bool,
    pub exit_code: i32,
    pub context: Vec<(String, String)>,
    pub rendered: String,
}

pub fn observe_err(e: &clap::Error) -> ErrObs {
    let rendered = e.render().to_string();
    let _ansi = e.render().ansi().to_string();
    let _disp = e.to_string();
    let _dbg = format!("{e:?}");
    ErrObs {
        kind: format!("{:?}", e.kind()),
        use_stderr: e.use_stderr(),
        exit_code: e.exit_code(),
        context: e.context().map(|(k, v)| (format!("{k:?}"), format!("{v}"))).collect(),
        rendered,
    }
}

/// The CLI exit contract (C10, checked on every error seen by any check).
pub fn exit_contract_violation(e: &ErrObs) -> Option<String> {
    let display = e.kind == "DisplayHelp" || e.kind == "DisplayVersion";
    if display != !e.use_stderr || display != (e.exit_code == 0) || (!display && e.exit_code != 2) {
        return Some(format!(
            "kind {} has use_stderr={} exit_code={} (help/version <=> stdout <=> 0, everything else stderr and 2)",
            e.kind, e.use_stderr, e.exit_code
        ));
    }
    None
}
