//! The conventional class: commands using the documented CLI grammar without
//! the settings that change token classification; intended invocations,
//! their spellings, and the expected observation computed from the intended
//! invocation (never by parsing argv).

use crate::observe::{LevelObs, Source};
use crate::spec::*;
use crate::spec::PvSpec;
use serde::{Deserialize, Serialize};
use std::collections::BTreeMap;
use vcore::Tape;

pub type Bytes = Vec<u8>;

// ------------------------------------------------------------------ spec

#[derive(Clone, Debug)]
pub struct ConvOpts {
    pub max_depth: usize,
    pub infer: bool,
    pub flag_subcommands: bool,
    pub defaults: bool,
    pub env: bool,
    pub os_values: bool,
    /// allow `args_override_self` / per-arg self overrides / override relations (C07)
    pub overrides: bool,
    /// positionals with Append action (interleaving allowed)
    pub append_positionals: bool,
    pub delimiters: bool,
    pub terminators: bool,
    pub require_equals: bool,
    pub last_positional: bool,
    pub typed_parsers: bool,
    /// the `<files>... <target>` layout (multi-value positional before a required final one)
    pub low_index_multi: bool,
    /// value terminators on multi-value positionals (`<m>... ; <target>`, `<m>... [;] -- <last>...`)
    pub positional_terminators: bool,
}

impl Default for ConvOpts {
    fn default() -> Self {
        ConvOpts {
            max_depth: 3,
            infer: true,
            flag_subcommands: true,
            defaults: true,
            env: false,
            os_values: true,
            overrides: false,
            append_positionals: true,
            delimiters: true,
            terminators: true,
            require_equals: true,
            last_positional: true,
            typed_parsers: false,
            low_index_multi: true,
            positional_terminators: false,
        }
    }
}

const C_LONGS: &[&str] = &[
    "alpha", "alpine", "al", "beta", "bet", "gamma", "verbose", "verb", "color", "colour", "co", "opt", "opt-in", "num", "n-1", "file",
    "\u{fc}ber", "x",
];
const C_SHORTS: &[char] = &['a', 'b', 'c', 'd', 'e', 'f', 'g', 'v', 'x', 'n', 'o', 'q', 'S', 'Q', '\u{e9}'];
const C_SUBS: &[&str] = &["sub", "sub-one", "subtle", "add", "ad", "remove", "rm", "install", "in", "list", "ls", "run", "r\u{fc}n", "test"];

fn take<T: Clone>(t: &mut Tape<'_>, pool: &mut Vec<T>) -> Option<T> {
    if pool.is_empty() {
        return None;
    }
    let i = t.choose(pool.len());
    Some(pool.remove(i))
}

pub fn gen_conv_spec(t: &mut Tape<'_>, o: &ConvOpts) -> CmdSpec {
    let mut root = conv_level(t, o, 0, "prog");
    root.term_width = Some(80);
    // infer_long_args, infer_subcommands and args_override_self are propagated to every
    // subcommand by clap: make the description say what is in effect
    fn spread(c: &mut CmdSpec, il: bool, is: bool, ov: bool) {
        c.settings.infer_long_args = il;
        c.settings.infer_subcommands = is;
        c.settings.args_override_self = ov;
        for s in &mut c.subs {
            spread(s, il, is, ov);
        }
    }
    let (il, is, ov) = (root.settings.infer_long_args, root.settings.infer_subcommands, root.settings.args_override_self);
    spread(&mut root, il, is, ov);
    // half of the trees leave it to the library to carry these settings down
    if t.bool() {
        fn inherit(c: &mut CmdSpec) {
            for s in &mut c.subs {
                s.settings.inherit_globals = true;
                inherit(s);
            }
        }
        inherit(&mut root);
    }
    // (a global setting as well; set on the root only, in effect everywhere) values after `--` keep their delimiters
    if o.delimiters && t.chance(1, 3) {
        root.settings.dont_delimit_trailing_values = true;
    }
    root
}

fn conv_level(t: &mut Tape<'_>, o: &ConvOpts, depth: usize, name: &str) -> CmdSpec {
    let mut c = CmdSpec {
        name: name.to_owned(),
        ..Default::default()
    };
    let mut longs = C_LONGS.to_vec();
    let mut shorts = C_SHORTS.to_vec();
    let mut subs = C_SUBS.to_vec();
    if o.infer {
        c.settings.infer_long_args = t.chance(1, 3);
        c.settings.infer_subcommands = t.chance(1, 3);
    }
    if o.overrides {
        c.settings.args_override_self = t.chance(1, 3);
    }
    let mut idn = 0;
    let mut next_id = || {
        idn += 1;
        format!("a{}", idn - 1)
    };
    // flags
    for _ in 0..t.range(0, 3) {
        let mut a = ArgSpec {
            id: next_id(),
            action: *t.pick(&[Action::SetTrue, Action::SetTrue, Action::SetFalse, Action::Count]),
            ..Default::default()
        };
        name_arg(t, &mut a, &mut longs, &mut shorts);
        if a.short.is_none() && a.long.is_none() {
            continue;
        }
        a.hide = t.chance(1, 5);
        c.args.push(a);
    }
    // options
    for _ in 0..t.range(0, 3) {
        let mut a = ArgSpec {
            id: next_id(),
            action: if t.chance(1, 3) { Action::Append } else { Action::Set },
            ..Default::default()
        };
        name_arg(t, &mut a, &mut longs, &mut shorts);
        if a.short.is_none() && a.long.is_none() {
            continue;
        }
        match t.weighted(&[8, 3, 2, 2, 2, 2]) {
            0 => {}
            1 => a.num_args = Some((0, 1)),
            2 => a.num_args = Some((1, usize::MAX)),
            3 => a.num_args = Some((0, usize::MAX)),
            4 => a.num_args = Some((2, 2)),
            _ => a.num_args = Some((1, 3)),
        }
        let (lo, hi) = a.value_range();
        if o.delimiters && t.chance(1, 4) {
            a.value_delimiter = Some(*t.pick(&[',', ';', ':']));
        }
        if o.terminators && hi > 1 && t.chance(1, 3) {
            a.value_terminator = Some((*t.pick(&[";", "end", "."])).to_owned());
        }
        if o.require_equals && lo <= 1 && t.chance(1, 5) {
            a.require_equals = true;
        }
        if lo == 0 && t.chance(2, 3) {
            a.default_missing_values = vec![(*t.pick(&["dm", "dm,x", ""])).to_owned()];
        }
        if o.os_values && t.chance(1, 4) {
            a.parser = ParserSpec::OsStr;
        }
        if o.typed_parsers && a.default_missing_values.is_empty() && t.chance(1, 4) {
            if t.chance(1, 3) {
                a.parser = ParserSpec::I64 { lo: -10, hi: 10 };
            } else {
                a.parser = ParserSpec::Possible(vec![
                    PvSpec { name: "fast".into(), aliases: vec!["quick".into()], ..Default::default() },
                    PvSpec { name: "slow".into(), aliases: vec![], ..Default::default() },
                    PvSpec { name: "Auto".into(), aliases: vec!["dflt-mode".into(), "A".into()], ..Default::default() },
                    // hidden from help and error listings, still a member of the language
                    PvSpec { name: "legacy".into(), aliases: vec!["old".into()], hide: true, ..Default::default() },
                ]);
                a.ignore_case = t.bool();
            }
        } else if o.defaults && t.chance(1, 4) {
            a.default_values = vec![(*t.pick(&["dflt", "d1"])).to_owned()];
        }
        if o.overrides && t.chance(1, 4) {
            a.overrides_with.push(a.id.clone());
        }
        a.hide = t.chance(1, 5);
        c.args.push(a);
    }
    if o.overrides {
        // override relations between flags/options of this level
        let ids: Vec<String> = c.args.iter().map(|a| a.id.clone()).collect();
        for a in c.args.iter_mut() {
            if ids.len() >= 2 && t.chance(1, 4) {
                let other = t.pick(&ids).clone();
                if other != a.id {
                    a.overrides_with.push(other);
                }
            }
        }
    }
    // positionals: singles, then maybe a multi / last; or `<files>... <target>`
    let low_index_multi = o.low_index_multi && t.chance(1, 6);
    if low_index_multi {
        if t.bool() {
            c.args.push(ArgSpec {
                id: next_id(),
                action: Action::Set,
                required: true,
                ..Default::default()
            });
        }
        let mut m = ArgSpec {
            id: next_id(),
            action: if o.append_positionals && t.chance(1, 3) { Action::Append } else { Action::Set },
            required: true,
            ..Default::default()
        };
        m.num_args = Some((1, usize::MAX));
        if o.positional_terminators && t.chance(1, 3) {
            // with a terminator the look-ahead is off: the run ends at the terminator, then the target follows
            m.value_terminator = Some(";".to_owned());
        }
        c.args.push(m);
        c.args.push(ArgSpec {
            id: next_id(),
            action: Action::Set,
            required: true,
            ..Default::default()
        });
    }
    let nsingle = if low_index_multi { 0 } else { t.weighted(&[4, 3, 2, 1]) };
    let nreq = if nsingle > 0 { t.range(0, nsingle) } else { 0 };
    for k in 0..nsingle {
        let mut a = ArgSpec {
            id: next_id(),
            action: Action::Set,
            required: k < nreq,
            ..Default::default()
        };
        if o.os_values && t.chance(1, 4) {
            a.parser = ParserSpec::OsStr;
        }
        if o.defaults && !a.required && t.chance(1, 5) {
            a.default_values = vec!["pdflt".to_owned()];
        }
        c.args.push(a);
    }
    if !low_index_multi && t.chance(1, 2) {
        let mut a = ArgSpec {
            id: next_id(),
            action: if o.append_positionals && t.chance(1, 3) { Action::Append } else { Action::Set },
            ..Default::default()
        };
        a.num_args = Some(*t.pick(&[(1, usize::MAX), (0, usize::MAX), (1, usize::MAX), (2, 3), (1, 2)]));
        if o.append_positionals && t.chance(1, 6) {
            // repeatable single-value positional: every value is an occurrence of its own
            a.action = Action::Append;
            a.num_args = None;
        }
        if o.os_values && t.chance(1, 3) {
            a.parser = ParserSpec::OsStr;
        }
        if o.delimiters && t.chance(1, 6) {
            a.value_delimiter = Some(',');
        }
        if o.last_positional && t.chance(1, 4) {
            a.last = true;
            if o.positional_terminators && t.chance(1, 3) {
                // a terminated multi-value positional in front of the `last` one
                c.args.push(ArgSpec {
                    id: next_id(),
                    action: if o.append_positionals && t.chance(1, 3) { Action::Append } else { Action::Set },
                    num_args: Some((1, usize::MAX)),
                    value_terminator: Some(";".to_owned()),
                    ..Default::default()
                });
            }
        }
        c.args.push(a);
    }
    // subcommands
    if depth + 1 < o.max_depth {
        let nsubs = t.weighted(&[3, 3, 2]);
        let mut heads = Vec::new();
        for _ in 0..nsubs {
            let Some(n) = take(t, &mut subs) else { break };
            let mut aliases = Vec::new();
            for _ in 0..t.weighted(&[5, 3, 1]) {
                if let Some(al) = take(t, &mut subs) {
                    aliases.push((al.to_owned(), t.bool()));
                }
            }
            let (mut sf, mut lf) = (None, None);
            if o.flag_subcommands {
                if t.chance(1, 4) {
                    sf = take(t, &mut shorts);
                }
                if t.chance(1, 4) {
                    lf = take(t, &mut longs).map(|s| s.to_owned());
                }
            }
            // an alias (visible or hidden) of the long flag
            // (one subcommand in eight that has no long flag is reachable through a long flag alias alone)
            let lfa = if (lf.is_some() && t.chance(1, 3)) || (lf.is_none() && o.flag_subcommands && t.chance(1, 8)) {
                take(t, &mut longs).map(|s| (s.to_owned(), t.bool()))
            } else {
                None
            };
            heads.push((n, aliases, sf, lf, lfa));
        }
        for (n, aliases, sf, lf, lfa) in heads {
            let mut sc = conv_level(t, o, depth + 1, n);
            sc.aliases = aliases;
            sc.short_flag = sf;
            sc.long_flag = lf;
            sc.long_flag_aliases.extend(lfa);
            c.subs.push(sc);
        }
    }
    if c.args.iter().filter(|a| a.is_positional()).count() >= 2 && t.chance(1, 6) {
        c.settings.positionals_declared_backwards = true;
    }
    // a third of the value-taking arguments leave their action to the library's inference
    for a in c.args.iter_mut() {
        if matches!(a.action, Action::Set | Action::Append) && t.chance(1, 3) {
            a.action_inferred = true;
        }
        // relations declared through the singular method for the first and the plural method for the rest
        a.plural_builders = t.bool();
        a.setter_history = t.chance(1, 4);
        a.decoy_history = t.chance(1, 5);
        a.static_id = t.bool();
        if a.action == Action::SetTrue && !a.is_positional() && a.num_args.is_none() && t.chance(1, 4) {
            // a flag declared through `num_args(0)` and no action
            a.num_args = Some((0, 0));
            a.action_inferred = true;
        }
    }
    if t.chance(1, 3) {
        c.settings.route = t.range(1, 63) as u8;
    }
    c.settings.decoy_history = t.chance(1, 5);
    c
}

fn name_arg(t: &mut Tape<'_>, a: &mut ArgSpec, longs: &mut Vec<&'static str>, shorts: &mut Vec<char>) {
    let w = t.weighted(&[4, 2, 4]); // both, short only, long only
    if w != 2 {
        a.short = take(t, shorts);
    }
    if w != 1 || a.short.is_none() {
        a.long = take(t, longs).map(|s| s.to_owned());
    }
    // (a short-only argument may carry long aliases as well)
    if (a.long.is_some() || a.short.is_some()) && t.chance(1, 4) {
        if let Some(al) = take(t, longs) {
            a.aliases.push((al.to_owned(), t.bool()));
        }
    }
    if a.short.is_some() && t.chance(1, 6) {
        if let Some(al) = take(t, shorts) {
            a.short_aliases.push((al, t.bool()));
        }
    }
}

// ------------------------------------------------------------ invocation

#[derive(Serialize, Deserialize, Hash, Clone, Debug, PartialEq, Eq)]
pub enum Occ {
    Flag {
        arg: String,
    },
    /// values as intended after delimiter splitting
    Opt {
        arg: String,
        #[serde(with = "vals_hex")]
        values: Vec<Bytes>,
    },
    /// one occurrence of a positional (adjacent values)
    Pos {
        arg: String,
        #[serde(with = "vals_hex")]
        values: Vec<Bytes>,
    },
    Escape,
}

#[derive(Serialize, Deserialize, Hash, Clone, Debug, PartialEq, Eq, Default)]
pub struct LevelInv {
    pub occs: Vec<Occ>,
    /// canonical name of the subcommand entered next
    pub sub: Option<String>,
}

#[derive(Serialize, Deserialize, Hash, Clone, Debug, PartialEq, Eq, Default)]
pub struct Invocation {
    pub levels: Vec<LevelInv>,
}

pub mod vals_hex {
    use serde::ser::SerializeSeq;
    use serde::{Deserialize, Deserializer, Serializer};
    pub fn serialize<S: Serializer>(v: &Vec<Vec<u8>>, s: S) -> Result<S::Ok, S::Error> {
        let mut seq = s.serialize_seq(Some(v.len()))?;
        for b in v {
            seq.serialize_element(&vcore::show_bytes(b))?;
        }
        seq.end()
    }
    pub fn decode(s: &str) -> Result<Vec<u8>, String> {
        let b = s.as_bytes();
        let mut out = Vec::new();
        let mut i = 0;
        while i < b.len() {
            if b[i] == b'\\' {
                if i + 1 < b.len() && b[i + 1] == b'\\' {
                    out.push(b'\\');
                    i += 2;
                } else if i + 3 < b.len() && b[i + 1] == b'x' {
                    let h = std::str::from_utf8(&b[i + 2..i + 4]).map_err(|e| e.to_string())?;
                    out.push(u8::from_str_radix(h, 16).map_err(|e| e.to_string())?);
                    i += 4;
                } else {
                    return Err(format!("bad escape in {s:?}"));
                }
            } else {
                out.push(b[i]);
                i += 1;
            }
        }
        Ok(out)
    }
    pub fn deserialize<'de, D: Deserializer<'de>>(d: D) -> Result<Vec<Vec<u8>>, D::Error> {
        let v = Vec::<String>::deserialize(d)?;
        v.iter().map(|s| decode(s).map_err(serde::de::Error::custom)).collect()
    }
}

#[derive(Clone, Copy, PartialEq, Eq)]
enum ValueKind {
    /// usable as a separated option value / positional before `--`
    Safe,
    /// anything (attached forms or after `--`)
    Wild,
}

fn gen_value(t: &mut Tape<'_>, kind: ValueKind, os: bool, avoid: &[String], delim: Option<char>) -> Bytes {
    for _ in 0..8 {
        let mut v: Bytes = match kind {
            ValueKind::Safe => t.pick_s(&["v", "val", "1", "x y", "a=b", "\u{e9}t\u{e9}", "p1", "0", "-", "w.x", "UP", "v2", "", ""]).as_bytes().to_vec(),
            ValueKind::Wild => match t.weighted(&[5, 5]) {
                0 => t.pick_s(&["v", "val", "1", "x y", "a=b", "\u{e9}t\u{e9}", "p1"]).as_bytes().to_vec(),
                _ => t
                    .pick_s(&["", "-x", "--opt", "--help", "-h", "=v", "=", "--", "-", "-1", "--alpha=1", "sub", "help", " ", "a,b", ";"])
                    .as_bytes()
                    .to_vec(),
            },
        };
        if os && t.chance(1, 4) {
            let b = *t.pick(&[0xffu8, 0x80, 0xc3]);
            // "-" plus bytes would be a short flag, no longer the stdio value
            if v != b"-" {
                v.push(b);
            }
        }
        if let Some(d) = delim {
            let mut buf = [0u8; 4];
            let db = d.encode_utf8(&mut buf).as_bytes().to_vec();
            if v.windows(db.len()).any(|w| w == db.as_slice()) {
                continue;
            }
        }
        let s = String::from_utf8_lossy(&v).into_owned();
        if avoid.iter().any(|a| *a == s) {
            continue;
        }
        return v;
    }
    b"v".to_vec()
}

/// Tokens a positional value must not look like before `--`: subcommand
/// spellings of the level (and, with inference, their prefixes).
fn sub_spellings(level: &CmdSpec) -> Vec<String> {
    let mut v: Vec<String> = Vec::new();
    for sc in &level.subs {
        v.extend(sc.all_names());
    }
    v.push("help".to_owned());
    v
}

fn looks_like_sub(level: &CmdSpec, s: &str) -> bool {
    let names = sub_spellings(level);
    if names.iter().any(|n| n == s) {
        return true;
    }
    level.settings.infer_subcommands && names.iter().any(|n| n.starts_with(s))
}

pub struct InvOpts {
    /// Set/SetTrue arguments may repeat (needs override permission, C07)
    pub repeats: bool,
    pub max_occ: usize,
    pub escape: bool,
    /// also repeat Set/SetTrue/SetFalse arguments that have no override permission (C07: must be rejected)
    pub illegal_repeats: bool,
    /// long runs of one repeatable flag (Count up to 300)
    pub long_runs: bool,
}

impl Default for InvOpts {
    fn default() -> Self {
        InvOpts {
            repeats: false,
            max_occ: 10,
            escape: true,
            illegal_repeats: false,
            long_runs: false,
        }
    }
}

pub fn gen_invocation(t: &mut Tape<'_>, spec: &CmdSpec, io: &InvOpts) -> Invocation {
    let mut inv = Invocation::default();
    let mut level = spec;
    loop {
        let mut li = LevelInv::default();
        let subs_avoid = sub_spellings(level);
        // ---- option / flag occurrences
        let mut free: Vec<Occ> = Vec::new();
        for a in level.args.iter().filter(|a| !a.is_positional()) {
            if !t.chance(1, 2) {
                continue;
            }
            let may_repeat = match a.action {
                Action::Append | Action::Count => true,
                _ => io.repeats && (level.settings.args_override_self || a.overrides_with.contains(&a.id)),
            };
            let mut n = if may_repeat { t.weighted(&[0, 5, 3, 2]) } else { 1 };
            if !may_repeat && io.illegal_repeats && t.chance(1, 6) {
                n = 2;
            }
            if io.long_runs && a.action == Action::Count && t.chance(1, 4) {
                n = *t.pick(&[254usize, 255, 256, 257, 300, 20]);
            }
            for _ in 0..n {
                if !a.action.takes_values() {
                    free.push(Occ::Flag { arg: a.id.clone() });
                    continue;
                }
                let (lo, hi) = a.value_range();
                let os = a.parser == ParserSpec::OsStr;
                let term: Vec<String> = a.value_terminator.iter().cloned().collect();
                let k = if hi == 0 {
                    0
                } else if lo == 0 && t.chance(1, 3) {
                    0
                } else {
                    let top = hi.min(lo.max(1) + 2);
                    t.range(lo.max(1), top)
                };
                let values: Vec<Bytes> = if let ParserSpec::Possible(pvs) = &a.parser {
                    (0..k)
                        .map(|_| {
                            let pv = t.pick(pvs);
                            let mut s = if !pv.aliases.is_empty() && t.bool() { t.pick(&pv.aliases).clone() } else { pv.name.clone() };
                            if a.ignore_case && t.bool() {
                                s = s.chars().map(|c| if t.bool() { c.to_ascii_uppercase() } else { c.to_ascii_lowercase() }).collect();
                            }
                            s.into_bytes()
                        })
                        .collect()
                } else if let ParserSpec::I64 { lo, hi } = &a.parser {
                    // typed option: stay inside the parser's language
                    let pool: Vec<i64> = [0i64, 5, 10, 7, 1].iter().copied().filter(|x| x >= lo && x <= hi).collect();
                    (0..k).map(|_| if pool.is_empty() { lo.to_string().into_bytes() } else { t.pick(&pool).to_string().into_bytes() }).collect()
                } else if k == 1 && a.value_delimiter.is_none() {
                    vec![gen_value(t, ValueKind::Wild, os, &term, None)]
                } else if k == 1 {
                    vec![gen_value(t, ValueKind::Wild, os, &term, a.value_delimiter)]
                } else {
                    (0..k).map(|_| gen_value(t, ValueKind::Safe, os, &term, a.value_delimiter)).collect()
                };
                free.push(Occ::Opt {
                    arg: a.id.clone(),
                    values,
                });
            }
        }
        if !io.long_runs && free.len() > io.max_occ {
            // (never cut positional occurrences: required ones must stay)
            free.truncate(io.max_occ);
        }
        // ---- positionals
        let pos: Vec<&ArgSpec> = level.args.iter().filter(|a| a.is_positional()).collect();
        let nreq = pos.iter().filter(|p| p.required && !p.last).count();
        let has_last = pos.iter().any(|p| p.last);
        let fillable = pos.iter().filter(|p| !p.last).count();
        let k = if fillable == 0 { 0 } else { t.range(nreq, fillable) };
        let low_index_layout_spec = pos.len() >= 2
            && pos[pos.len() - 2].value_range().1 > 1
            && !pos[pos.len() - 1].last
            && pos[pos.len() - 1].value_range().1 == 1;
        // (`files... target --` would hide the end of the line from the look-ahead that picks the target)
        let use_escape = io.escape && !low_index_layout_spec && (t.chance(1, 4) || (has_last && t.chance(1, 2)));
        let mut before: Vec<Occ> = Vec::new(); // positional occurrences in index order
        let mut after: Vec<Occ> = Vec::new();
        // where (in positional order) the escape marker goes
        // with a `last` positional everything after `--` goes to it, so the others stay in front
        let esc_at = if use_escape { Some(if has_last { k } else { t.range(0, k) }) } else { None };
        for (i, p) in pos.iter().filter(|p| !p.last).take(k).enumerate() {
            let after_esc = esc_at.map(|e| i >= e).unwrap_or(false);
            let os = p.parser == ParserSpec::OsStr;
            let (lo, hi) = p.value_range();
            let multi = hi > 1;
            // an Append positional may come as several occurrences (interleaved with options);
            // every occurrence has to satisfy num_args on its own
            let repeatable = p.action == Action::Append && hi == 1;
            let noccs = if repeatable {
                t.range(1, 3)
            } else if multi && p.action == Action::Append && !after_esc && t.chance(1, 2) {
                2
            } else if multi && p.action == Action::Set && io.illegal_repeats && !after_esc && !low_index_layout_spec && t.chance(1, 6) {
                // a Set positional given twice (when something separates the two runs): conflict, or last wins under
                // args_override_self
                2
            } else {
                1
            };
            let mut pieces: Vec<Vec<Bytes>> = Vec::new();
            for _ in 0..noccs {
                let n = if multi { t.range(lo.max(1), hi.min(lo.max(1) + 2)) } else { 1 };
                let mut vals: Vec<Bytes> = Vec::new();
                for j in 0..n {
                    // a multi-value positional that is still collecting takes a word spelled like a subcommand
                    // as its next value (the parser only looks for subcommands outside an open occurrence)
                    let stringy = matches!(p.parser, ParserSpec::Str | ParserSpec::OsStr);
                    if multi && j >= 1 && !after_esc && !low_index_layout_spec && stringy && !level.subs.is_empty() && t.chance(1, 5) {
                        let sc = &level.subs[t.choose(level.subs.len())];
                        vals.push(sc.name.as_bytes().to_vec());
                        continue;
                    }
                    let v = if after_esc {
                        // with dont_delimit_trailing_values the tail is taken verbatim, delimiter characters included
                        let d = if spec.settings.dont_delimit_trailing_values { None } else { p.value_delimiter };
                        gen_value(t, ValueKind::Wild, os, &[], d)
                    } else {
                        let mut avoid = subs_avoid.clone();
                        avoid.extend(p.value_terminator.iter().cloned());
                        let mut v = gen_value(t, ValueKind::Safe, os, &avoid, p.value_delimiter);
                        if looks_like_sub(level, &String::from_utf8_lossy(&v)) {
                            v = b"p1".to_vec();
                        }
                        v
                    };
                    vals.push(v);
                }
                pieces.push(vals);
            }
            for piece in pieces {
                let occ = Occ::Pos {
                    arg: p.id.clone(),
                    values: piece,
                };
                if after_esc {
                    after.push(occ);
                } else {
                    before.push(occ);
                }
            }
        }
        let mut straddle: Option<String> = None;
        // a trailing multi-value positional that was still collecting before the marker goes on collecting after it
        // (one occurrence straddling `--`)
        if use_escape && !has_last && esc_at == Some(k) && k >= 1 && after.is_empty() && t.chance(1, 2) {
            if let Some(p) = pos.iter().filter(|p| !p.last).nth(k - 1) {
                let (_, hi) = p.value_range();
                let have: usize = before.iter().map(|o| if let Occ::Pos { arg, values } = o { if *arg == p.id { values.len() } else { 0 } } else { 0 }).sum();
                let is_last_in_order = pos.iter().filter(|q| !q.last).count() == k;
                if hi > 1 && have >= 1 && have < hi && is_last_in_order && p.value_terminator.is_none() {
                    let os = p.parser == ParserSpec::OsStr;
                    let d = if spec.settings.dont_delimit_trailing_values { None } else { p.value_delimiter };
                    let n = t.range(1, (hi - have).min(3));
                    let vals = (0..n).map(|_| gen_value(t, ValueKind::Wild, os, &[], d)).collect();
                    after.push(Occ::Pos { arg: p.id.clone(), values: vals });
                    straddle = Some(p.id.clone());
                }
            }
        }
        if let (Some(lp), true) = (pos.iter().find(|p| p.last), use_escape) {
            if lp.required || t.chance(2, 3) {
                // only reachable after the escape marker and only when every earlier positional is
                // either filled or skipped by the jump to the last positional
                let os = lp.parser == ParserSpec::OsStr;
                let (lo, hi) = lp.value_range();
                let n = if hi > 1 { t.range(lo.max(1), hi.min(lo.max(1) + 2)) } else { 1 };
                let d = if spec.settings.dont_delimit_trailing_values { None } else { lp.value_delimiter };
                let vals = (0..n).map(|_| gen_value(t, ValueKind::Wild, os, &[], d)).collect();
                // values placed after `--` jump straight to the `last` positional: nothing else may follow the marker
                after.clear();
                after.push(Occ::Pos {
                    arg: lp.id.clone(),
                    values: vals,
                });
            }
        }
        // ---- interleave: positional occurrences keep their order, options go anywhere before `--`
        let mut occs: Vec<Occ> = before;
        for f in free {
            let at = t.range(0, occs.len());
            occs.insert(at, f);
        }
        // `<files>... <target>`: which value is the target is decided by looking at the token after
        // it, so the positional run has to stay contiguous (and a single occurrence each)
        let npos_spec = pos.len();
        let low_index_layout = npos_spec >= 2
            && pos[npos_spec - 2].value_range().1 > 1
            && !pos[npos_spec - 1].last
            && pos[npos_spec - 1].value_range().1 == 1;
        // (with a value terminator on the multi-value positional there is no look-ahead: the run ends at the terminator)
        if low_index_layout && pos[npos_spec - 2].value_terminator.is_none() {
            let multi_id = pos[npos_spec - 2].id.clone();
            let last_id = pos[npos_spec - 1].id.clone();
            let first = occs.iter().position(|o| matches!(o, Occ::Pos { arg, .. } if *arg == multi_id));
            let lastp = occs.iter().rposition(|o| matches!(o, Occ::Pos { arg, .. } if *arg == last_id));
            if let (Some(f), Some(l)) = (first, lastp) {
                if f < l {
                    let mut run: Vec<Occ> = Vec::new();
                    let mut others: Vec<Occ> = Vec::new();
                    for o in occs.drain(f..=l) {
                        if matches!(o, Occ::Pos { .. }) {
                            run.push(o);
                        } else {
                            others.push(o);
                        }
                    }
                    let mut rebuilt: Vec<Occ> = occs[..f].to_vec();
                    rebuilt.extend(others);
                    rebuilt.extend(run);
                    rebuilt.extend(occs[f..].iter().cloned());
                    occs = rebuilt;
                }
            }
        }
        // adjacent occurrences of the same multi positional would merge: keep them apart or merge them
        let mut merged: Vec<Occ> = Vec::new();
        for o in occs {
            if let (Some(Occ::Pos { arg: a1, values: v1 }), Occ::Pos { arg: a2, values: v2 }) = (merged.last_mut(), &o) {
                if a1 == a2 {
                    // adjacent occurrences form one: keep it inside num_args
                    let hi = level.arg(a1).map(|a| a.value_range().1).unwrap_or(1);
                    if hi == 1 {
                        // a repeatable single-value positional: adjacent values stay separate occurrences
                        merged.push(o);
                        continue;
                    }
                    for v in v2 {
                        if v1.len() < hi {
                            v1.push(v.clone());
                        }
                    }
                    continue;
                }
            }
            merged.push(o);
        }
        if let Some(id) = &straddle {
            // only an occurrence that is still open (nothing between its values and the marker) continues after `--`
            if let Some(i) = merged.iter().rposition(|o| matches!(o, Occ::Pos { arg, .. } if arg == id)) {
                let o = merged.remove(i);
                merged.push(o);
            }
        }
        if use_escape {
            merged.push(Occ::Escape);
            merged.extend(after);
        }

        li.occs = merged;
        // ---- descend?
        let trailing = li.occs.iter().any(|o| matches!(o, Occ::Escape));
        // a multi-value positional still collecting would take the subcommand name as a value
        let open_pos = match li.occs.last() {
            Some(Occ::Pos { arg, .. }) => level
                .arg(arg)
                .map(|a| a.value_range().1 > 1 || a.action == Action::Append)
                .unwrap_or(false),
            _ => false,
        };
        if !trailing && !open_pos && !level.subs.is_empty() && t.chance(1, 2) {
            let sc = &level.subs[t.choose(level.subs.len())];
            li.sub = Some(sc.name.clone());
            inv.levels.push(li);
            level = sc;
            continue;
        }
        inv.levels.push(li);
        break;
    }
    inv
}

// -------------------------------------------------------------- spelling

#[derive(Default, Clone, Debug)]
pub struct SpellStats {
    /// input: do not use --flag / -S forms for subcommands (they are not on C08's list of equivalences)
    pub no_flag_subcommand_forms: bool,
    /// input: where a subcommand has a long flag, name it only through that flag, its aliases or their prefixes
    pub only_long_flag_forms: bool,
    /// input (fault injection): spell this option's single value separated even with require_equals
    pub force_separated: Option<String>,
    /// input (fault injection): spell this no-value flag as `--long=x`
    pub flag_equals: Option<String>,
    /// input (fault injection): spell this option in the `--long=value` form
    pub force_equals: Option<String>,
    /// input: the level (index into the invocation) the three hooks above apply to
    pub hook_level: usize,
    /// (internal) level being spelled
    pub cur_level: usize,
    pub cluster: bool,
    pub attached: bool,
    pub delim_joined: bool,
    pub terminator: bool,
    pub alias: bool,
    pub prefix: bool,
    pub flag_subcommand: bool,
    pub equals_form: bool,
    pub variable_opt_before_pos: bool,
}

pub struct Spelled {
    pub argv: Vec<Bytes>,
    /// level k was entered through a `-Sab` cluster (its logical indices continue the parent's)
    pub cluster_entry: Vec<bool>,
}

/// `None` when the invocation has no unambiguous spelling (counted as a discard).
pub fn spell(t: &mut Tape<'_>, spec: &CmdSpec, inv: &Invocation, stats: &mut SpellStats) -> Option<Spelled> {
    let mut argv: Vec<Bytes> = vec![b"prog".to_vec()];
    let mut cluster_entry = vec![false; inv.levels.len()];
    let mut level = spec;
    for (li, lv) in inv.levels.iter().enumerate() {
        stats.cur_level = li;
        let mut i = 0;
        // a short-flag subcommand letter that opened this level's first cluster
        let mut cluster_prefix: Option<String> = None;
        if li > 0 {
            if let Some(p) = PENDING_CLUSTER.with(|c| c.borrow_mut().take()) {
                cluster_prefix = Some(p);
            }
        }
        // a terminated multi-value positional: the terminator is due before occurrence index `.0`
        let mut term_due: Option<(usize, Bytes)> = None;
        while i < lv.occs.len() {
            let occ = &lv.occs[i];
            let next = lv.occs.get(i + 1);
            let next_is_sub = next.is_none() && lv.sub.is_some();
            if let Some((at, term)) = term_due.clone() {
                if at == i {
                    argv.push(term);
                    stats.terminator = true;
                    term_due = None;
                }
            }
            match occ {
                Occ::Escape => {
                    argv.push(b"--".to_vec());
                    i += 1;
                }
                Occ::Pos { arg, values } => {
                    argv.extend(values.iter().cloned());
                    if let Some(a) = level.arg(arg) {
                        if let (Some(term), true) = (&a.value_terminator, a.value_range().1 > 1) {
                            // The run is closed by the terminator: needed before another positional, optional otherwise
                            // (never while a further occurrence of this positional follows). It may come right after the
                            // values or after flags that follow them directly (a flag does not take it as a value).
                            let rest = &lv.occs[i + 1..];
                            let upto = rest.iter().position(|o| matches!(o, Occ::Escape)).unwrap_or(rest.len());
                            let later_same = rest[..upto].iter().any(|o| matches!(o, Occ::Pos { arg: b, .. } if b == arg));
                            let must = rest[..upto].iter().any(|o| matches!(o, Occ::Pos { arg: b, .. } if b != arg));
                            let flags = rest[..upto].iter().take_while(|o| matches!(o, Occ::Flag { .. })).count();
                            if !later_same && (must || t.chance(1, 2)) {
                                let k = t.range(0, flags);
                                term_due = Some((i + 1 + k, term.as_bytes().to_vec()));
                            }
                        }
                    }
                    i += 1;
                }
                Occ::Flag { arg } => {
                    let a = level.arg(arg)?;
                    // try to open a cluster of consecutive short-capable flags
                    let mut shorts_run: Vec<&ArgSpec> = Vec::new();
                    let mut j = i;
                    while let Some(Occ::Flag { arg }) = lv.occs.get(j) {
                        let f = level.arg(arg)?;
                        if f.short.is_some() || !f.short_aliases.is_empty() {
                            shorts_run.push(f);
                            j += 1;
                        } else {
                            break;
                        }
                    }
                    if stats.cur_level == stats.hook_level && stats.flag_equals.as_deref() == Some(arg.as_str()) && cluster_prefix.is_none() {
                        argv.push(spell_flag(t, a, level, stats).into_bytes());
                        i += 1;
                        continue;
                    }
                    if let Some((at, _)) = &term_due {
                        // a positional's terminator is due inside this run of flags: the cluster stops there
                        shorts_run.truncate(at.saturating_sub(i));
                    }
                    if let (Some(fe), true) = (&stats.flag_equals, stats.cur_level == stats.hook_level) {
                        // keep the marked flag out of clusters
                        if let Some(p) = shorts_run.iter().position(|f| f.id == *fe) {
                            shorts_run.truncate(p);
                        }
                    }
                    let want_cluster = (cluster_prefix.is_some() && !shorts_run.is_empty()) || (shorts_run.len() >= 2 && t.chance(2, 3));
                    if want_cluster {
                        let n = if cluster_prefix.is_some() { t.range(1, shorts_run.len()) } else { t.range(2, shorts_run.len()) };
                        let mut tok = String::from("-");
                        if let Some(p) = cluster_prefix.take() {
                            tok.push_str(&p);
                        }
                        for f in shorts_run.iter().take(n) {
                            tok.push(pick_short(t, f, stats));
                        }
                        // the cluster may end in an option
                        let term_here = term_due.as_ref().map(|(at, _)| *at == i + n).unwrap_or(false);
                        if let (Some(Occ::Opt { arg, values }), false) = (lv.occs.get(i + n), term_here) {
                            let oa = level.arg(arg)?;
                            if oa.short.is_some() && t.chance(1, 2) {
                                let nx = lv.occs.get(i + n + 1);
                                let nx_sub = nx.is_none() && lv.sub.is_some();
                                if let Some(mut toks) = spell_opt(t, oa, values, nx, nx_sub, true, level, stats) {
                                    // toks[0] starts with "-s..."; splice the cluster in front
                                    let first = toks.remove(0);
                                    let mut joined = tok.clone().into_bytes();
                                    joined.extend_from_slice(&first[1..]);
                                    argv.push(joined);
                                    argv.extend(toks);
                                    stats.cluster = true;
                                    i += n + 1;
                                    continue;
                                }
                            }
                        }
                        argv.push(tok.into_bytes());
                        stats.cluster = true;
                        i += n;
                    } else {
                        if let Some(p) = cluster_prefix.take() {
                            // the flag subcommand letter stands alone
                            argv.push(format!("-{p}").into_bytes());
                        }
                        argv.push(spell_flag(t, a, level, stats).into_bytes());
                        i += 1;
                    }
                }
                Occ::Opt { arg, values } => {
                    if let Some(p) = cluster_prefix.take() {
                        argv.push(format!("-{p}").into_bytes());
                    }
                    let a = level.arg(arg)?;
                    let toks = spell_opt(t, a, values, next, next_is_sub, false, level, stats)?;
                    argv.extend(toks);
                    i += 1;
                }
            }
        }
        if let Some(p) = cluster_prefix.take() {
            argv.push(format!("-{p}").into_bytes());
        }
        if let Some((_, term)) = term_due.take() {
            // due at the very end of the level
            argv.push(term);
            stats.terminator = true;
        }
        // ---- the subcommand token
        if let Some(name) = &lv.sub {
            let sc = level.subs.iter().find(|s| s.name == *name)?;
            let next_level = inv.levels.get(li + 1);
            let first_is_short_flag = next_level
                .and_then(|nl| nl.occs.first())
                .map(|o| match o {
                    Occ::Flag { arg } => sc.arg(arg).map(|f| f.short.is_some() || !f.short_aliases.is_empty()).unwrap_or(false),
                    _ => false,
                })
                .unwrap_or(false);
            let mut forms: Vec<u8> = vec![0, 0, 0]; // name (weighted)
            if !sc.aliases.is_empty() {
                forms.push(1);
            }
            if level.settings.infer_subcommands {
                forms.push(2);
            }
            if let Some(lf) = &sc.long_flag {
                // with infer_long_args an argument whose long merely starts with the flag name is
                // tried first (undocumented precedence): not a spelling of the subcommand then
                let shadowed = level.settings.infer_long_args
                    && level.args.iter().any(|a| {
                        a.long.iter().chain(a.aliases.iter().map(|x| &x.0)).any(|l| l.starts_with(lf.as_str()))
                    });
                if !shadowed && !stats.no_flag_subcommand_forms {
                    forms.push(3);
                }
            }
            // (the same precedence applies to every long-flag spelling)
            let claimed_by_arg = |sp: &str| {
                level.settings.infer_long_args
                    && level.args.iter().any(|a| a.long.iter().chain(a.aliases.iter().map(|x| &x.0)).any(|l| l.starts_with(sp)))
            };
            let usable_aliases: Vec<String> = sc.long_flag_aliases.iter().map(|x| x.0.clone()).filter(|a| !claimed_by_arg(a)).collect();
            if !stats.no_flag_subcommand_forms {
                if !usable_aliases.is_empty() {
                    forms.push(6);
                }
                if !sc.short_flag_aliases.is_empty() {
                    forms.push(7);
                }
            }
            if sc.short_flag.is_some() && !stats.no_flag_subcommand_forms {
                forms.push(4);
                if first_is_short_flag {
                    forms.push(5);
                    forms.push(5);
                }
            }
            if level.settings.infer_subcommands && !sc.aliases.is_empty() {
                forms.push(8);
            }
            let long_flag_shadowed = sc.long_flag.as_ref().map(|lf| {
                level.settings.infer_long_args
                    && level.args.iter().any(|a| a.long.iter().chain(a.aliases.iter().map(|x| &x.0)).any(|l| l.starts_with(lf.as_str())))
            });
            if level.settings.infer_subcommands && long_flag_shadowed == Some(false) && !stats.no_flag_subcommand_forms {
                forms.push(9);
            }
            if stats.only_long_flag_forms && long_flag_shadowed == Some(false) {
                // C08: both spellings of a pair name the subcommand through its long flag, an alias of it or a prefix
                forms.retain(|f| matches!(f, 3 | 6 | 9));
            } else if stats.only_long_flag_forms {
                forms.retain(|f| matches!(f, 0 | 1 | 2 | 8));
            }
            match *t.pick(&forms) {
                0 => argv.push(sc.name.clone().into_bytes()),
                1 => {
                    stats.alias = true;
                    argv.push(t.pick(&sc.aliases).0.clone().into_bytes())
                }
                2 => {
                    // an unambiguous proper prefix of the name, if there is one
                    let chars: Vec<char> = sc.name.chars().collect();
                    let mut done = false;
                    for n in (1..chars.len()).rev() {
                        let p: String = chars[..n].iter().collect();
                        if sub_prefix_unique(level, &p, &sc.name) && t.chance(1, 2) {
                            argv.push(p.into_bytes());
                            stats.prefix = true;
                            done = true;
                            break;
                        }
                    }
                    if !done {
                        argv.push(sc.name.clone().into_bytes());
                    }
                }
                3 => {
                    stats.flag_subcommand = true;
                    argv.push(format!("--{}", sc.long_flag.as_ref().unwrap()).into_bytes())
                }
                4 => {
                    stats.flag_subcommand = true;
                    argv.push(format!("-{}", sc.short_flag.unwrap()).into_bytes())
                }
                6 => {
                    stats.flag_subcommand = true;
                    stats.alias = true;
                    argv.push(format!("--{}", t.pick(&usable_aliases)).into_bytes())
                }
                8 => {
                    // an alias, or an unambiguous proper prefix of it (inference counts every spelling)
                    let al = t.pick(&sc.aliases).0.clone();
                    let chars: Vec<char> = al.chars().collect();
                    let mut tok = al.clone();
                    for n in (1..chars.len()).rev() {
                        let p: String = chars[..n].iter().collect();
                        if sub_spelling_prefix_unique(level, &p) && t.chance(1, 2) {
                            tok = p;
                            stats.prefix = true;
                            break;
                        }
                    }
                    stats.alias = true;
                    argv.push(tok.into_bytes());
                }
                9 => {
                    // the long flag or one of its aliases, or an unambiguous proper prefix of one of them
                    let mut sp: Vec<String> = vec![sc.long_flag.clone().unwrap()];
                    sp.extend(usable_aliases.iter().cloned());
                    let full = t.pick(&sp).clone();
                    let chars: Vec<char> = full.chars().collect();
                    let mut tok = full.clone();
                    for n in (1..chars.len()).rev() {
                        let p: String = chars[..n].iter().collect();
                        if long_flag_prefix_unique(level, &p) && t.chance(1, 2) {
                            tok = p;
                            stats.prefix = true;
                            break;
                        }
                    }
                    stats.flag_subcommand = true;
                    argv.push(format!("--{tok}").into_bytes());
                }
                7 => {
                    stats.flag_subcommand = true;
                    stats.alias = true;
                    argv.push(format!("-{}", t.pick(&sc.short_flag_aliases).0).into_bytes())
                }
                _ => {
                    // `-Sab`: the letter opens the sub level's first cluster
                    stats.flag_subcommand = true;
                    cluster_entry[li + 1] = true;
                    PENDING_CLUSTER.with(|c| *c.borrow_mut() = Some(sc.short_flag.unwrap().to_string()));
                }
            }
            level = sc;
        }
    }
    PENDING_CLUSTER.with(|c| c.borrow_mut().take());
    Some(Spelled { argv, cluster_entry })
}

thread_local! {
    static PENDING_CLUSTER: std::cell::RefCell<Option<String>> = const { std::cell::RefCell::new(None) };
}

/// exactly one spelling (name or alias of any subcommand of the level) starts with `p`
fn sub_spelling_prefix_unique(level: &CmdSpec, p: &str) -> bool {
    let hits: usize = level.subs.iter().map(|sc| sc.all_names().iter().filter(|n| n.starts_with(p)).count()).sum();
    hits == 1 && !"help".starts_with(p)
}

/// exactly one long-flag spelling (long flag or long-flag alias of a subcommand that has a long flag) starts with
/// `p`, and no argument of the level or generated flag could claim `--p`
fn long_flag_prefix_unique(level: &CmdSpec, p: &str) -> bool {
    let mut hits = 0;
    for sc in &level.subs {
        // (subcommands that only have long-flag aliases take part in the inference as well)
        hits += usize::from(sc.long_flag.as_deref().map(|lf| lf.starts_with(p)).unwrap_or(false));
        hits += sc.long_flag_aliases.iter().filter(|a| a.0.starts_with(p)).count();
    }
    let claimed = level.args.iter().any(|a| a.long.iter().chain(a.aliases.iter().map(|x| &x.0)).any(|l| l.starts_with(p)))
        || "help".starts_with(p)
        || "version".starts_with(p);
    hits == 1 && !claimed
}

fn sub_prefix_unique(level: &CmdSpec, p: &str, target: &str) -> bool {
    // mirrors the documented rule: exactly one subcommand has a name/alias starting with p,
    // and p is not itself an exact spelling of another one
    let mut hits = 0;
    for sc in &level.subs {
        if sc.all_names().iter().any(|n| n.starts_with(p)) {
            hits += 1;
            if sc.name != target {
                return false;
            }
        }
    }
    // the generated help subcommand also takes part in inference
    if "help".starts_with(p) {
        return false;
    }
    hits == 1
}

pub fn long_prefix_unique(level: &CmdSpec, p: &str, target_id: &str) -> bool {
    let mut hits = 0;
    for a in &level.args {
        let mut names: Vec<&String> = a.long.iter().collect();
        names.extend(a.aliases.iter().map(|x| &x.0));
        if names.iter().any(|n| n.as_str() == p) && a.id != target_id {
            return false;
        }
        if names.iter().any(|n| n.starts_with(p)) {
            hits += 1;
            if a.id != target_id {
                return false;
            }
        }
    }
    // generated flags and long flag subcommands take part too
    for g in ["help", "version"] {
        if g.starts_with(p) {
            return false;
        }
    }
    for sc in &level.subs {
        if let Some(l) = &sc.long_flag {
            if l.starts_with(p) {
                return false;
            }
        }
    }
    hits == 1
}

fn pick_short(t: &mut Tape<'_>, a: &ArgSpec, stats: &mut SpellStats) -> char {
    let mut cs: Vec<char> = a.short.into_iter().collect();
    cs.extend(a.short_aliases.iter().map(|x| x.0));
    let c = *t.pick(&cs);
    if Some(c) != a.short {
        stats.alias = true;
    }
    c
}

fn pick_long(t: &mut Tape<'_>, a: &ArgSpec, level: &CmdSpec, stats: &mut SpellStats) -> Option<String> {
    let mut names: Vec<&String> = a.long.iter().collect();
    names.extend(a.aliases.iter().map(|x| &x.0));
    if names.is_empty() {
        return None;
    }
    let n = (*t.pick(&names)).clone();
    if Some(&n) != a.long.as_ref() {
        stats.alias = true;
    }
    if level.settings.infer_long_args && t.chance(1, 3) {
        let chars: Vec<char> = n.chars().collect();
        for k in (1..chars.len()).rev() {
            let p: String = chars[..k].iter().collect();
            if long_prefix_unique(level, &p, &a.id) && t.chance(1, 2) {
                stats.prefix = true;
                return Some(p);
            }
        }
    }
    Some(n)
}

fn spell_flag(t: &mut Tape<'_>, a: &ArgSpec, level: &CmdSpec, stats: &mut SpellStats) -> String {
    if stats.cur_level == stats.hook_level && stats.flag_equals.as_deref() == Some(a.id.as_str()) {
        if let Some(l) = &a.long {
            return format!("--{l}=x");
        }
    }
    let has_short = a.short.is_some() || !a.short_aliases.is_empty();
    let long = pick_long(t, a, level, stats);
    match (long, has_short) {
        (Some(l), true) => {
            if t.bool() {
                format!("--{l}")
            } else {
                format!("-{}", pick_short(t, a, stats))
            }
        }
        (Some(l), false) => format!("--{l}"),
        (None, _) => format!("-{}", pick_short(t, a, stats)),
    }
}

fn sep_ok(v: &[u8], a: &ArgSpec) -> bool {
    // a separated value may not look like a flag and may not be the terminator
    if v.first() == Some(&b'-') && v != b"-" {
        return false;
    }
    if let Some(term) = &a.value_terminator {
        if v == term.as_bytes() {
            return false;
        }
    }
    true
}

/// Tokens for one option occurrence. `must_short`: the caller splices a cluster in front.
#[allow(clippy::too_many_arguments)]
fn spell_opt(
    t: &mut Tape<'_>,
    a: &ArgSpec,
    values: &[Bytes],
    next: Option<&Occ>,
    next_is_sub: bool,
    must_short: bool,
    level: &CmdSpec,
    stats: &mut SpellStats,
) -> Option<Vec<Bytes>> {
    let (lo, hi) = a.value_range();
    // is the option closed by what follows, if it is left open?
    let closed_by_next = match next {
        None => !next_is_sub,
        Some(Occ::Flag { .. }) | Some(Occ::Opt { .. }) | Some(Occ::Escape) => true,
        Some(Occ::Pos { .. }) => false,
    };
    let has_short = a.short.is_some() || !a.short_aliases.is_empty();
    let use_short = if must_short {
        true
    } else if a.long.is_none() && a.aliases.is_empty() {
        true
    } else if has_short {
        t.bool()
    } else {
        false
    };
    let switch: String = if use_short {
        if must_short {
            format!("-{}", a.short?)
        } else {
            format!("-{}", pick_short(t, a, stats))
        }
    } else {
        format!("--{}", pick_long(t, a, level, stats)?)
    };
    let term = a.value_terminator.as_ref().map(|s| s.as_bytes().to_vec());
    let k = values.len();
    let mut out: Vec<Bytes> = Vec::new();
    if k == 0 {
        // a bare switch: nothing that follows may be taken as its value
        let inert = a.require_equals || hi == 0;
        if inert || closed_by_next {
            out.push(switch.into_bytes());
            return Some(out);
        }
        if let Some(term) = term {
            out.push(switch.into_bytes());
            out.push(term);
            stats.terminator = true;
            return Some(out);
        }
        return None;
    }
    // delimiter-joined single token?
    let joinable = a.value_delimiter.is_some() && lo <= 1 && k >= 2 && values.iter().all(|v| !v.is_empty() || true);
    let join = |vals: &[Bytes], d: char| -> Bytes {
        let mut buf = [0u8; 4];
        let db = d.encode_utf8(&mut buf).as_bytes().to_vec();
        let mut o = Vec::new();
        for (i, v) in vals.iter().enumerate() {
            if i > 0 {
                o.extend_from_slice(&db);
            }
            o.extend_from_slice(v);
        }
        o
    };
    let single: Option<Bytes> = if k == 1 {
        // a lone value of a delimited argument must not be empty-by-split ambiguity: "" stays ""
        Some(values[0].clone())
    } else if joinable && (a.require_equals || t.chance(1, 2)) {
        stats.delim_joined = true;
        Some(join(values, a.value_delimiter.unwrap()))
    } else {
        None
    };
    if let Some(v) = single {
        if stats.cur_level == stats.hook_level && stats.force_separated.as_deref() == Some(a.id.as_str()) {
            if !sep_ok(&v, a) {
                return None;
            }
            out.push(switch.into_bytes());
            out.push(v);
            if hi > 1 && !closed_by_next {
                out.push(term.clone()?);
            }
            return Some(out);
        }
        if stats.cur_level == stats.hook_level && stats.force_equals.as_deref() == Some(a.id.as_str()) {
            let mut tok = switch.into_bytes();
            tok.push(b'=');
            tok.extend_from_slice(&v);
            out.push(tok);
            return Some(out);
        }
        // forms for exactly one raw token
        let mut forms: Vec<u8> = Vec::new();
        // 0: switch=v   1: -sv   2: switch v
        forms.push(0);
        if use_short && !a.require_equals && !v.is_empty() && v[0] != b'=' {
            forms.push(1);
        }
        let open_after = hi > 1;
        if !a.require_equals && sep_ok(&v, a) && (!open_after || closed_by_next || term.is_some()) {
            forms.push(2);
        }
        match *t.pick(&forms) {
            0 => {
                let mut tok = switch.into_bytes();
                tok.push(b'=');
                tok.extend_from_slice(&v);
                out.push(tok);
                stats.equals_form = true;
                stats.attached = true;
            }
            1 => {
                let mut tok = switch.into_bytes();
                tok.extend_from_slice(&v);
                out.push(tok);
                stats.attached = true;
            }
            _ => {
                out.push(switch.into_bytes());
                out.push(v);
                if open_after && !closed_by_next {
                    out.push(term.clone()?);
                    stats.terminator = true;
                } else if open_after && matches!(next, Some(Occ::Pos { .. })) {
                    stats.variable_opt_before_pos = true;
                }
            }
        }
        return Some(out);
    }
    // k >= 2 separated values
    if a.require_equals {
        return None;
    }
    if !values.iter().all(|v| sep_ok(v, a)) {
        return None;
    }
    out.push(switch.into_bytes());
    out.extend(values.iter().cloned());
    if k < hi {
        if !closed_by_next {
            out.push(term.clone()?);
            stats.terminator = true;
        } else if term.is_some() && t.chance(1, 3) {
            out.push(term.clone()?);
            stats.terminator = true;
        }
    }
    Some(out)
}

// ------------------------------------------------------- expected result

#[derive(Clone, Debug, PartialEq, Eq)]
pub struct ExpArg {
    pub occurrences: Vec<Vec<Bytes>>,
    pub indices: Vec<usize>,
    pub positional: bool,
    /// positional given as more than one occurrence (grouping not compared)
    pub interleaved: bool,
}

#[derive(Clone, Debug, Default)]
pub struct ExpLevel {
    /// arguments supplied on the command line
    pub args: BTreeMap<String, ExpArg>,
    pub sub: Option<String>,
}

fn split_delim(vals: &[Bytes], d: Option<char>) -> Vec<Bytes> {
    let Some(d) = d else { return vals.to_vec() };
    let mut buf = [0u8; 4];
    let db = d.encode_utf8(&mut buf).as_bytes().to_vec();
    let mut out = Vec::new();
    for v in vals {
        if !v.windows(db.len()).any(|w| w == db.as_slice()) {
            out.push(v.clone());
            continue;
        }
        let mut start = 0;
        let mut i = 0;
        while i + db.len() <= v.len() {
            if v[i..i + db.len()] == db[..] {
                out.push(v[start..i].to_vec());
                i += db.len();
                start = i;
            } else {
                i += 1;
            }
        }
        out.push(v[start..].to_vec());
    }
    out
}

/// The documented result of an intended invocation, per level.
/// `index_base[k]` = logical index counter at the start of level k (non-zero only when the
/// level was entered through a short flag-subcommand cluster).
pub fn expect(spec: &CmdSpec, inv: &Invocation, cluster_entry: &[bool]) -> Option<Vec<ExpLevel>> {
    let mut out = Vec::new();
    let mut level = spec;
    let mut carry = 0usize;
    for (li, lv) in inv.levels.iter().enumerate() {
        let mut el = ExpLevel::default();
        let mut c = if cluster_entry.get(li).copied().unwrap_or(false) { carry + 1 } else { 0 };
        let mut prev_pos: Option<String> = None; // positional whose occurrence is still open
        for occ in &lv.occs {
            if !matches!(occ, Occ::Escape | Occ::Pos { .. }) {
                prev_pos = None;
            }
            match occ {
                Occ::Escape => {}
                Occ::Flag { arg } => {
                    let a = level.arg(arg)?;
                    c += 1;
                    let e = el.args.entry(arg.clone()).or_insert(ExpArg {
                        occurrences: vec![],
                        indices: vec![],
                        positional: false,
                        interleaved: false,
                    });
                    match a.action {
                        // (a declared default_missing_value replaces the implicit one of the flag action)
                        Action::SetTrue => {
                            let raw = a.default_missing_values.first().map(|s| s.as_bytes().to_vec()).unwrap_or_else(|| b"true".to_vec());
                            e.occurrences = vec![vec![raw]];
                            e.indices = vec![c];
                        }
                        Action::SetFalse => {
                            let raw = a.default_missing_values.first().map(|s| s.as_bytes().to_vec()).unwrap_or_else(|| b"false".to_vec());
                            e.occurrences = vec![vec![raw]];
                            e.indices = vec![c];
                        }
                        Action::Count => {
                            let prev: u64 = e
                                .occurrences
                                .first()
                                .and_then(|o| o.first())
                                .and_then(|v| String::from_utf8_lossy(v).parse().ok())
                                .unwrap_or(0);
                            let n = (prev + 1).min(255);
                            e.occurrences = vec![vec![n.to_string().into_bytes()]];
                            e.indices = vec![c];
                        }
                        _ => return None,
                    }
                }
                Occ::Opt { arg, values } => {
                    let a = level.arg(arg)?;
                    c += 1; // the switch
                    let vals: Vec<Bytes> = if values.is_empty() {
                        let dm: Vec<Bytes> = a.default_missing_values.iter().map(|s| s.as_bytes().to_vec()).collect();
                        split_delim(&dm, a.value_delimiter)
                    } else {
                        values.clone()
                    };
                    let mut idx = Vec::new();
                    for _ in &vals {
                        c += 1;
                        idx.push(c);
                    }
                    let e = el.args.entry(arg.clone()).or_insert(ExpArg {
                        occurrences: vec![],
                        indices: vec![],
                        positional: false,
                        interleaved: false,
                    });
                    if a.action == Action::Append {
                        e.occurrences.push(vals);
                        e.indices.extend(idx);
                    } else {
                        e.occurrences = vec![vals];
                        e.indices = idx;
                    }
                }
                Occ::Pos { arg, values } => {
                    let a = level.arg(arg)?;
                    let mut idx = Vec::new();
                    for _ in values {
                        c += 1;
                        idx.push(c);
                    }
                    let e = el.args.entry(arg.clone()).or_insert(ExpArg {
                        occurrences: vec![],
                        indices: vec![],
                        positional: true,
                        interleaved: false,
                    });
                    let continues = prev_pos.as_deref() == Some(arg.as_str()) && (a.value_range().1 > 1);
                    if continues {
                        // the marker does not end a multi-value positional's occurrence
                        e.occurrences.last_mut()?.extend(values.iter().cloned());
                        e.indices.extend(idx);
                    } else {
                        if !e.occurrences.is_empty() {
                            e.interleaved = true;
                        }
                        if a.action == Action::Append || e.occurrences.is_empty() {
                            e.occurrences.push(values.clone());
                            e.indices.extend(idx);
                        } else {
                            return None;
                        }
                    }
                    prev_pos = Some(arg.clone());
                }
            }
        }
        el.sub = lv.sub.clone();
        out.push(el);
        carry = c;
        if let Some(name) = &lv.sub {
            level = level.subs.iter().find(|s| s.name == *name)?;
        }
    }
    Some(out)
}

pub enum Expected {
    Ok(Vec<ExpLevel>),
    /// occurrences that repeat an argument without override permission: (level, id). Which one
    /// is reported first depends on when pending values are resolved, any of them justifies the error.
    Conflict { candidates: Vec<(usize, String)> },
}

/// Sequential model including overrides: on an occurrence of X every present Y with `X overrides Y`
/// or `Y overrides X` is removed first; a repeated Set/SetTrue/SetFalse without permission is a conflict.
pub fn expect_seq(spec: &CmdSpec, inv: &Invocation, cluster_entry: &[bool]) -> Option<Expected> {
    let mut conflicts: Vec<(usize, String)> = Vec::new();
    let mut out = Vec::new();
    let mut level = spec;
    let mut carry = 0usize;
    for (li, lv) in inv.levels.iter().enumerate() {
        let mut el = ExpLevel::default();
        let mut c = if cluster_entry.get(li).copied().unwrap_or(false) { carry + 1 } else { 0 };
        let mut prev_pos: Option<String> = None;
        for occ in &lv.occs {
            if !matches!(occ, Occ::Escape | Occ::Pos { .. }) {
                prev_pos = None;
            }
            let (arg, values, is_pos): (&String, Option<&Vec<Bytes>>, bool) = match occ {
                Occ::Escape => continue,
                Occ::Flag { arg } => (arg, None, false),
                Occ::Opt { arg, values } => (arg, Some(values), false),
                Occ::Pos { arg, values } => (arg, Some(values), true),
            };
            let a = level.arg(arg)?;
            let continues = is_pos && prev_pos.as_deref() == Some(arg.as_str()) && a.value_range().1 > 1;
            if !is_pos {
                c += 1; // the switch
            }
            // the count a Count flag continues from
            let prev_count: u64 = el
                .args
                .get(arg)
                .and_then(|e| e.occurrences.first())
                .and_then(|o| o.first())
                .and_then(|v| String::from_utf8_lossy(v).parse().ok())
                .unwrap_or(0);
            let self_ok = level.settings.args_override_self || a.overrides_with.contains(&a.id);
            if !continues {
                match a.action {
                    Action::Set | Action::SetTrue | Action::SetFalse => {
                        if el.args.contains_key(arg) && !self_ok {
                            conflicts.push((li, arg.clone()));
                        }
                        el.args.remove(arg);
                    }
                    Action::Count => {
                        el.args.remove(arg);
                    }
                    _ => {}
                }
                // overrides, both directions
                for o in &a.overrides_with {
                    el.args.remove(o);
                }
                let overriders: Vec<String> = el
                    .args
                    .keys()
                    .filter(|y| level.arg(y).map(|ya| ya.overrides_with.contains(arg)).unwrap_or(false))
                    .cloned()
                    .collect();
                for y in overriders {
                    el.args.remove(&y);
                }
            }
            let vals: Vec<Bytes> = match (a.action, values) {
                (Action::SetTrue, _) => vec![a.default_missing_values.first().map(|s| s.as_bytes().to_vec()).unwrap_or_else(|| b"true".to_vec())],
                (Action::SetFalse, _) => vec![a.default_missing_values.first().map(|s| s.as_bytes().to_vec()).unwrap_or_else(|| b"false".to_vec())],
                (Action::Count, _) => vec![(prev_count + 1).min(255).to_string().into_bytes()],
                (_, Some(v)) if v.is_empty() && !is_pos => {
                    let dm: Vec<Bytes> = a.default_missing_values.iter().map(|s| s.as_bytes().to_vec()).collect();
                    split_delim(&dm, a.value_delimiter)
                }
                (_, Some(v)) => v.clone(),
                _ => return None,
            };
            let mut idx = Vec::new();
            if !a.action.takes_values() {
                // a flag's stored value sits at the switch's own index
                idx.push(c);
            } else {
                for _ in &vals {
                    c += 1;
                    idx.push(c);
                }
            }
            let e = el.args.entry(arg.clone()).or_insert(ExpArg {
                occurrences: vec![],
                indices: vec![],
                positional: is_pos,
                interleaved: false,
            });
            if continues {
                e.occurrences.last_mut()?.extend(vals);
                e.indices.extend(idx);
            } else {
                if is_pos && !e.occurrences.is_empty() {
                    e.interleaved = true;
                }
                e.occurrences.push(vals);
                e.indices.extend(idx);
            }
            if is_pos {
                prev_pos = Some(arg.clone());
            }
        }
        el.sub = lv.sub.clone();
        out.push(el);
        carry = c;
        if let Some(name) = &lv.sub {
            level = level.subs.iter().find(|s| s.name == *name)?;
        }
    }
    if !conflicts.is_empty() {
        return Some(Expected::Conflict { candidates: conflicts });
    }
    Some(Expected::Ok(out))
}

/// Compare the explicit (command-line) part of an observation with the expectation.
pub fn compare_explicit(spec: &CmdSpec, exp: &[ExpLevel], obs: &LevelObs, check_indices: bool) -> Result<(), (String, String)> {
    compare_explicit_opts(spec, exp, obs, check_indices, false)
}

/// `skip_globals`: global arguments are judged separately (their values travel between levels).
pub fn compare_explicit_opts(
    spec: &CmdSpec,
    exp: &[ExpLevel],
    obs: &LevelObs,
    check_indices: bool,
    skip_globals: bool,
) -> Result<(), (String, String)> {
    let mut level_spec = spec;
    let mut o = obs;
    for (li, el) in exp.iter().enumerate() {
        let explicit: Vec<&crate::observe::ArgObs> = o
            .args
            .iter()
            .filter(|a| a.source == Some(Source::CommandLine))
            .filter(|a| level_spec.args.iter().any(|s| s.id == a.id && !(skip_globals && s.global)))
            .collect();
        for a in &explicit {
            if !el.args.contains_key(&a.id) {
                return Err((
                    "attribution:invented-argument".into(),
                    format!("level {li}: {:?} is reported as given on the command line with {:?} but was never supplied", a.id, show_occ(&a.occurrences)),
                ));
            }
        }
        for (id, e) in &el.args {
            if skip_globals && level_spec.arg(id).map(|a| a.global).unwrap_or(true) {
                continue;
            }
            let Some(a) = explicit.iter().find(|a| a.id == *id) else {
                return Err((
                    "attribution:dropped-argument".into(),
                    format!("level {li}: {:?} was supplied ({:?}) but is not reported as a command-line argument", id, show_occ(&e.occurrences)),
                ));
            };
            let same = if e.positional && e.interleaved {
                a.flat() == e.occurrences.iter().flatten().cloned().collect::<Vec<_>>()
            } else {
                a.occurrences == e.occurrences
            };
            if !same {
                return Err((
                    "attribution:values-differ".into(),
                    format!(
                        "level {li}: {:?} expected occurrences {:?} but clap reports {:?}",
                        id,
                        show_occ(&e.occurrences),
                        show_occ(&a.occurrences)
                    ),
                ));
            }
            if check_indices && a.indices != e.indices {
                return Err((
                    "attribution:indices-differ".into(),
                    format!("level {li}: {:?} expected indices {:?} but clap reports {:?}", id, e.indices, a.indices),
                ));
            }
        }
        match (&el.sub, &o.sub) {
            (None, None) => {}
            (Some(n), Some((m, s))) => {
                if n != m {
                    return Err((
                        "dispatch:wrong-subcommand".into(),
                        format!("level {li}: expected subcommand {n:?} but clap reports {m:?}"),
                    ));
                }
                level_spec = level_spec.subs.iter().find(|x| x.name == *n).ok_or(("harness:spec".to_string(), "sub missing".to_string()))?;
                o = s;
            }
            (e, g) => {
                return Err((
                    "dispatch:subcommand-presence".into(),
                    format!("level {li}: expected subcommand {:?} but clap reports {:?}", e, g.as_ref().map(|x| &x.0)),
                ))
            }
        }
    }
    Ok(())
}

pub fn show_occ(o: &[Vec<Bytes>]) -> Vec<Vec<String>> {
    o.iter().map(|g| g.iter().map(|v| vcore::show_bytes(v)).collect()).collect()
}
