//! Shared models: command specification, generators, observation.

pub mod argv;
pub mod conv;
pub mod gen;
pub mod observe;
pub mod spec;

pub use spec::*;
