//! Shared models (CmdSpec etc.)
