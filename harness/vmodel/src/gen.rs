//! Broad generator of command trees: anything the builder API accepts that is
//! likely to pass clap's own configuration checks. Constructed, not filtered:
//! names are drawn without replacement per level, positionals follow the index
//! rules, relation targets always exist.

use crate::spec::*;
use vcore::Tape;

#[derive(Clone, Debug)]
pub struct GenOpts {
    pub max_depth: usize,
    pub max_args: usize,
    pub max_subs: usize,
    /// conflicts / requires / groups / required_if / overrides ...
    pub relations: bool,
    /// about/help/heading/template/width surface
    pub help_surface: bool,
    /// allow_hyphen_values, negative numbers, trailing var arg ...
    pub hyphen_values: bool,
    pub globals: bool,
    pub flag_subcommands: bool,
    pub external: bool,
    pub env: bool,
    pub defaults: bool,
    /// command-level settings that change token classification
    pub exotic_settings: bool,
    pub ignore_errors: bool,
    pub help_version_actions: bool,
    /// text pool for every descriptive slot (None: short innocuous words)
    pub texts: Option<&'static [&'static str]>,
    /// multiplier for the probability of each relation kind
    pub relation_weight: u32,
    /// only alphanumeric shorts and ASCII longs (scripts quote names in shell-specific ways)
    pub safe_names: bool,
}

impl Default for GenOpts {
    fn default() -> Self {
        GenOpts {
            max_depth: 3,
            max_args: 7,
            max_subs: 3,
            relations: true,
            help_surface: false,
            hyphen_values: true,
            globals: true,
            flag_subcommands: true,
            external: true,
            env: true,
            defaults: true,
            exotic_settings: true,
            ignore_errors: true,
            help_version_actions: true,
            texts: None,
            relation_weight: 1,
            safe_names: false,
        }
    }
}

pub const LONGS: &[&str] = &[
    "alpha", "alpine", "al", "beta", "bet", "gamma", "delta", "del", "verbose", "verb", "color", "col", "opt", "opt-in",
    "no-opt", "long-name", "x", "config", "conf", "\u{fc}ber", "f", "flag", "file", "num", "n-1",
];
pub const SHORTS: &[char] = &[
    'a', 'b', 'c', 'd', 'e', 'f', 'g', 'v', 'x', 'n', 'o', 'q', 'S', 'Q', '1', '2', '\u{e9}', '=', '.', '?',
];
pub const SUBS: &[&str] = &[
    "sub", "sub-one", "one", "add", "ad", "remove", "rm", "install", "in", "list", "ls", "run", "r\u{fc}n", "x_y", "test",
];
pub const VALUES: &[&str] = &[
    "v", "val", "1", "-1", "0", "42", "abc", "", "a,b", "a b", "x=y", "true", "false", "yes", "-x", "--opt", "sub", "one",
    "\u{e9}t\u{e9}", ";", "255", "256", "-", "--",
];
pub const WORDS: &[&str] = &["help", "text", "some", "longer", "words", "about", "the", "thing", "value", "option"];

fn take<T: Clone>(t: &mut Tape<'_>, pool: &mut Vec<T>) -> Option<T> {
    if pool.is_empty() {
        return None;
    }
    let i = t.choose(pool.len());
    Some(pool.remove(i))
}

pub fn gen_text(t: &mut Tape<'_>, opts: &GenOpts) -> String {
    if let Some(pool) = opts.texts {
        return (*t.pick(pool)).to_owned();
    }
    let n = match t.weighted(&[6, 3, 1]) {
        0 => t.range(1, 3),
        1 => t.range(3, 12),
        _ => t.range(12, 40),
    };
    let mut s = String::new();
    for i in 0..n {
        if i > 0 {
            s.push(if t.chance(1, 12) { '\n' } else { ' ' });
        }
        s.push_str(t.pick_s(WORDS));
    }
    s
}

fn opt_text(t: &mut Tape<'_>, opts: &GenOpts, num: u32, den: u32) -> Option<String> {
    if t.chance(num, den) {
        Some(gen_text(t, opts))
    } else {
        None
    }
}

pub fn gen_parser(t: &mut Tape<'_>) -> ParserSpec {
    match t.weighted(&[10, 2, 1, 1, 3, 1, 1, 1, 1, 1, 4]) {
        0 => ParserSpec::Str,
        1 => ParserSpec::OsStr,
        2 => ParserSpec::PathBuf,
        3 => ParserSpec::NonEmpty,
        4 => {
            let (lo, hi) = *t.pick(&[(i64::MIN, i64::MAX), (-10, 10), (0, 255), (1, 1), (-1, 100), (i64::MIN, -1)]);
            ParserSpec::I64 { lo, hi }
        }
        5 => ParserSpec::U8,
        6 => ParserSpec::U16 { lo: 1, hi: 1000 },
        7 => ParserSpec::Bool,
        8 => ParserSpec::Boolish,
        9 => ParserSpec::Falsey,
        _ => {
            let mut names = vec!["fast", "slow", "auto", "always", "never", "a", "A", "fa", "x-y", "1", "gr\u{f6}\u{df}e", "h\u{f6}he", "\u{5b57}"];
            let n = t.range(1, 4);
            let mut pvs = Vec::new();
            for _ in 0..n {
                if let Some(name) = take(t, &mut names) {
                    let mut pv = PvSpec {
                        name: name.to_owned(),
                        ..Default::default()
                    };
                    if t.chance(1, 4) {
                        if let Some(al) = take(t, &mut names) {
                            pv.aliases.push(al.to_owned());
                        }
                    }
                    pv.hide = t.chance(1, 6);
                    if t.chance(1, 3) {
                        pv.help = Some((*t.pick(WORDS)).to_owned());
                    }
                    pvs.push(pv);
                }
            }
            ParserSpec::Possible(pvs)
        }
    }
}

/// A value the parser accepts (used for defaults and for argv that should succeed).
pub fn good_value(t: &mut Tape<'_>, p: &ParserSpec) -> String {
    match p {
        ParserSpec::Str | ParserSpec::OsStr | ParserSpec::PathBuf => (*t.pick(&["v", "val", "1", "abc", "x=y", "a b", "\u{e9}"])).to_owned(),
        ParserSpec::NonEmpty => (*t.pick(&["v", "val", "1"])).to_owned(),
        ParserSpec::I64 { lo, hi } => {
            let c = [*lo, *hi, lo.saturating_add(1), hi.saturating_sub(1), 0, 1, -1];
            let ok: Vec<i64> = c.iter().copied().filter(|x| x >= lo && x <= hi).collect();
            ok[t.choose(ok.len())].to_string()
        }
        ParserSpec::U8 => (*t.pick(&["0", "7", "255"])).to_owned(),
        ParserSpec::U16 { lo, hi } => (*t.pick(&[*lo, *hi, (*lo + *hi) / 2])).to_string(),
        ParserSpec::Bool => (*t.pick(&["true", "false"])).to_owned(),
        ParserSpec::Boolish => (*t.pick(&["yes", "no", "on", "off", "1", "0", "true", "false"])).to_owned(),
        ParserSpec::Falsey => (*t.pick(&["no", "0", "anything", "false"])).to_owned(),
        ParserSpec::Possible(pvs) => {
            let pv = t.pick(pvs);
            if !pv.aliases.is_empty() && t.chance(1, 3) {
                t.pick(&pv.aliases).clone()
            } else {
                pv.name.clone()
            }
        }
    }
}

struct LevelPools {
    longs: Vec<&'static str>,
    shorts: Vec<char>,
    subs: Vec<&'static str>,
}

pub fn gen_broad(t: &mut Tape<'_>, opts: &GenOpts) -> CmdSpec {
    let mut root = gen_level(t, opts, 0, "prog", &Inherit::default());
    if opts.help_surface {
        root.term_width = Some(match t.weighted(&[2, 3, 3, 1]) {
            0 => 0,
            1 => t.range(1, 30),
            2 => t.range(30, 200),
            _ => 80,
        });
        if t.chance(1, 5) {
            root.max_term_width = Some(t.range(0, 120));
        }
    } else {
        // never query the terminal
        root.term_width = Some(80);
    }
    if t.chance(1, 4) {
        root.bin_name = Some((*t.pick(&["prog", "my-prog", "p", "my prog"])).to_owned());
    }
    if t.chance(1, 10) {
        root.display_name = Some("Prog".to_owned());
    }
    root
}

#[derive(Default, Clone)]
struct Inherit {
    globals: Vec<ArgSpec>,
    help_flag_disabled: bool,
    version_flag_disabled: bool,
    /// an ancestor propagates a version down
    version_propagated: bool,
}

fn gen_level(t: &mut Tape<'_>, opts: &GenOpts, depth: usize, name: &str, inh: &Inherit) -> CmdSpec {
    let inherited_globals: &[ArgSpec] = &inh.globals;
    let mut c = CmdSpec {
        name: name.to_owned(),
        ..Default::default()
    };
    let mut pools = LevelPools {
        longs: LONGS.to_vec(),
        shorts: SHORTS.to_vec(),
        subs: SUBS.to_vec(),
    };
    if opts.safe_names {
        pools.longs.retain(|l| l.is_ascii());
        pools.shorts.retain(|c| c.is_ascii_alphanumeric());
        pools.subs.retain(|l| l.is_ascii());
    }
    // names taken by globals propagated from above
    for g in inherited_globals {
        if let Some(l) = &g.long {
            pools.longs.retain(|x| x != l);
        }
        for (al, _) in &g.aliases {
            pools.longs.retain(|x| x != al);
        }
        if let Some(s) = g.short {
            pools.shorts.retain(|x| *x != s);
        }
        for (al, _) in &g.short_aliases {
            pools.shorts.retain(|x| x != al);
        }
    }
    let s = &mut c.settings;
    // ---- settings
    if opts.exotic_settings {
        s.args_conflicts_with_subcommands = t.chance(1, 6);
        s.subcommand_precedence_over_arg = t.chance(1, 6);
        s.subcommand_negates_reqs = t.chance(1, 5);
        s.allow_missing_positional = t.chance(1, 8);
        s.infer_long_args = t.chance(1, 5);
        s.infer_subcommands = t.chance(1, 5);
        s.args_override_self = t.chance(1, 6);
        s.dont_delimit_trailing_values = t.chance(1, 8);
        s.arg_required_else_help = t.chance(1, 10);
        s.subcommand_required = t.chance(1, 8);
        if depth == 0 {
            s.no_binary_name = t.chance(1, 12);
        }
    }
    if opts.ignore_errors && depth == 0 {
        s.ignore_errors = t.chance(1, 4);
    }
    s.disable_help_flag = t.chance(1, 8);
    s.disable_help_subcommand = t.chance(1, 8);
    s.disable_version_flag = t.chance(1, 8);
    if t.chance(1, 3) {
        c.version = Some((*t.pick(&["1.0", "0.1.0-alpha", "v2"])).to_owned());
        if t.chance(1, 4) {
            c.long_version = Some("1.0 (long\nversion)".to_owned());
        }
        c.settings.propagate_version = t.chance(1, 4);
    }
    let help_off = c.settings.disable_help_flag || inh.help_flag_disabled;
    let version_off = c.settings.disable_version_flag
        || inh.version_flag_disabled
        || (c.version.is_none() && !inh.version_propagated);
    if help_off {
        pools.longs.push("help");
        pools.shorts.push('h');
    }
    if version_off {
        pools.longs.push("version");
        pools.shorts.push('V');
    }
    let has_version = c.version.is_some() || inh.version_propagated;
    if c.settings.disable_help_subcommand {
        pools.subs.push("help");
    }
    let multicall = opts.exotic_settings && depth == 0 && !c.settings.no_binary_name && t.chance(1, 25);
    c.settings.multicall = multicall;

    // ---- subcommands (names first: flags of subcommands share the arg pools)
    let nsubs = if depth + 1 >= opts.max_depth {
        0
    } else if multicall {
        t.range(1, opts.max_subs.max(1))
    } else {
        let w = [3, 3, 2, 1];
        t.weighted(&w[..(opts.max_subs + 1).min(4)])
    };
    struct SubHead {
        name: &'static str,
        aliases: Vec<(String, bool)>,
        short_flag: Option<char>,
        long_flag: Option<String>,
        short_flag_aliases: Vec<(char, bool)>,
        long_flag_aliases: Vec<(String, bool)>,
    }
    let mut heads = Vec::new();
    for _ in 0..nsubs {
        let Some(name) = take(t, &mut pools.subs) else { break };
        let mut h = SubHead {
            name,
            aliases: Vec::new(),
            short_flag: None,
            long_flag: None,
            short_flag_aliases: Vec::new(),
            long_flag_aliases: Vec::new(),
        };
        for _ in 0..t.weighted(&[6, 3, 1]) {
            if let Some(al) = take(t, &mut pools.subs) {
                h.aliases.push((al.to_owned(), t.bool()));
            }
        }
        if opts.flag_subcommands && !multicall {
            if t.chance(1, 4) {
                h.short_flag = take(t, &mut pools.shorts);
                if t.chance(1, 3) {
                    if let Some(a) = take(t, &mut pools.shorts) {
                        h.short_flag_aliases.push((a, t.bool()));
                    }
                }
            }
            if t.chance(1, 4) {
                h.long_flag = take(t, &mut pools.longs).map(|s| s.to_owned());
                if t.chance(1, 3) {
                    if let Some(a) = take(t, &mut pools.longs) {
                        h.long_flag_aliases.push((a.to_owned(), t.bool()));
                    }
                }
            }
        }
        heads.push(h);
    }
    if opts.external && !multicall && t.chance(1, 8) {
        c.settings.allow_external_subcommands = true;
        c.settings.external_os = t.bool();
    }

    // ---- args
    // one level in sixteen is wide: more arguments than the usual handful (containers and key maps of another size)
    let nargs = if multicall {
        0
    } else if t.chance(1, 16) {
        t.range(opts.max_args + 1, opts.max_args * 2 + 2)
    } else {
        t.range(0, opts.max_args)
    };
    // positional layout
    let mut npos = 0usize;
    let mut args: Vec<ArgSpec> = Vec::new();
    for i in 0..nargs {
        let kind = t.weighted(&[4, 4, 3]); // flag, option, positional
        let mut a = ArgSpec {
            id: format!("a{i}"),
            ..Default::default()
        };
        match kind {
            0 | 1 => {
                let want_short = t.weighted(&[3, 3, 4]); // both, short only, long only
                if want_short != 2 {
                    a.short = take(t, &mut pools.shorts);
                }
                if want_short != 1 || a.short.is_none() {
                    a.long = take(t, &mut pools.longs).map(|s| s.to_owned());
                }
                if a.short.is_none() && a.long.is_none() {
                    continue;
                }
                // (a short-only argument may carry long aliases as well)
                if t.chance(1, 4) {
                    for _ in 0..t.range(1, 2) {
                        if let Some(al) = take(t, &mut pools.longs) {
                            a.aliases.push((al.to_owned(), t.bool()));
                        }
                    }
                }
                if t.chance(1, 6) {
                    if let Some(al) = take(t, &mut pools.shorts) {
                        a.short_aliases.push((al, t.bool()));
                    }
                }
                if kind == 0 {
                    a.action = match t.weighted(&[6, 2, 3, if opts.help_version_actions { 1 } else { 0 }]) {
                        0 => Action::SetTrue,
                        1 => Action::SetFalse,
                        2 => Action::Count,
                        _ => {
                            if has_version && t.bool() {
                                Action::Version
                            } else {
                                *t.pick(&[Action::Help, Action::HelpShort, Action::HelpLong])
                            }
                        }
                    };
                } else {
                    gen_value_taking(t, opts, &mut a, false);
                }
                if opts.globals && !a.action.is_help_or_version() && t.chance(1, 6) {
                    a.global = true;
                }
            }
            _ => {
                npos += 1;
                a.action = if t.chance(1, 6) { Action::Append } else { Action::Set };
                a.parser = gen_parser(t);
                if t.chance(1, 3) {
                    a.value_names = vec![(*t.pick(&["FILE", "NAME", "N", "value"])).to_owned()];
                }
            }
        }
        args.push(a);
    }
    // fix up the positional layout: required prefix, only the tail may be multiple / last
    let pos_ids: Vec<usize> = (0..args.len()).filter(|i| args[*i].is_positional()).collect();
    let _ = npos;
    let np = pos_ids.len();
    let nreq = if np > 0 { t.range(0, np) } else { 0 };
    let has_subs = !heads.is_empty();
    let explicit_index = t.chance(1, 5);
    for (k, ai) in pos_ids.iter().enumerate() {
        let last_pos = k + 1 == np;
        let a = &mut args[*ai];
        a.action = Action::Set;
        if explicit_index {
            a.index = Some(k + 1);
        }
        a.required = k < nreq && t.chance(3, 4);
        if !(k < nreq) {
            a.required = false;
        }
        if last_pos {
            match t.weighted(&[5, 2, 2, 1, 1]) {
                0 => {}
                1 => a.num_args = Some((1, usize::MAX)),
                2 => a.num_args = Some((0, usize::MAX)),
                3 => a.num_args = Some((2, 3)),
                _ => a.num_args = Some((1, 2)),
            }
            let multiple = a.num_args.map(|r| r.1 > 1).unwrap_or(false);
            if multiple && t.chance(1, 6) {
                a.action = Action::Append;
            }
            if opts.hyphen_values && multiple && t.chance(1, 4) {
                a.trailing_var_arg = true;
            } else if t.chance(1, 5) && np >= 1 {
                a.last = true;
                if a.required && has_subs && !c.settings.subcommand_negates_reqs {
                    a.required = false;
                }
            }
            if t.chance(1, 8) {
                a.value_delimiter = Some(',');
            }
            if t.chance(1, 10) {
                a.value_terminator = Some(";".to_owned());
            }
        }
        if opts.hyphen_values {
            a.allow_hyphen_values = t.chance(1, 8);
            a.allow_negative_numbers = t.chance(1, 8);
        }
        if opts.defaults && !a.required && t.chance(1, 6) {
            a.default_values = vec![good_value(t, &a.parser)];
        }
    }
    // `required` must be a prefix property unless allow_missing_positional
    let mut seen_optional = false;
    for ai in &pos_ids {
        let a = &mut args[*ai];
        if a.last {
            continue;
        }
        if !a.required {
            seen_optional = true;
        } else if seen_optional {
            a.required = false;
        }
    }

    // ---- relations
    if opts.relations && !args.is_empty() {
        let ids: Vec<String> = args.iter().map(|a| a.id.clone()).collect();
        let ngroups = t.weighted(&[5, 3, 1]);
        for gi in 0..ngroups {
            let mut g = GroupSpec {
                id: format!("g{gi}"),
                ..Default::default()
            };
            let n = t.range(1, 3.min(ids.len()));
            let mut pool = ids.clone();
            for _ in 0..n {
                if let Some(m) = take(t, &mut pool) {
                    g.args.push(m);
                }
            }
            g.required = t.chance(opts.relation_weight, 4);
            g.multiple = t.chance(opts.relation_weight, 3);
            if t.chance(opts.relation_weight, 4) {
                g.requires.push(t.pick(&ids).clone());
            }
            if t.chance(opts.relation_weight, 4) {
                g.conflicts_with.push(t.pick(&ids).clone());
            }
            c.groups.push(g);
        }
        let mut targets: Vec<String> = ids.clone();
        targets.extend(c.groups.iter().map(|g| g.id.clone()));
        let n_args = args.len();
        for i in 0..n_args {
            let my_id = args[i].id.clone();
            let others: Vec<String> = targets.iter().filter(|x| **x != my_id).cloned().collect();
            if others.is_empty() {
                continue;
            }
            let arg_others: Vec<String> = ids.iter().filter(|x| **x != my_id).cloned().collect();
            let a = &mut args[i];
            if a.action.is_help_or_version() {
                continue;
            }
            if t.chance(opts.relation_weight, 6) {
                a.conflicts_with.push(t.pick(&others).clone());
            }
            // overrides name arguments only (what overriding a *group* id means is not documented)
            if t.chance(opts.relation_weight, 8) && !arg_others.is_empty() {
                a.overrides_with.push(t.pick(&arg_others).clone());
            }
            if t.chance(opts.relation_weight, 10) {
                a.overrides_with.push(my_id.clone());
            }
            if t.chance(opts.relation_weight, 6) {
                a.requires.push(t.pick(&others).clone());
            }
            if t.chance(opts.relation_weight, 10) {
                let p = if t.bool() {
                    Pred::IsPresent
                } else {
                    Pred::Equals((*t.pick(VALUES)).to_owned())
                };
                let target = t.pick(&others).clone();
                a.requires_ifs.push((p, target.clone()));
                if t.chance(1, 3) {
                    // a second edge to the same target under another predicate
                    a.requires_ifs.push((Pred::Equals((*t.pick(VALUES)).to_owned()), target));
                }
            }
            // half of the definitions use the plural builder methods (requires_ifs, conflicts_with_all, overrides_with_all)
            a.plural_builders = t.bool();
            a.setter_history = t.chance(1, 4);
            if t.chance(opts.relation_weight, 12) && !a.is_positional() && !a.global {
                a.exclusive = true;
            }
            if !a.required && !arg_others.is_empty() && !a.global {
                // several conditional-requirement kinds may sit on one argument
                let w = opts.relation_weight;
                if t.chance(w, 20) {
                    a.required_if_eq_any.push((t.pick(&arg_others).clone(), (*t.pick(VALUES)).to_owned()));
                }
                if t.chance(w, 24) {
                    for _ in 0..t.range(1, 2) {
                        a.required_if_eq_all
                            .push((t.pick(&arg_others).clone(), (*t.pick(VALUES)).to_owned()));
                    }
                }
                if t.chance(w, 20) {
                    a.required_unless_present_any.push(t.pick(&others).clone());
                }
                if t.chance(w, 24) {
                    for _ in 0..t.range(1, 2) {
                        a.required_unless_present_all.push(t.pick(&others).clone());
                    }
                }
                let conditional = !a.required_if_eq_any.is_empty()
                    || !a.required_if_eq_all.is_empty()
                    || !a.required_unless_present_any.is_empty()
                    || !a.required_unless_present_all.is_empty();
                if !conditional && !a.is_positional() && t.chance(w, 24) {
                    a.required = true;
                }
            }
            if opts.defaults && a.action.takes_values() && !arg_others.is_empty() && t.chance(opts.relation_weight, 10) {
                let p = if t.bool() {
                    Pred::IsPresent
                } else {
                    Pred::Equals((*t.pick(VALUES)).to_owned())
                };
                let v = if t.chance(opts.relation_weight, 5) { None } else { Some(good_value(t, &a.parser)) };
                a.default_value_ifs.push((t.pick(&arg_others).clone(), p, v));
            }
        }
    }
    // global + required is rejected by clap
    for a in &mut args {
        if a.global {
            a.required = false;
            a.required_if_eq_any.clear();
            a.required_if_eq_all.clear();
            a.required_unless_present_any.clear();
            a.required_unless_present_all.clear();
            a.exclusive = false;
            let me = a.id.clone();
            a.conflicts_with.clear();
            a.requires.clear();
            a.requires_ifs.clear();
            a.default_value_ifs.clear();
            a.overrides_with.retain(|x| *x == me);
            a.groups.clear();
        }
    }
    // ---- help surface
    if opts.help_surface {
        c.about = opt_text(t, opts, 1, 2);
        c.long_about = opt_text(t, opts, 1, 5);
        c.before_help = opt_text(t, opts, 1, 8);
        c.after_help = opt_text(t, opts, 1, 8);
        c.before_long_help = opt_text(t, opts, 1, 12);
        c.after_long_help = opt_text(t, opts, 1, 12);
        c.author = opt_text(t, opts, 1, 8);
        c.settings.flatten_help = t.chance(1, 8);
        c.settings.next_line_help = t.chance(1, 8);
        c.settings.hide_possible_values = t.chance(1, 10);
        c.settings.dont_collapse_args_in_usage = t.chance(1, 8);
        c.subcommand_help_heading = if t.chance(1, 8) { Some("Things".to_owned()) } else { None };
        c.subcommand_value_name = if t.chance(1, 8) { Some("THING".to_owned()) } else { None };
        if t.chance(1, 10) {
            c.help_template = Some(gen_template(t));
        }
        if t.chance(1, 25) {
            c.override_usage = Some("prog [OPTIONS] <custom>\n       prog other".to_owned());
        }
        for a in &mut args {
            a.help = opt_text(t, opts, 2, 3);
            a.long_help = opt_text(t, opts, 1, 6);
            a.hide = t.chance(1, 8);
            a.hide_short_help = t.chance(1, 10);
            a.hide_long_help = t.chance(1, 10);
            a.next_line_help = t.chance(1, 10);
            // the same definition reached through setters called with `false` after `true` and the other way round
            a.setter_history = t.chance(1, 4);
            if t.chance(1, 6) {
                a.help_heading = Some(if t.chance(1, 4) {
                    None
                } else {
                    Some((*t.pick(&["Custom", "Advanced things", "Options", "custom", "CUSTOM", "Arguments"])).to_owned())
                });
            }
            if t.chance(1, 8) {
                a.display_order = Some(t.range(0, 5));
            }
            if a.action.takes_values() {
                a.hide_possible_values = t.chance(1, 10);
                a.hide_default_value = t.chance(1, 10);
                a.hide_env = t.chance(1, 10);
                a.hide_env_values = t.chance(1, 10);
                if t.chance(1, 8) {
                    a.value_hint = Some((*t.pick(VALUE_HINTS)).to_owned());
                }
            }
        }
    } else if t.chance(1, 3) {
        c.about = Some("about text".to_owned());
    }

    // ---- subcommand bodies
    let mut down = Inherit {
        globals: inherited_globals.to_vec(),
        help_flag_disabled: help_off,
        version_flag_disabled: c.settings.disable_version_flag || inh.version_flag_disabled,
        version_propagated: inh.version_propagated || (c.version.is_some() && c.settings.propagate_version),
    };
    down.globals.extend(args.iter().filter(|a| a.global).cloned());
    // the same definition through other builder routes / histories (see `Settings::route`, `decoy_history`)
    for a in &mut args {
        a.decoy_history = t.chance(1, 5);
        a.static_id = t.bool();
        if a.action == Action::SetTrue && !a.is_positional() && a.num_args.is_none() && t.chance(1, 4) {
            // a flag declared through `num_args(0)` and no action
            a.num_args = Some((0, 0));
            a.action_inferred = true;
        }
    }
    if t.chance(1, 3) {
        c.settings.route = t.range(1, 63) as u8;
    }
    c.settings.decoy_history = t.chance(1, 5);
    c.args = args;
    for h in heads {
        let mut sc = gen_level(t, opts, depth + 1, h.name, &down);
        sc.aliases = h.aliases;
        sc.short_flag = h.short_flag;
        sc.long_flag = h.long_flag;
        sc.short_flag_aliases = h.short_flag_aliases;
        sc.long_flag_aliases = h.long_flag_aliases;
        if opts.help_surface {
            sc.hide = t.chance(1, 8);
        }
        c.subs.push(sc);
    }
    c
}

fn gen_value_taking(t: &mut Tape<'_>, opts: &GenOpts, a: &mut ArgSpec, _positional: bool) {
    a.action = if t.chance(1, 4) { Action::Append } else { Action::Set };
    a.parser = gen_parser(t);
    match t.weighted(&[8, 2, 2, 1, 1, 1, 1]) {
        0 => {}
        1 => a.num_args = Some((0, 1)),
        2 => a.num_args = Some((1, usize::MAX)),
        3 => a.num_args = Some((0, usize::MAX)),
        4 => a.num_args = Some((2, 2)),
        5 => a.num_args = Some((1, 3)),
        _ => a.num_args = Some((0, 0)),
    }
    let (lo, hi) = a.value_range();
    if hi >= 1 && t.chance(1, 5) {
        a.value_delimiter = Some(*t.pick(&[',', ';', ':', ',', '\u{b7}', '\u{3001}']));
    }
    if hi > 1 && t.chance(1, 5) {
        a.value_terminator = Some((*t.pick(&[";", "end", "--"])).to_owned());
    }
    if lo <= 1 && hi >= 1 && t.chance(1, 6) {
        a.require_equals = true;
    }
    if lo == 0 && t.chance(2, 3) {
        a.default_missing_values = vec![good_value(t, &a.parser)];
    }
    if opts.defaults && hi >= 1 && t.chance(1, 4) {
        a.default_values = vec![good_value(t, &a.parser)];
        if hi > 1 && t.chance(1, 3) {
            a.default_values.push(good_value(t, &a.parser));
        }
    }
    if opts.env && t.chance(1, 6) {
        let val = match t.weighted(&[2, 4, 1, 1]) {
            0 => None,
            1 => Some(good_value(t, &a.parser)),
            2 => Some(String::new()),
            _ => Some("not a valid value \u{1f600}".to_owned()),
        };
        a.env = Some((format!("VERIF_ENV_{}", a.id.to_uppercase()), val));
    }
    if opts.hyphen_values && hi >= 1 {
        a.allow_hyphen_values = t.chance(1, 8);
        a.allow_negative_numbers = t.chance(1, 8);
    }
    if matches!(a.parser, ParserSpec::Possible(_)) {
        a.ignore_case = t.chance(1, 4);
    } else if hi >= 1 && t.chance(1, 10) {
        // also legal on free-form values (it then only matters to value predicates of relations)
        a.ignore_case = true;
    }
    if hi >= 1 && t.chance(1, 4) {
        let n = if hi == usize::MAX { 2 } else { hi.min(3) };
        let k = t.range(1, n);
        let names = ["FILE", "NAME", "N", "value"];
        a.value_names = (0..k).map(|i| names[i % names.len()].to_owned()).collect();
        // clap infers num_args from several value names when none is given
        if a.num_args.is_none() && k > 1 {
            a.value_names.truncate(1);
        }
    }
}

pub fn gen_template(t: &mut Tape<'_>) -> String {
    let tags = [
        "{name}", "{bin}", "{version}", "{author}", "{author-with-newline}", "{author-section}", "{about}",
        "{about-with-newline}", "{about-section}", "{usage-heading}", "{usage}", "{all-args}", "{options}", "{positionals}",
        "{subcommands}", "{tab}", "{after-help}", "{before-help}", "{unknown-tag}", "{", "}", "{n}", "{name", "{{about}}",
    ];
    let n = t.range(1, 8);
    let mut s = String::new();
    for _ in 0..n {
        s.push_str(t.pick_s(&tags));
        s.push_str(t.pick_s(&["", " ", "\n", ": ", "\n\n"]));
    }
    s
}
