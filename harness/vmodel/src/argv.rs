//! Argument-vector generator for the broad class: tokens derived from the
//! spec (so that parsing gets deep), mutations and raw bytes.

use crate::gen::{good_value, VALUES};
use crate::spec::*;
use vcore::Tape;

pub type Argv = Vec<Vec<u8>>;

fn s(x: &str) -> Vec<u8> {
    x.as_bytes().to_vec()
}

/// One token (or a few) that means something at `level`; may descend.
/// A value for `a`; for a delimited argument often several values joined by its delimiter.
fn arg_value(t: &mut Tape<'_>, a: &ArgSpec) -> String {
    let v = good_value(t, &a.parser);
    match a.value_delimiter {
        Some(d) if t.chance(1, 3) => {
            let mut out = v;
            for _ in 0..t.range(1, 2) {
                out.push(d);
                if !t.chance(1, 6) {
                    out.push_str(&good_value(t, &a.parser));
                }
            }
            out
        }
        _ => v,
    }
}

fn token<'a>(t: &mut Tape<'_>, level: &mut &'a CmdSpec, out: &mut Argv) {
    let before = out.len();
    token_inner(t, level, out);
    // values of OS-string arguments sometimes end in a byte that is not UTF-8
    if t.chance(1, 10) {
        let lvl: &CmdSpec = level;
        let os_arg = lvl.args.iter().any(|a| matches!(a.parser, ParserSpec::OsStr | ParserSpec::PathBuf));
        if os_arg && out.len() > before {
            if let Some(last) = out.last_mut() {
                if !last.is_empty() {
                    last.push(0xff);
                }
            }
        }
    }
}

fn token_inner<'a>(t: &mut Tape<'_>, level: &mut &'a CmdSpec, out: &mut Argv) {
    let c: &CmdSpec = level;
    let flags: Vec<&ArgSpec> = c.args.iter().filter(|a| !a.is_positional()).collect();
    let choice = t.weighted(&[6, 5, 3, 4, 3, 1, 1, 1, 1, 1]);
    let choice = match choice {
        0 | 1 if flags.is_empty() => 3,
        2 if c.subs.is_empty() => 3,
        x => x,
    };
    match choice {
        // long form of an arg
        0 => {
            let a = *t.pick(&flags);
            let mut names: Vec<String> = a.long.iter().cloned().collect();
            names.extend(a.aliases.iter().map(|x| x.0.clone()));
            if names.is_empty() {
                if let Some(ch) = a.short {
                    out.push(s(&format!("-{ch}")));
                }
                return;
            }
            let mut name = t.pick(&names).clone();
            if t.chance(1, 8) && name.chars().count() > 1 {
                // prefix (inference or unknown)
                let n = t.range(1, name.chars().count() - 1);
                name = name.chars().take(n).collect();
            }
            if a.action.takes_values() {
                let v = arg_value(t, a);
                match t.weighted(&[4, 4, 1, 1]) {
                    0 => out.push(s(&format!("--{name}={v}"))),
                    1 => {
                        out.push(s(&format!("--{name}")));
                        let (_, hi) = a.value_range();
                        let n = if hi > 1 { t.range(1, hi.min(4)) } else { 1 };
                        for _ in 0..n {
                            out.push(s(&arg_value(t, a)));
                        }
                    }
                    2 => out.push(s(&format!("--{name}"))),
                    _ => out.push(s(&format!("--{name}="))),
                }
            } else if t.chance(1, 12) {
                out.push(s(&format!("--{name}=x")));
            } else {
                out.push(s(&format!("--{name}")));
            }
        }
        // short forms and clusters
        1 => {
            let mut tok = String::from("-");
            let n = t.weighted(&[5, 3, 2, 1]) + 1;
            for k in 0..n {
                let a = *t.pick(&flags);
                let mut chars: Vec<char> = a.short.iter().copied().collect();
                chars.extend(a.short_aliases.iter().map(|x| x.0));
                // flag subcommand letters may join a cluster
                for sc in &c.subs {
                    chars.extend(sc.short_flag);
                }
                if chars.is_empty() {
                    continue;
                }
                tok.push(*t.pick(&chars));
                if a.action.takes_values() && a.short.is_some() {
                    match t.weighted(&[3, 2, 2, 1]) {
                        0 => {
                            tok.push_str(&arg_value(t, a));
                        }
                        1 => {
                            tok.push('=');
                            tok.push_str(&arg_value(t, a));
                        }
                        2 => {
                            out.push(s(&tok));
                            out.push(s(&arg_value(t, a)));
                            return;
                        }
                        _ => {}
                    }
                    break;
                }
                let _ = k;
            }
            if tok.len() > 1 {
                out.push(s(&tok));
            }
        }
        // subcommand
        2 => {
            let idx = t.choose(c.subs.len());
            let sc = &c.subs[idx];
            let mut forms: Vec<String> = sc.all_names();
            if let Some(f) = &sc.long_flag {
                forms.push(format!("--{f}"));
            }
            forms.extend(sc.long_flag_aliases.iter().map(|x| format!("--{}", x.0)));
            if let Some(f) = sc.short_flag {
                forms.push(format!("-{f}"));
                // -Sxyz style
                if let Some(a) = sc.args.iter().find(|a| a.short.is_some()) {
                    forms.push(format!("-{f}{}", a.short.unwrap()));
                }
            }
            forms.extend(sc.short_flag_aliases.iter().map(|x| format!("-{}", x.0)));
            let mut f = t.pick(&forms).clone();
            if t.chance(1, 8) && f.chars().count() > 1 && !f.starts_with('-') {
                let n = t.range(1, f.chars().count() - 1);
                f = f.chars().take(n).collect();
            }
            out.push(s(&f));
            *level = &c.subs[idx];
        }
        // a value (for positionals or pending options)
        3 => {
            let pos: Vec<&ArgSpec> = c.args.iter().filter(|a| a.is_positional()).collect();
            if !pos.is_empty() && t.chance(2, 3) {
                let a = *t.pick(&pos);
                out.push(s(&arg_value(t, a)));
            } else {
                out.push(s(t.pick_s(VALUES)));
            }
        }
        // structural tokens
        4 => {
            let mut toks: Vec<String> = vec!["--".into(), "-".into(), "--help".into(), "-h".into(), "help".into()];
            toks.push("--version".into());
            toks.push("-V".into());
            for a in &c.args {
                if let Some(term) = &a.value_terminator {
                    toks.push(term.clone());
                }
            }
            out.push(s(t.pick_s(&toks)));
        }
        // unknown flags
        5 => out.push(s(t.pick_s(&["--nope", "--alph", "-Z", "-zzz", "--=", "--=v", "-=", "---", "--alpha=", "-\u{e9}"]))),
        // negative numbers and look-alikes
        6 => out.push(s(t.pick_s(&["-1", "-1.5", "-1e3", "-.5", "-1x", "--1", "-0", "-9223372036854775809", "-1e-", "-1e+5", "-2.5E-", "-1e", "-1.", "-1.e3", "-e1", "-1e3e"]))),
        // raw bytes
        7 => {
            let n = t.range(0, 6);
            let mut b = Vec::new();
            if t.bool() {
                b.push(b'-');
                if t.bool() {
                    b.push(b'-');
                }
            }
            for _ in 0..n {
                b.push(*t.pick(&[b'a', b'=', b'-', 0xff, 0xc3, 0xa9, 0x80, b' ', b',', 0xf0, b'1']));
            }
            out.push(b);
        }
        // very long token
        8 => {
            let n = t.range(100, 3000);
            let ch = *t.pick(&[b'a', b'-', b'v', 0xc3]);
            let mut b = if t.bool() { b"--".to_vec() } else { Vec::new() };
            b.extend(std::iter::repeat(ch).take(n));
            out.push(b);
        }
        // empty string
        _ => out.push(Vec::new()),
    }
}

/// argv including argv[0] (unless `no_binary_name`).
pub fn gen_argv_broad(t: &mut Tape<'_>, spec: &CmdSpec) -> Argv {
    let mut out: Argv = Vec::new();
    if spec.settings.multicall {
        // argv[0] selects the applet
        if t.chance(4, 5) && !spec.subs.is_empty() {
            let sc = t.pick(&spec.subs);
            out.push(s(&sc.name));
        } else {
            out.push(s(t.pick_s(&["prog", "/usr/bin/sub", "", "nope"])));
        }
    } else if !spec.settings.no_binary_name {
        if t.chance(1, 30) {
            // empty argv
            return out;
        }
        out.push(s(t.pick_s(&["prog", "/usr/bin/prog", "", "prog.exe", "\u{e9}"])));
    }
    let mut level: &CmdSpec = spec;
    let n = match t.weighted(&[6, 3, 1]) {
        0 => t.range(0, 6),
        1 => t.range(4, 16),
        _ => t.range(10, 40),
    };
    // path mode: walk down the tree on purpose, a few tokens per level
    let path_mode = !spec.subs.is_empty() && t.chance(1, 2);
    for k in 0..n {
        if path_mode && !level.subs.is_empty() && (k % 3 == 2 || t.chance(1, 4)) {
            let idx = t.choose(level.subs.len());
            let sc = &level.subs[idx];
            let names = sc.all_names();
            out.push(s(t.pick_s(&names)));
            level = &level.subs[idx];
            continue;
        }
        token(t, &mut level, &mut out);
        // heavy repetition of the last token
        if t.chance(1, 40) {
            if let Some(last) = out.last().cloned() {
                let k = t.range(2, 300);
                for _ in 0..k {
                    out.push(last.clone());
                }
            }
        }
    }
    // mutations: drop / duplicate / swap
    if out.len() > 2 && t.chance(1, 5) {
        match t.choose(3) {
            0 => {
                let i = t.range(1, out.len() - 1);
                out.remove(i);
            }
            1 => {
                let i = t.range(1, out.len() - 1);
                let x = out[i].clone();
                out.insert(i, x);
            }
            _ => {
                let i = t.range(1, out.len() - 1);
                let j = t.range(1, out.len() - 1);
                out.swap(i, j);
            }
        }
    }
    out
}

/// A well-formed line (`gen_argv_subset`, which walks down the tree and supplies required
/// arguments) damaged by a few edits: insert a token made from the spec's own spellings or a
/// hostile one, drop, duplicate, swap, truncate. Reaches deep parser states that purely random
/// lines rarely get to.
pub fn gen_argv_hybrid(t: &mut Tape<'_>, spec: &CmdSpec) -> Argv {
    let mut out = gen_argv_subset(t, spec);
    let lo = if spec.settings.no_binary_name { 0 } else { 1 };
    let edits = t.range(0, 4);
    for _ in 0..edits {
        let len = out.len();
        match t.choose(5) {
            0 | 1 => {
                // a token written for a random level of the tree
                let mut level: &CmdSpec = spec;
                while !level.subs.is_empty() && t.chance(1, 2) {
                    level = &level.subs[t.choose(level.subs.len())];
                }
                let mut toks: Argv = Vec::new();
                token(t, &mut level, &mut toks);
                let at = t.range(lo.min(len), len);
                for (i, tok) in toks.into_iter().enumerate() {
                    out.insert((at + i).min(out.len()), tok);
                }
            }
            2 if len > lo => {
                let i = t.range(lo, len - 1);
                out.remove(i);
            }
            3 if len > lo => {
                let i = t.range(lo, len - 1);
                let x = out[i].clone();
                out.insert(i, x);
            }
            4 if len > lo + 1 => {
                let i = t.range(lo, len - 1);
                let j = t.range(lo, len - 1);
                out.swap(i, j);
            }
            _ => {
                if len > lo {
                    let keep = t.range(lo, len);
                    out.truncate(keep);
                }
            }
        }
    }
    out
}

/// A value for `arg`: often one that some predicate of the level mentions for it
/// (required_if_eq*, requires_if, default_value_if), else any accepted value.
fn relation_value(t: &mut Tape<'_>, level: &CmdSpec, arg: &ArgSpec) -> String {
    let mut mentioned: Vec<&String> = Vec::new();
    for o in &level.args {
        for (id, v) in o.required_if_eq_any.iter().chain(o.required_if_eq_all.iter()) {
            if *id == arg.id {
                mentioned.push(v);
            }
        }
        for (id, p, _) in &o.default_value_ifs {
            if let (true, Pred::Equals(v)) = (*id == arg.id, p) {
                mentioned.push(v);
            }
        }
    }
    for (p, _) in &arg.requires_ifs {
        if let Pred::Equals(v) = p {
            mentioned.push(v);
        }
    }
    if !mentioned.is_empty() && t.chance(2, 3) {
        return (*t.pick(&mentioned)).clone();
    }
    good_value(t, &arg.parser)
}

/// argv that supplies a random subset of each level's arguments in well-formed
/// occurrences (so that a good share of parses succeed): positionals first,
/// then flags/options, then optionally a subcommand.
pub fn gen_argv_subset(t: &mut Tape<'_>, spec: &CmdSpec) -> Argv {
    let mut out: Argv = Vec::new();
    if !spec.settings.no_binary_name {
        out.push(s("prog"));
    }
    let mut level = spec;
    loop {
        let want_required = t.chance(3, 4);
        // positionals: a prefix of them
        let pos: Vec<&ArgSpec> = level.args.iter().filter(|a| a.is_positional()).collect();
        let mut npos = if pos.is_empty() { 0 } else { t.range(0, pos.len()) };
        if want_required {
            for (i, p) in pos.iter().enumerate() {
                if p.required && !p.last {
                    npos = npos.max(i + 1);
                }
            }
        }
        let mut last_tail: Vec<Vec<u8>> = Vec::new();
        for p in pos.iter().take(npos) {
            let (lo, hi) = p.value_range();
            let n = lo.max(1).min(hi.max(1));
            let n = if hi > n && t.bool() { n + 1 } else { n };
            let mut vals = Vec::new();
            for _ in 0..n {
                let mut v = relation_value(t, level, p);
                if v.starts_with('-') || v.is_empty() {
                    v = "1".into();
                }
                if level.subs.iter().any(|sc| sc.all_names().contains(&v)) {
                    v = "1".into();
                }
                vals.push(s(&v));
            }
            if p.last {
                last_tail = vals;
            } else {
                out.extend(vals);
            }
        }
        for a in level.args.iter().filter(|a| !a.is_positional()) {
            if a.action.is_help_or_version() {
                continue;
            }
            let take = if a.required && want_required { true } else { t.chance(2, 5) };
            if !take {
                continue;
            }
            let times = if t.chance(1, 8) { 2 } else { 1 };
            for _ in 0..times {
                let name = match (&a.long, a.short) {
                    (Some(l), Some(sh)) => {
                        if t.bool() {
                            format!("--{l}")
                        } else {
                            format!("-{sh}")
                        }
                    }
                    (Some(l), None) => format!("--{l}"),
                    (None, Some(sh)) => format!("-{sh}"),
                    _ => continue,
                };
                if !a.action.takes_values() {
                    out.push(s(&name));
                    continue;
                }
                let (lo, hi) = a.value_range();
                if hi == 0 || (lo == 0 && t.chance(1, 3)) {
                    out.push(s(&name));
                    continue;
                }
                if lo <= 1 {
                    let v = relation_value(t, level, a);
                    out.push(s(&format!("{name}={v}")));
                } else {
                    out.push(s(&name));
                    for _ in 0..lo {
                        let mut v = good_value(t, &a.parser);
                        if v.starts_with('-') {
                            v = "1".into();
                        }
                        out.push(s(&v));
                    }
                    if hi > lo {
                        if let Some(term) = &a.value_terminator {
                            out.push(s(term));
                        }
                    }
                }
            }
        }
        if !last_tail.is_empty() {
            out.push(s("--"));
            out.extend(last_tail);
            break;
        }
        if level.subs.is_empty() || t.chance(1, 2) {
            break;
        }
        let sc = &level.subs[t.choose(level.subs.len())];
        out.push(s(&sc.name));
        level = sc;
    }
    out
}
