//! `CmdSpec`: a plain-data, serialisable description of a command tree and its
//! straightforward translation to `clap::Command`.

use clap::builder::{ArgPredicate, OsStr, PossibleValue};
use clap::{Arg, ArgAction, ArgGroup, Command, ValueHint};
use serde::{Deserialize, Serialize};
use std::sync::Mutex;

#[derive(Serialize, Deserialize, Hash, Clone, Copy, Debug, PartialEq, Eq, Default)]
pub enum Action {
    #[default]
    Set,
    Append,
    SetTrue,
    SetFalse,
    Count,
    Help,
    HelpShort,
    HelpLong,
    Version,
}

impl Action {
    pub fn takes_values(self) -> bool {
        matches!(self, Action::Set | Action::Append)
    }
    pub fn is_help_or_version(self) -> bool {
        matches!(self, Action::Help | Action::HelpShort | Action::HelpLong | Action::Version)
    }
}

fn is_default<T: Default + PartialEq>(t: &T) -> bool {
    *t == T::default()
}

#[derive(Serialize, Deserialize, Hash, Clone, Debug, PartialEq, Eq, Default)]
#[serde(default)]
pub struct PvSpec {
    #[serde(skip_serializing_if = "is_default")]
    pub name: String,
    #[serde(skip_serializing_if = "is_default")]
    pub aliases: Vec<String>,
    #[serde(skip_serializing_if = "is_default")]
    pub hide: bool,
    #[serde(skip_serializing_if = "is_default")]
    pub help: Option<String>,
}

#[derive(Serialize, Deserialize, Hash, Clone, Debug, PartialEq, Eq, Default)]
pub enum ParserSpec {
    #[default]
    Str,
    OsStr,
    PathBuf,
    NonEmpty,
    /// `value_parser!(i64).range(lo..=hi)`
    I64 {
        lo: i64,
        hi: i64,
    },
    U8,
    U16 {
        lo: u16,
        hi: u16,
    },
    Bool,
    Boolish,
    Falsey,
    Possible(Vec<PvSpec>),
}

#[derive(Serialize, Deserialize, Hash, Clone, Debug, PartialEq, Eq)]
pub enum Pred {
    IsPresent,
    Equals(String),
}

#[derive(Serialize, Deserialize, Hash, Clone, Debug, PartialEq, Eq, Default)]
#[serde(default)]
pub struct ArgSpec {
    #[serde(skip_serializing_if = "is_default")]
    pub id: String,
    #[serde(skip_serializing_if = "is_default")]
    pub short: Option<char>,
    #[serde(skip_serializing_if = "is_default")]
    pub long: Option<String>,
    /// (alias, visible)
    #[serde(skip_serializing_if = "is_default")]
    pub aliases: Vec<(String, bool)>,
    #[serde(skip_serializing_if = "is_default")]
    pub short_aliases: Vec<(char, bool)>,
    #[serde(skip_serializing_if = "is_default")]
    pub action: Action,
    /// do not call `Arg::action`: the library has to infer `action` itself (only honoured where that is what it infers)
    #[serde(skip_serializing_if = "is_default")]
    pub action_inferred: bool,
    /// explicit `num_args(min..=max)`; max == usize::MAX means unbounded
    #[serde(skip_serializing_if = "is_default")]
    pub num_args: Option<(usize, usize)>,
    #[serde(skip_serializing_if = "is_default")]
    pub value_delimiter: Option<char>,
    #[serde(skip_serializing_if = "is_default")]
    pub value_terminator: Option<String>,
    #[serde(skip_serializing_if = "is_default")]
    pub require_equals: bool,
    #[serde(skip_serializing_if = "is_default")]
    pub default_values: Vec<String>,
    #[serde(skip_serializing_if = "is_default")]
    pub default_missing_values: Vec<String>,
    /// (other arg, predicate, Some(default) | None = unset)
    #[serde(skip_serializing_if = "is_default")]
    pub default_value_ifs: Vec<(String, Pred, Option<String>)>,
    /// (variable name, value or None = unset)
    #[serde(skip_serializing_if = "is_default")]
    pub env: Option<(String, Option<String>)>,
    #[serde(skip_serializing_if = "is_default")]
    pub parser: ParserSpec,
    #[serde(skip_serializing_if = "is_default")]
    pub ignore_case: bool,
    /// positional when both short and long are None
    #[serde(skip_serializing_if = "is_default")]
    pub index: Option<usize>,
    #[serde(skip_serializing_if = "is_default")]
    pub last: bool,
    #[serde(skip_serializing_if = "is_default")]
    pub trailing_var_arg: bool,
    #[serde(skip_serializing_if = "is_default")]
    pub allow_hyphen_values: bool,
    #[serde(skip_serializing_if = "is_default")]
    pub allow_negative_numbers: bool,
    #[serde(skip_serializing_if = "is_default")]
    pub required: bool,
    #[serde(skip_serializing_if = "is_default")]
    pub exclusive: bool,
    #[serde(skip_serializing_if = "is_default")]
    pub global: bool,
    #[serde(skip_serializing_if = "is_default")]
    pub hide: bool,
    #[serde(skip_serializing_if = "is_default")]
    pub hide_short_help: bool,
    #[serde(skip_serializing_if = "is_default")]
    pub hide_long_help: bool,
    #[serde(skip_serializing_if = "is_default")]
    pub hide_possible_values: bool,
    #[serde(skip_serializing_if = "is_default")]
    pub hide_default_value: bool,
    #[serde(skip_serializing_if = "is_default")]
    pub hide_env: bool,
    #[serde(skip_serializing_if = "is_default")]
    pub hide_env_values: bool,
    #[serde(skip_serializing_if = "is_default")]
    pub help: Option<String>,
    #[serde(skip_serializing_if = "is_default")]
    pub long_help: Option<String>,
    /// Some(None) = explicitly no heading
    #[serde(skip_serializing_if = "is_default")]
    pub help_heading: Option<Option<String>>,
    #[serde(skip_serializing_if = "is_default")]
    pub next_line_help: bool,
    #[serde(skip_serializing_if = "is_default")]
    pub display_order: Option<usize>,
    #[serde(skip_serializing_if = "is_default")]
    pub value_names: Vec<String>,
    #[serde(skip_serializing_if = "is_default")]
    pub value_hint: Option<String>,
    #[serde(skip_serializing_if = "is_default")]
    pub conflicts_with: Vec<String>,
    #[serde(skip_serializing_if = "is_default")]
    pub overrides_with: Vec<String>,
    #[serde(skip_serializing_if = "is_default")]
    pub requires: Vec<String>,
    #[serde(skip_serializing_if = "is_default")]
    pub requires_ifs: Vec<(Pred, String)>,
    /// declare conflicts / overrides / conditional requirements through the plural builder methods
    #[serde(skip_serializing_if = "is_default")]
    pub plural_builders: bool,
    /// call every boolean setter twice, first with the opposite value and then with the wanted one (the outcome is the
    /// same definition, reached through another builder history)
    #[serde(skip_serializing_if = "is_default")]
    pub setter_history: bool,
    /// the argument's own id is handed to `Arg::new` as a `&'static str` (the ids named by relations stay owned
    /// `String`s, so identifiers of both kinds meet in the library's maps)
    #[serde(skip_serializing_if = "is_default")]
    pub static_id: bool,
    /// call every option-valued setter first with a decoy value; the wanted value (or an explicit reset where the
    /// description has none) follows, so the outcome is the same definition
    #[serde(skip_serializing_if = "is_default")]
    pub decoy_history: bool,
    #[serde(skip_serializing_if = "is_default")]
    pub required_if_eq_any: Vec<(String, String)>,
    #[serde(skip_serializing_if = "is_default")]
    pub required_if_eq_all: Vec<(String, String)>,
    #[serde(skip_serializing_if = "is_default")]
    pub required_unless_present_any: Vec<String>,
    #[serde(skip_serializing_if = "is_default")]
    pub required_unless_present_all: Vec<String>,
    #[serde(skip_serializing_if = "is_default")]
    pub groups: Vec<String>,
}

impl ArgSpec {
    pub fn is_positional(&self) -> bool {
        self.short.is_none() && self.long.is_none()
    }
    /// Effective value-count range after clap's own defaulting.
    pub fn value_range(&self) -> (usize, usize) {
        if let Some(r) = self.num_args {
            return r;
        }
        if !self.action.takes_values() {
            return (0, 0);
        }
        let n = self.value_names.len();
        if n > 1 {
            (n, n)
        } else {
            (1, 1)
        }
    }
}

#[derive(Serialize, Deserialize, Hash, Clone, Debug, PartialEq, Eq, Default)]
#[serde(default)]
pub struct GroupSpec {
    #[serde(skip_serializing_if = "is_default")]
    pub id: String,
    #[serde(skip_serializing_if = "is_default")]
    pub args: Vec<String>,
    #[serde(skip_serializing_if = "is_default")]
    pub required: bool,
    #[serde(skip_serializing_if = "is_default")]
    pub multiple: bool,
    #[serde(skip_serializing_if = "is_default")]
    pub requires: Vec<String>,
    #[serde(skip_serializing_if = "is_default")]
    pub conflicts_with: Vec<String>,
}

#[derive(Serialize, Deserialize, Hash, Clone, Debug, PartialEq, Eq, Default)]
#[serde(default)]
pub struct Settings {
    #[serde(skip_serializing_if = "is_default")]
    pub args_conflicts_with_subcommands: bool,
    #[serde(skip_serializing_if = "is_default")]
    pub subcommand_precedence_over_arg: bool,
    #[serde(skip_serializing_if = "is_default")]
    pub subcommand_negates_reqs: bool,
    #[serde(skip_serializing_if = "is_default")]
    pub subcommand_required: bool,
    #[serde(skip_serializing_if = "is_default")]
    pub arg_required_else_help: bool,
    #[serde(skip_serializing_if = "is_default")]
    pub allow_missing_positional: bool,
    #[serde(skip_serializing_if = "is_default")]
    pub infer_long_args: bool,
    #[serde(skip_serializing_if = "is_default")]
    pub infer_subcommands: bool,
    #[serde(skip_serializing_if = "is_default")]
    pub ignore_errors: bool,
    #[serde(skip_serializing_if = "is_default")]
    pub multicall: bool,
    #[serde(skip_serializing_if = "is_default")]
    pub no_binary_name: bool,
    #[serde(skip_serializing_if = "is_default")]
    pub allow_external_subcommands: bool,
    #[serde(skip_serializing_if = "is_default")]
    pub external_os: bool,
    #[serde(skip_serializing_if = "is_default")]
    pub args_override_self: bool,
    #[serde(skip_serializing_if = "is_default")]
    pub dont_delimit_trailing_values: bool,
    /// infer_long_args / infer_subcommands / args_override_self / dont_delimit_trailing_values of this level are
    /// the values in effect through an ancestor and are not set on this command itself
    pub inherit_globals: bool,
    /// build the command with explicit positional indices and the positionals declared in reverse order (the
    /// description keeps listing them in index order)
    pub positionals_declared_backwards: bool,
    /// construction route (same definition, other builder calls): bit 0 arguments through one `Command::args` call,
    /// bit 1 every argument passed through `Command::mut_arg` (in declaration order) after it was added, bit 2
    /// `Command::mut_args` identity pass, bit 3 subcommands through one `Command::subcommands` call, bit 4 every
    /// subcommand passed through `Command::mut_subcommand`, bit 5 groups through `Command::groups` + `mut_group`
    #[serde(skip_serializing_if = "is_default")]
    pub route: u8,
    /// option-valued and boolean setters of the command called with a decoy / the opposite value first
    #[serde(skip_serializing_if = "is_default")]
    pub decoy_history: bool,
    #[serde(skip_serializing_if = "is_default")]
    pub disable_help_flag: bool,
    #[serde(skip_serializing_if = "is_default")]
    pub disable_help_subcommand: bool,
    #[serde(skip_serializing_if = "is_default")]
    pub disable_version_flag: bool,
    #[serde(skip_serializing_if = "is_default")]
    pub propagate_version: bool,
    #[serde(skip_serializing_if = "is_default")]
    pub flatten_help: bool,
    #[serde(skip_serializing_if = "is_default")]
    pub next_line_help: bool,
    #[serde(skip_serializing_if = "is_default")]
    pub hide_possible_values: bool,
    #[serde(skip_serializing_if = "is_default")]
    pub dont_collapse_args_in_usage: bool,
    #[serde(skip_serializing_if = "is_default")]
    pub disable_colored_help: bool,
    #[serde(skip_serializing_if = "is_default")]
    pub help_expected: bool,
}

#[derive(Serialize, Deserialize, Hash, Clone, Debug, PartialEq, Eq, Default)]
#[serde(default)]
pub struct CmdSpec {
    #[serde(skip_serializing_if = "is_default")]
    pub name: String,
    #[serde(skip_serializing_if = "is_default")]
    pub bin_name: Option<String>,
    #[serde(skip_serializing_if = "is_default")]
    pub display_name: Option<String>,
    /// (alias, visible)
    #[serde(skip_serializing_if = "is_default")]
    pub aliases: Vec<(String, bool)>,
    #[serde(skip_serializing_if = "is_default")]
    pub short_flag: Option<char>,
    #[serde(skip_serializing_if = "is_default")]
    pub long_flag: Option<String>,
    #[serde(skip_serializing_if = "is_default")]
    pub short_flag_aliases: Vec<(char, bool)>,
    #[serde(skip_serializing_if = "is_default")]
    pub long_flag_aliases: Vec<(String, bool)>,
    #[serde(skip_serializing_if = "is_default")]
    pub settings: Settings,
    #[serde(skip_serializing_if = "is_default")]
    pub args: Vec<ArgSpec>,
    #[serde(skip_serializing_if = "is_default")]
    pub groups: Vec<GroupSpec>,
    #[serde(skip_serializing_if = "is_default")]
    pub subs: Vec<CmdSpec>,
    #[serde(skip_serializing_if = "is_default")]
    pub about: Option<String>,
    #[serde(skip_serializing_if = "is_default")]
    pub long_about: Option<String>,
    #[serde(skip_serializing_if = "is_default")]
    pub before_help: Option<String>,
    #[serde(skip_serializing_if = "is_default")]
    pub after_help: Option<String>,
    #[serde(skip_serializing_if = "is_default")]
    pub before_long_help: Option<String>,
    #[serde(skip_serializing_if = "is_default")]
    pub after_long_help: Option<String>,
    #[serde(skip_serializing_if = "is_default")]
    pub author: Option<String>,
    #[serde(skip_serializing_if = "is_default")]
    pub version: Option<String>,
    #[serde(skip_serializing_if = "is_default")]
    pub long_version: Option<String>,
    #[serde(skip_serializing_if = "is_default")]
    pub help_template: Option<String>,
    #[serde(skip_serializing_if = "is_default")]
    pub override_usage: Option<String>,
    #[serde(skip_serializing_if = "is_default")]
    pub override_help: Option<String>,
    #[serde(skip_serializing_if = "is_default")]
    pub term_width: Option<usize>,
    #[serde(skip_serializing_if = "is_default")]
    pub max_term_width: Option<usize>,
    #[serde(skip_serializing_if = "is_default")]
    pub subcommand_help_heading: Option<String>,
    #[serde(skip_serializing_if = "is_default")]
    pub subcommand_value_name: Option<String>,
    #[serde(skip_serializing_if = "is_default")]
    pub hide: bool,
    #[serde(skip_serializing_if = "is_default")]
    pub display_order: Option<usize>,
}

static ENV_LOCK: Mutex<()> = Mutex::new(());

fn value_hint(name: &str) -> ValueHint {
    match name {
        "AnyPath" => ValueHint::AnyPath,
        "FilePath" => ValueHint::FilePath,
        "DirPath" => ValueHint::DirPath,
        "ExecutablePath" => ValueHint::ExecutablePath,
        "CommandName" => ValueHint::CommandName,
        "CommandString" => ValueHint::CommandString,
        "CommandWithArguments" => ValueHint::CommandWithArguments,
        "Username" => ValueHint::Username,
        "Hostname" => ValueHint::Hostname,
        "Url" => ValueHint::Url,
        "EmailAddress" => ValueHint::EmailAddress,
        "Other" => ValueHint::Other,
        _ => ValueHint::Unknown,
    }
}

pub const VALUE_HINTS: &[&str] = &[
    "AnyPath",
    "FilePath",
    "DirPath",
    "ExecutablePath",
    "CommandName",
    "CommandString",
    "Username",
    "Hostname",
    "Url",
    "EmailAddress",
    "Other",
];

/// In the description of an environment value the private-use character U+E000 stands for the byte 0xFF (a value
/// that is not UTF-8).
pub fn env_bytes(v: &str) -> Vec<u8> {
    let mut out = Vec::new();
    for c in v.chars() {
        if c == '\u{e000}' {
            out.push(0xff);
        } else {
            let mut buf = [0u8; 4];
            out.extend_from_slice(c.encode_utf8(&mut buf).as_bytes());
        }
    }
    out
}

fn env_os(v: &str) -> std::ffi::OsString {
    #[cfg(unix)]
    {
        use std::os::unix::ffi::OsStringExt;
        std::ffi::OsString::from_vec(env_bytes(v))
    }
    #[cfg(not(unix))]
    {
        std::ffi::OsString::from(v.replace('\u{e000}', "?"))
    }
}

fn pred(p: &Pred) -> ArgPredicate {
    match p {
        Pred::IsPresent => ArgPredicate::IsPresent,
        Pred::Equals(v) => ArgPredicate::Equals(OsStr::from(v.clone())),
    }
}

/// One leaked copy per distinct text (ids come from small pools).
pub fn intern(s: &str) -> &'static str {
    static POOL: std::sync::Mutex<Option<std::collections::HashSet<&'static str>>> = std::sync::Mutex::new(None);
    let mut g = POOL.lock().unwrap_or_else(|e| e.into_inner());
    let set = g.get_or_insert_with(Default::default);
    if let Some(x) = set.get(s) {
        return x;
    }
    // (bounded: texts longer than 64 bytes are not interned by callers)
    let leaked: &'static str = Box::leak(s.to_owned().into_boxed_str());
    set.insert(leaked);
    leaked
}

impl ArgSpec {
    pub fn to_clap(&self) -> Arg {
        let mut a = if self.static_id && self.id.len() <= 64 { Arg::new(intern(&self.id)) } else { Arg::new(self.id.clone()) };
        if self.decoy_history {
            use clap::builder::Resettable::Reset;
            // decoys first ...
            a = a
                .short('Q')
                .long("decoy-long")
                .action(ArgAction::Count)
                .num_args(5)
                .value_delimiter(';')
                .value_terminator(";")
                .default_value("decoy-default")
                .default_missing_value("decoy-missing")
                .value_parser(clap::value_parser!(u8))
                .index(7)
                .help("decoy help")
                .long_help("decoy long help")
                .display_order(99)
                .value_name("DECOY")
                .value_hint(clap::ValueHint::FilePath)
                .group("decoy_group")
                .require_equals(!self.require_equals)
                .ignore_case(!self.ignore_case)
                .last(!self.last)
                .trailing_var_arg(!self.trailing_var_arg)
                .allow_hyphen_values(!self.allow_hyphen_values)
                .global(!self.global);
            {
                // (a variable that is set, so that a reset that does not take is visible as an env-sourced value)
                let _g = ENV_LOCK.lock().unwrap_or_else(|e| e.into_inner());
                std::env::set_var("VERIF_DECOY_ENV", "decoy-env");
                a = a.env("VERIF_DECOY_ENV");
                std::env::remove_var("VERIF_DECOY_ENV");
            }
            // ... then an explicit reset of each; the wanted values follow below
            a = a
                .short(Reset)
                .long(Reset)
                .action(Reset)
                .num_args(Reset)
                .value_delimiter(Reset)
                .value_terminator(Reset)
                .default_value(Reset)
                .default_missing_value(Reset)
                .env(Reset)
                .value_parser(Reset)
                .index(Reset)
                .help(Reset)
                .long_help(Reset)
                .display_order(Reset)
                .value_name(Reset)
                .value_hint(Reset)
                .group(Reset)
                .require_equals(self.require_equals)
                .ignore_case(self.ignore_case)
                .last(self.last)
                .trailing_var_arg(self.trailing_var_arg)
                .allow_hyphen_values(self.allow_hyphen_values)
                .global(self.global);
        }
        if let Some(c) = self.short {
            a = a.short(c);
        }
        if let Some(l) = &self.long {
            a = a.long(l.clone());
        }
        for (al, vis) in &self.aliases {
            a = if *vis { a.visible_alias(al.clone()) } else { a.alias(al.clone()) };
        }
        for (c, vis) in &self.short_aliases {
            a = if *vis { a.visible_short_alias(*c) } else { a.short_alias(*c) };
        }
        // `action_inferred`: leave the action to the library's default inference (value-taking arguments: Append for a
        // positional with an unbounded number of values, Set otherwise; SetTrue for `num_args(0)`); `action` states what that must come out as
        let inferable = match self.action {
            Action::Append => self.is_positional() && self.num_args.map(|(_, hi)| hi == usize::MAX).unwrap_or(false),
            Action::Set => !(self.is_positional() && self.num_args.map(|(_, hi)| hi == usize::MAX).unwrap_or(false)) && self.num_args.map(|(_, hi)| hi > 0).unwrap_or(true),
            // a flag declared through `num_args(0)` alone
            Action::SetTrue => !self.is_positional() && self.num_args == Some((0, 0)),
            _ => false,
        };
        if !(self.action_inferred && inferable) {
            a = a.action(match self.action {
                Action::Set => ArgAction::Set,
            Action::Append => ArgAction::Append,
            Action::SetTrue => ArgAction::SetTrue,
            Action::SetFalse => ArgAction::SetFalse,
            Action::Count => ArgAction::Count,
            Action::Help => ArgAction::Help,
            Action::HelpShort => ArgAction::HelpShort,
            Action::HelpLong => ArgAction::HelpLong,
                Action::Version => ArgAction::Version,
            });
        }
        if let Some((lo, hi)) = self.num_args {
            a = if hi == usize::MAX { a.num_args(lo..) } else { a.num_args(lo..=hi) };
        }
        if let Some(d) = self.value_delimiter {
            a = a.value_delimiter(d);
        }
        if let Some(t) = &self.value_terminator {
            a = a.value_terminator(t.clone());
        }
        if self.require_equals {
            a = a.require_equals(true);
        }
        if !self.default_values.is_empty() {
            a = a.default_values(self.default_values.iter().cloned());
        }
        if !self.default_missing_values.is_empty() {
            a = a.default_missing_values(self.default_missing_values.iter().cloned());
        }
        for (other, p, val) in &self.default_value_ifs {
            a = match val {
                Some(v) => a.default_value_if(other.clone(), pred(p), OsStr::from(v.clone())),
                None => a.default_value_if(other.clone(), pred(p), clap::builder::Resettable::Reset),
            };
        }
        if let Some((name, val)) = &self.env {
            // `Arg::env` snapshots the variable at definition time
            let _g = ENV_LOCK.lock().unwrap_or_else(|e| e.into_inner());
            match val {
                Some(v) => std::env::set_var(name, env_os(v)),
                None => std::env::remove_var(name),
            }
            a = a.env(name.clone());
            std::env::remove_var(name);
        }
        if self.action.takes_values() {
            a = match &self.parser {
                ParserSpec::Str => a,
                ParserSpec::OsStr => a.value_parser(clap::value_parser!(std::ffi::OsString)),
                ParserSpec::PathBuf => a.value_parser(clap::value_parser!(std::path::PathBuf)),
                ParserSpec::NonEmpty => a.value_parser(clap::builder::NonEmptyStringValueParser::new()),
                ParserSpec::I64 { lo, hi } => a.value_parser(clap::value_parser!(i64).range(*lo..=*hi)),
                ParserSpec::U8 => a.value_parser(clap::value_parser!(u8)),
                ParserSpec::U16 { lo, hi } => a.value_parser(clap::value_parser!(u16).range(*lo as i64..=*hi as i64)),
                ParserSpec::Bool => a.value_parser(clap::value_parser!(bool)),
                ParserSpec::Boolish => a.value_parser(clap::builder::BoolishValueParser::new()),
                ParserSpec::Falsey => a.value_parser(clap::builder::FalseyValueParser::new()),
                ParserSpec::Possible(pvs) => a.value_parser(
                    pvs.iter()
                        .map(|pv| {
                            let mut p = PossibleValue::new(pv.name.clone()).hide(pv.hide);
                            for al in &pv.aliases {
                                p = p.alias(al.clone());
                            }
                            if let Some(h) = &pv.help {
                                p = p.help(h.clone());
                            }
                            p
                        })
                        .collect::<Vec<_>>(),
                ),
            };
        }
        if self.ignore_case {
            a = a.ignore_case(true);
        }
        if let Some(i) = self.index {
            a = a.index(i);
        }
        if self.last {
            a = a.last(true);
        }
        if self.trailing_var_arg {
            a = a.trailing_var_arg(true);
        }
        if self.allow_hyphen_values {
            a = a.allow_hyphen_values(true);
        }
        a = if self.setter_history { a.allow_negative_numbers(!self.allow_negative_numbers).allow_negative_numbers(self.allow_negative_numbers) } else if self.allow_negative_numbers { a.allow_negative_numbers(true) } else { a };
        a = if self.setter_history { a.required(!self.required).required(self.required) } else if self.required { a.required(true) } else { a };
        a = if self.setter_history { a.exclusive(!self.exclusive).exclusive(self.exclusive) } else if self.exclusive { a.exclusive(true) } else { a };
        if self.global {
            a = a.global(true);
        }
        a = if self.setter_history { a.hide(!self.hide).hide(self.hide) } else if self.hide { a.hide(true) } else { a };
        a = if self.setter_history { a.hide_short_help(!self.hide_short_help).hide_short_help(self.hide_short_help) } else if self.hide_short_help { a.hide_short_help(true) } else { a };
        a = if self.setter_history { a.hide_long_help(!self.hide_long_help).hide_long_help(self.hide_long_help) } else if self.hide_long_help { a.hide_long_help(true) } else { a };
        a = if self.setter_history { a.hide_possible_values(!self.hide_possible_values).hide_possible_values(self.hide_possible_values) } else if self.hide_possible_values { a.hide_possible_values(true) } else { a };
        a = if self.setter_history { a.hide_default_value(!self.hide_default_value).hide_default_value(self.hide_default_value) } else if self.hide_default_value { a.hide_default_value(true) } else { a };
        a = if self.setter_history { a.hide_env(!self.hide_env).hide_env(self.hide_env) } else if self.hide_env { a.hide_env(true) } else { a };
        a = if self.setter_history { a.hide_env_values(!self.hide_env_values).hide_env_values(self.hide_env_values) } else if self.hide_env_values { a.hide_env_values(true) } else { a };
        if let Some(h) = &self.help {
            a = a.help(h.clone());
        }
        if let Some(h) = &self.long_help {
            a = a.long_help(h.clone());
        }
        if let Some(h) = &self.help_heading {
            a = match h {
                Some(h) => a.help_heading(h.clone()),
                None => a.help_heading(clap::builder::Resettable::Reset),
            };
        }
        a = if self.setter_history { a.next_line_help(!self.next_line_help).next_line_help(self.next_line_help) } else if self.next_line_help { a.next_line_help(true) } else { a };
        if let Some(o) = self.display_order {
            a = a.display_order(o);
        }
        if !self.value_names.is_empty() {
            a = a.value_names(self.value_names.iter().cloned());
        }
        if let Some(h) = &self.value_hint {
            a = a.value_hint(value_hint(h));
        }
        if self.plural_builders {
            // the same relations through the plural builder methods
            // (the first relation through the singular method, the rest through the plural one: a plural call adds to
            // what was declared before)
            if let Some((first, rest)) = self.conflicts_with.split_first() {
                a = a.conflicts_with(first.clone()).conflicts_with_all(rest.iter().cloned());
            }
            if let Some((first, rest)) = self.overrides_with.split_first() {
                a = a.overrides_with(first.clone()).overrides_with_all(rest.iter().cloned());
            }
            for c in &self.requires {
                a = a.requires(c.clone());
            }
            if let Some(((p0, t0), rest)) = self.requires_ifs.split_first() {
                a = a.requires_if(pred(p0), t0.clone()).requires_ifs(rest.iter().map(|(p, t)| (pred(p), t.clone())));
            }
        } else {
            for c in &self.conflicts_with {
                a = a.conflicts_with(c.clone());
            }
            for c in &self.overrides_with {
                a = a.overrides_with(c.clone());
            }
            for c in &self.requires {
                a = a.requires(c.clone());
            }
            for (p, t) in &self.requires_ifs {
                a = a.requires_if(pred(p), t.clone());
            }
        }
        if !self.required_if_eq_any.is_empty() {
            a = a.required_if_eq_any(self.required_if_eq_any.iter().map(|(i, v)| (i.clone(), v.clone())));
        }
        if !self.required_if_eq_all.is_empty() {
            a = a.required_if_eq_all(self.required_if_eq_all.iter().map(|(i, v)| (i.clone(), v.clone())));
        }
        if !self.required_unless_present_any.is_empty() {
            a = a.required_unless_present_any(self.required_unless_present_any.iter().cloned());
        }
        if !self.required_unless_present_all.is_empty() {
            a = a.required_unless_present_all(self.required_unless_present_all.iter().cloned());
        }
        for g in &self.groups {
            a = a.group(g.clone());
        }
        a
    }
}

impl CmdSpec {
    pub fn to_clap(&self) -> Command {
        let s = &self.settings;
        let mut c = Command::new(self.name.clone());
        if s.decoy_history {
            use clap::builder::Resettable::Reset;
            c = c
                .bin_name("decoy-bin")
                .display_name("decoy-display")
                .short_flag('Q')
                .about("decoy about")
                .long_about("decoy long about")
                .before_help("decoy before")
                .after_help("decoy after")
                .before_long_help("decoy before long")
                .after_long_help("decoy after long")
                .author("decoy author")
                .version("0.0.0-decoy")
                .long_version("0.0.0-decoy-long")
                .help_template("decoy {name}")
                .override_usage("decoy usage")
                .override_help("decoy help")
                .subcommand_help_heading("DECOYS")
                .subcommand_value_name("DECOY")
                .display_order(99)
                .args_conflicts_with_subcommands(!s.args_conflicts_with_subcommands)
                .subcommand_precedence_over_arg(!s.subcommand_precedence_over_arg)
                .subcommand_negates_reqs(!s.subcommand_negates_reqs)
                .subcommand_required(!s.subcommand_required)
                .arg_required_else_help(!s.arg_required_else_help)
                .allow_missing_positional(!s.allow_missing_positional)
                .ignore_errors(!s.ignore_errors)
                .multicall(!s.multicall)
                .no_binary_name(!s.no_binary_name)
                .allow_external_subcommands(!s.allow_external_subcommands)
                .disable_help_flag(!s.disable_help_flag)
                .disable_help_subcommand(!s.disable_help_subcommand)
                .disable_version_flag(!s.disable_version_flag)
                .propagate_version(!s.propagate_version)
                .flatten_help(!s.flatten_help)
                .next_line_help(!s.next_line_help)
                .hide_possible_values(!s.hide_possible_values)
                .dont_collapse_args_in_usage(!s.dont_collapse_args_in_usage)
                .disable_colored_help(!s.disable_colored_help)
                .help_expected(!s.help_expected)
                .hide(!self.hide);
            if !s.inherit_globals {
                c = c
                    .infer_long_args(!s.infer_long_args)
                    .infer_subcommands(!s.infer_subcommands)
                    .args_override_self(!s.args_override_self)
                    .dont_delimit_trailing_values(!s.dont_delimit_trailing_values);
            }
            c = c
                .bin_name(Reset)
                .display_name(Reset)
                .short_flag(Reset)
                .about(Reset)
                .long_about(Reset)
                .before_help(Reset)
                .after_help(Reset)
                .before_long_help(Reset)
                .after_long_help(Reset)
                .author(Reset)
                .version(Reset)
                .long_version(Reset)
                .help_template(Reset)
                .override_usage(Reset)
                .override_help(Reset)
                .subcommand_help_heading(Reset)
                .subcommand_value_name(Reset)
                .display_order(Reset)
                .hide(self.hide);
        }
        if let Some(b) = &self.bin_name {
            c = c.bin_name(b.clone());
        }
        if let Some(b) = &self.display_name {
            c = c.display_name(b.clone());
        }
        for (al, vis) in &self.aliases {
            c = if *vis { c.visible_alias(al.clone()) } else { c.alias(al.clone()) };
        }
        if let Some(f) = self.short_flag {
            c = c.short_flag(f);
        }
        if let Some(f) = &self.long_flag {
            c = c.long_flag(f.clone());
        }
        for (f, vis) in &self.short_flag_aliases {
            c = if *vis { c.visible_short_flag_alias(*f) } else { c.short_flag_alias(*f) };
        }
        for (f, vis) in &self.long_flag_aliases {
            c = if *vis { c.visible_long_flag_alias(f.clone()) } else { c.long_flag_alias(f.clone()) };
        }
        c = c
            .args_conflicts_with_subcommands(s.args_conflicts_with_subcommands)
            .subcommand_precedence_over_arg(s.subcommand_precedence_over_arg)
            .subcommand_negates_reqs(s.subcommand_negates_reqs)
            .subcommand_required(s.subcommand_required)
            .arg_required_else_help(s.arg_required_else_help)
            .allow_missing_positional(s.allow_missing_positional)
            .ignore_errors(s.ignore_errors)
            .multicall(s.multicall)
            .no_binary_name(s.no_binary_name)
            .allow_external_subcommands(s.allow_external_subcommands)
            .disable_help_flag(s.disable_help_flag)
            .disable_help_subcommand(s.disable_help_subcommand)
            .disable_version_flag(s.disable_version_flag)
            .propagate_version(s.propagate_version)
            .flatten_help(s.flatten_help)
            .next_line_help(s.next_line_help)
            .hide_possible_values(s.hide_possible_values)
            .dont_collapse_args_in_usage(s.dont_collapse_args_in_usage)
            .disable_colored_help(s.disable_colored_help)
            .help_expected(s.help_expected);
        if !s.inherit_globals {
            // (with inherit_globals the description states what is in effect through an ancestor; the definition
            // relies on the library's propagation of global settings)
            c = c
                .infer_long_args(s.infer_long_args)
                .infer_subcommands(s.infer_subcommands)
                .args_override_self(s.args_override_self)
                .dont_delimit_trailing_values(s.dont_delimit_trailing_values);
        }
        if s.allow_external_subcommands && s.external_os {
            c = c.external_subcommand_value_parser(clap::value_parser!(std::ffi::OsString));
        }
        if let Some(t) = &self.about {
            c = c.about(t.clone());
        }
        if let Some(t) = &self.long_about {
            c = c.long_about(t.clone());
        }
        if let Some(t) = &self.before_help {
            c = c.before_help(t.clone());
        }
        if let Some(t) = &self.after_help {
            c = c.after_help(t.clone());
        }
        if let Some(t) = &self.before_long_help {
            c = c.before_long_help(t.clone());
        }
        if let Some(t) = &self.after_long_help {
            c = c.after_long_help(t.clone());
        }
        if let Some(t) = &self.author {
            c = c.author(t.clone());
        }
        if let Some(t) = &self.version {
            c = c.version(t.clone());
        }
        if let Some(t) = &self.long_version {
            c = c.long_version(t.clone());
        }
        if let Some(t) = &self.help_template {
            c = c.help_template(t.clone());
        }
        if let Some(t) = &self.override_usage {
            c = c.override_usage(t.clone());
        }
        if let Some(t) = &self.override_help {
            c = c.override_help(t.clone());
        }
        if let Some(w) = self.term_width {
            c = c.term_width(w);
        }
        if let Some(w) = self.max_term_width {
            c = c.max_term_width(w);
        }
        if let Some(t) = &self.subcommand_help_heading {
            c = c.subcommand_help_heading(t.clone());
        }
        if let Some(t) = &self.subcommand_value_name {
            c = c.subcommand_value_name(t.clone());
        }
        if self.hide {
            c = c.hide(true);
        }
        if let Some(o) = self.display_order {
            c = c.display_order(o);
        }
        if s.positionals_declared_backwards && self.args.iter().filter(|a| a.is_positional()).all(|a| a.index.is_none()) {
            // same command, other declaration order: explicit indices, positionals added last-to-first
            let mut k = 0;
            let mut pos = Vec::new();
            for a in &self.args {
                if a.is_positional() {
                    k += 1;
                    pos.push(a.to_clap().index(k));
                } else {
                    c = c.arg(a.to_clap());
                }
            }
            for a in pos.into_iter().rev() {
                c = c.arg(a);
            }
        } else if s.route & 1 != 0 {
            c = c.args(self.args.iter().map(|a| a.to_clap()).collect::<Vec<_>>());
        } else {
            for a in &self.args {
                c = c.arg(a.to_clap());
            }
        }
        if s.route & 2 != 0 {
            // `mut_arg` moves the argument to the end of the list: going through all of them in order keeps the order
            for a in &self.args {
                c = c.mut_arg(a.id.clone(), |x| x.hide(a.hide));
            }
        }
        if s.route & 4 != 0 {
            c = c.mut_args(|x| x);
        }
        if s.route & 32 != 0 {
            let mk = |g: &GroupSpec| {
                let mut cg = ArgGroup::new(g.id.clone()).required(g.required).multiple(g.multiple);
                for a in &g.args {
                    cg = cg.arg(a.clone());
                }
                cg.requires_all(g.requires.iter().cloned()).conflicts_with_all(g.conflicts_with.iter().cloned())
            };
            c = c.groups(self.groups.iter().map(mk).collect::<Vec<_>>());
            for g in &self.groups {
                c = c.mut_group(g.id.clone(), |x| x.required(g.required));
            }
        }
        for g in self.groups.iter().filter(|_| s.route & 32 == 0) {
            let mut cg = ArgGroup::new(g.id.clone())
                .args(g.args.iter().cloned())
                .required(g.required)
                .multiple(g.multiple);
            for r in &g.requires {
                cg = cg.requires(r.clone());
            }
            for r in &g.conflicts_with {
                cg = cg.conflicts_with(r.clone());
            }
            c = c.group(cg);
        }
        if s.route & 8 != 0 {
            c = c.subcommands(self.subs.iter().map(|sc| sc.to_clap()).collect::<Vec<_>>());
        } else {
            for sc in &self.subs {
                c = c.subcommand(sc.to_clap());
            }
        }
        if s.route & 16 != 0 {
            for sc in &self.subs {
                c = c.mut_subcommand(sc.name.clone(), |x| x.hide(sc.hide));
            }
        }
        c
    }

    pub fn arg(&self, id: &str) -> Option<&ArgSpec> {
        self.args.iter().find(|a| a.id == id)
    }

    pub fn depth(&self) -> usize {
        1 + self.subs.iter().map(|s| s.depth()).max().unwrap_or(0)
    }

    pub fn count_args(&self) -> usize {
        self.args.len() + self.subs.iter().map(|s| s.count_args()).sum::<usize>()
    }

    /// Every spelling that names this (sub)command on its parent's level.
    pub fn all_names(&self) -> Vec<String> {
        let mut v = vec![self.name.clone()];
        v.extend(self.aliases.iter().map(|a| a.0.clone()));
        v
    }
}

/// Source files whose panics during `Command::build()` are clap's own
/// configuration checks (the validity gate).
pub const GATE_FILES: &[&str] = &[
    "builder/debug_asserts.rs",
    "builder/arg.rs",
    "builder/command.rs",
    "builder/range.rs",
    "builder/value_parser.rs",
    "builder/arg_group.rs",
    "builder/possible_value.rs",
    "builder/str.rs",
    "builder/os_str.rs",
    "builder/styled_str.rs",
];

pub enum Built {
    Ok(Command),
    /// rejected by clap's configuration checks
    Invalid(vcore::PanicInfo),
    /// panicked somewhere else while building
    Panic(vcore::PanicInfo),
}

impl CmdSpec {
    /// Generator invariants that minimisation on the serialised form must not break:
    /// non-empty ids and names (the empty id is clap's id for external subcommand values).
    pub fn well_formed(&self) -> bool {
        self.args.iter().all(|a| !a.id.is_empty() && a.long.as_deref() != Some(""))
            && self.groups.iter().all(|g| !g.id.is_empty())
            && self.subs.iter().all(|s| !s.name.is_empty() && s.well_formed())
    }
}

/// Build the definition and run clap's configuration checks on the whole tree.
pub fn build_checked(spec: &CmdSpec) -> Built {
    if !spec.well_formed() {
        return Built::Invalid(vcore::PanicInfo {
            message: "spec not well-formed (empty id or name)".into(),
            file: "vmodel".into(),
            line: 0,
        });
    }
    match vcore::catch(|| {
        let mut c = spec.to_clap();
        c.build();
        c
    }) {
        Ok(_) => {
            // hand out an unbuilt command (fresh, as a user would have it)
            Built::Ok(spec.to_clap())
        }
        Err(p) => {
            if p.is_in(GATE_FILES) {
                Built::Invalid(p)
            } else {
                Built::Panic(p)
            }
        }
    }
}
