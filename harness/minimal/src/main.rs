//! C01 against a minimal feature set of clap (see Cargo.toml).
#[path = "../../vcheck/src/c01.rs"]
mod c01;
#[path = "../../vcheck/src/util.rs"]
mod util;

fn main() {
    vcore::main_for(|id| if id == "C01" { Some(c01::check()) } else { None })
}
