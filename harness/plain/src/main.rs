//! C04 against clap's default feature set (see Cargo.toml).
#[path = "../../vcheck/src/c04.rs"]
mod c04;
#[path = "../../vcheck/src/util.rs"]
mod util;

fn main() {
    vcore::main_for(|id| if id == "C04" { Some(c04::check()) } else { None })
}
