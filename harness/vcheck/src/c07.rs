//! C07 — Occurrences combine by action: last-wins, append-in-order, saturating count.

use crate::util::os;
use clap::error::{ContextKind, ErrorKind};
use serde::{Deserialize, Serialize};
use vcore::*;
use vmodel::conv::*;
use vmodel::observe::{observe, Source};
use vmodel::{build_checked, Action, Built, CmdSpec};

#[derive(Serialize, Deserialize, Hash, Clone, Debug)]
pub struct OccCase {
    pub spec: CmdSpec,
    pub inv: Invocation,
    pub argv: Vec<String>,
    pub cluster_entry: Vec<bool>,
}

pub struct Occurrences;

fn dec(v: &[String]) -> Vec<std::ffi::OsString> {
    v.iter().map(|s| os(&vals_hex::decode(s).unwrap_or_else(|_| s.as_bytes().to_vec()))).collect()
}

impl Property for Occurrences {
    type Case = OccCase;
    fn name(&self) -> &'static str {
        "occurrences"
    }
    fn rule(&self) -> String {
        "conventional command trees with every action (Set, Append, SetTrue, SetFalse, Count) x args_override_self on/off x per-argument \
         self overrides x override relations between arguments of a level (one- and two-directional, chains) x occurrence sequences in \
         which repeatable arguments occur 1-3 times, Count flags in runs of 20/254/255/256/257/300, and (1 in 6) an argument without \
         override permission is repeated, interleaved with other arguments and spelled freely (clusters, attached values, ...). Oracle \
         = sequential model: an occurrence of X first removes every present Y with X overrides Y or Y overrides X, then applies X's \
         action (Set: replace, repeat without permission => the parse must fail with ArgumentConflict naming X; Append: push the \
         occurrence; Count: saturating +1; SetTrue/SetFalse: the flag value); compared with raw occurrences, indices, get_count / \
         get_flag and sources (an overridden argument is no longer CommandLine-sourced). Non-trivial: some argument occurs >= 2 times \
         or both ends of an override relation occur; distinct = distinct (spec, invocation, argv)."
            .into()
    }
    fn budget(&self, tier: Tier) -> Budget {
        Budget {
            cases: tier.pick(1_500_000, 20_000_000),
            tape_len: 2500,
        }
    }
    fn decode(&self, t: &mut Tape<'_>) -> OccCase {
        let co = ConvOpts {
            overrides: true,
            max_depth: 3,
            ..ConvOpts::default()
        };
        let spec = gen_conv_spec(t, &co);
        let io = InvOpts {
            repeats: true,
            illegal_repeats: true,
            long_runs: true,
            ..InvOpts::default()
        };
        let inv = gen_invocation(t, &spec, &io);
        let mut st = SpellStats::default();
        let (argv, cluster_entry) = match spell(t, &spec, &inv, &mut st) {
            Some(sp) => (sp.argv.iter().map(|b| show_bytes(b)).collect(), sp.cluster_entry),
            None => (Vec::new(), Vec::new()),
        };
        OccCase {
            spec,
            inv,
            argv,
            cluster_entry,
        }
    }
    fn run(&self, case: &OccCase, ctx: &mut Ctx) -> Verdict {
        if case.argv.is_empty() {
            return Verdict::Discard("no-unambiguous-spelling");
        }
        let cmd = match build_checked(&case.spec) {
            Built::Ok(c) => c,
            // conventional trees are valid by construction: the library's configuration check refusing one is a failure
            Built::Invalid(p) => {
                return Verdict::fail(
                    "occurrences:valid-definition-refused",
                    format!("a definition that is valid by construction is refused by the configuration check at {}:{}: {}", p.file, p.line, p.message),
                )
            }
            Built::Panic(p) => return Verdict::Fail(Failure::from_panic(&p)),
        };
        let Some(expected) = expect_seq(&case.spec, &case.inv, &case.cluster_entry) else {
            return Verdict::Discard("invocation-outside-model");
        };
        let res = match catch(|| cmd.try_get_matches_from(dec(&case.argv))) {
            Err(p) => return Verdict::Fail(Failure::from_panic(&p)),
            Ok(r) => r,
        };
        // classes
        let mut repeated = false;
        let mut override_pair = false;
        let mut level: &CmdSpec = &case.spec;
        for lv in &case.inv.levels {
            let mut seen: Vec<&String> = Vec::new();
            for o in &lv.occs {
                let id = match o {
                    Occ::Flag { arg } | Occ::Opt { arg, .. } | Occ::Pos { arg, .. } => arg,
                    Occ::Escape => continue,
                };
                if seen.contains(&id) {
                    repeated = true;
                }
                if let Some(a) = level.arg(id) {
                    if seen.iter().any(|s| a.overrides_with.contains(s) && *s != id)
                        || seen.iter().any(|s| level.arg(s).map(|sa| sa.overrides_with.contains(id) && *s != id).unwrap_or(false))
                    {
                        override_pair = true;
                    }
                }
                seen.push(id);
            }
            if let Some(n) = &lv.sub {
                if let Some(s) = level.subs.iter().find(|s| s.name == *n) {
                    level = s;
                }
            }
        }
        match (expected, res) {
            (Expected::Conflict { candidates }, Err(e)) => {
                ensure!(
                    e.kind() == ErrorKind::ArgumentConflict,
                    "occurrences:repeat-wrong-error-kind",
                    "argv {:?}: {:?} are repeated without override permission; expected ArgumentConflict, got {:?}: {}",
                    case.argv,
                    candidates,
                    e.kind(),
                    e
                );
                // the error names one of them
                let mut named = false;
                for (level, arg) in &candidates {
                    let mut lvspec = &case.spec;
                    for lv in case.inv.levels.iter().take(*level) {
                        if let Some(n) = &lv.sub {
                            lvspec = lvspec.subs.iter().find(|s| s.name == *n).unwrap();
                        }
                    }
                    let a = lvspec.arg(arg).unwrap();
                    named |= e.context().any(|(k, v)| {
                        k == ContextKind::InvalidArg && {
                            let v = v.to_string();
                            a.long.as_ref().map(|l| v.contains(&format!("--{l}"))).unwrap_or(false)
                                || a.short.map(|s| v.contains(&format!("-{s}"))).unwrap_or(false)
                                // a positional is displayed by its value name: <id> / [id] with an optional `...`
                                || (a.is_positional() && (v.contains(&format!("<{}>", a.id)) || v.contains(&format!("[{}]", a.id))))
                        }
                    });
                }
                ensure!(
                    named,
                    "occurrences:conflict-does-not-name-the-argument",
                    "argv {:?}: ArgumentConflict for the repeated {:?} names none of them: {}",
                    case.argv,
                    candidates,
                    e
                );
                ctx.label("illegal-repeat-rejected");
                ctx.nontrivial();
                Verdict::Pass
            }
            (Expected::Conflict { candidates }, Ok(_)) => Verdict::fail(
                "occurrences:illegal-repeat-accepted",
                format!("argv {:?}: {:?} are repeated without override permission but the parse succeeded", case.argv, candidates),
            ),
            (Expected::Ok(_), Err(e)) => Verdict::fail(
                format!("occurrences:valid-line-rejected:{:?}", e.kind()),
                format!("argv {:?} spells {:?} and every repeat is permitted, but clap says: {}", case.argv, case.inv, e),
            ),
            (Expected::Ok(exp), Ok(m)) => {
                let obs = observe(&m);
                if let Err((sig, msg)) = compare_explicit(&case.spec, &exp, &obs, true) {
                    return Verdict::fail(sig.replace("attribution:", "occurrences:"), format!("argv {:?}: {}\ninvocation {:?}", case.argv, msg, case.inv));
                }
                // typed views, level by level
                let mut lvspec = &case.spec;
                let mut lm = &m;
                for (li, el) in exp.iter().enumerate() {
                    for a in &lvspec.args {
                        let given = el.args.get(&a.id);
                        match a.action {
                            Action::Count => {
                                let want: u8 = given
                                    .and_then(|e| e.occurrences.first())
                                    .and_then(|o| o.first())
                                    .and_then(|v| String::from_utf8_lossy(v).parse::<u8>().ok())
                                    .unwrap_or(0);
                                let got = lm.get_count(&a.id);
                                ensure!(
                                    got == want,
                                    "occurrences:count",
                                    "argv {:?}: level {li} get_count({:?}) = {} expected {}",
                                    case.argv,
                                    a.id,
                                    got,
                                    want
                                );
                                if want == 255 {
                                    ctx.label("count-saturated-at-255");
                                }
                            }
                            Action::SetTrue | Action::SetFalse => {
                                let present = given.is_some();
                                let want = if a.action == Action::SetTrue { present } else { !present };
                                let got = lm.get_flag(&a.id);
                                ensure!(
                                    got == want,
                                    "occurrences:flag",
                                    "argv {:?}: level {li} get_flag({:?}) = {} expected {}",
                                    case.argv,
                                    a.id,
                                    got,
                                    want
                                );
                            }
                            _ => {}
                        }
                        // an argument that was given but overridden away is not command-line sourced
                        if given.is_none() {
                            let src = lm.value_source(&a.id);
                            ensure!(
                                src != Some(clap::parser::ValueSource::CommandLine),
                                "occurrences:overridden-still-commandline",
                                "argv {:?}: level {li} {:?} should not be present from the command line",
                                case.argv,
                                a.id
                            );
                        }
                    }
                    if let Some(n) = &el.sub {
                        lvspec = lvspec.subs.iter().find(|s| s.name == *n).unwrap();
                        lm = lm.subcommand_matches(n).unwrap();
                    }
                }
                let _ = Source::Default;
                if repeated {
                    ctx.label("repeated-argument");
                }
                if override_pair {
                    ctx.label("override-pair-both-given");
                }
                if repeated || override_pair {
                    ctx.nontrivial();
                }
                Verdict::Pass
            }
        }
    }
}

// ------------------------------------------------------------ a global `Set` argument given at several levels

#[derive(Serialize, Deserialize, Hash, Clone, Debug)]
pub struct GlobalCase {
    /// depth of the chain `prog sub sub ...` (1..=3 subcommands)
    pub depth: usize,
    /// level that defines the global option
    pub def_level: usize,
    pub override_self: bool,
    /// values given for `--glob` per level (several at one level only with override_self)
    pub given: Vec<Vec<String>>,
    pub attached: bool,
}

pub struct GlobalLastWins;

impl Property for GlobalLastWins {
    type Case = GlobalCase;
    fn name(&self) -> &'static str {
        "global-set-last-wins"
    }
    fn rule(&self) -> String {
        "chains prog sub{1..3} with one global Set option defined at level 0..depth and given, with pairwise distinct values, at any          subset of the levels at or below its definition (2-3 times at one level when args_override_self is on; also spelled through          its short, attached or detached); a local flag at every level keeps the levels busy. Oracle: the occurrence written last on          the command line is the final value, at every level of the chain that can see the argument, with source CommandLine; never          given => absent everywhere. Non-trivial: given at two or more levels."
            .into()
    }
    fn budget(&self, tier: Tier) -> Budget {
        Budget { cases: tier.pick(100_000, 1_000_000), tape_len: 64 }
    }
    fn decode(&self, t: &mut Tape<'_>) -> GlobalCase {
        let depth = t.range(1, 3);
        let def_level = t.range(0, depth);
        let override_self = t.chance(1, 3);
        let mut n = 0;
        let mut given = Vec::new();
        for l in 0..=depth {
            let k = if l < def_level {
                0
            } else {
                match t.weighted(&[3, 4, 1]) {
                    0 => 0,
                    1 => 1,
                    _ => {
                        if override_self {
                            t.range(2, 3)
                        } else {
                            1
                        }
                    }
                }
            };
            given.push(
                (0..k)
                    .map(|_| {
                        n += 1;
                        format!("v{n}")
                    })
                    .collect(),
            );
        }
        GlobalCase { depth, def_level, override_self, given, attached: t.bool() }
    }
    fn run(&self, case: &GlobalCase, ctx: &mut Ctx) -> Verdict {
        use clap::{Arg, ArgAction, Command};
        let glob = || Arg::new("glob").long("glob").short('g').global(true).action(ArgAction::Set);
        let mut cmd: Option<Command> = None;
        for l in (0..=case.depth).rev() {
            let mut c = Command::new(if l == 0 { "prog".to_owned() } else { format!("sub{l}") })
                .arg(Arg::new("local").long("local").action(ArgAction::SetTrue));
            if l == case.def_level {
                c = c.arg(glob());
            }
            if l == 0 {
                c = c.args_override_self(case.override_self);
            }
            if let Some(child) = cmd.take() {
                c = c.subcommand(child);
            }
            cmd = Some(c);
        }
        let cmd = cmd.unwrap();
        let mut argv: Vec<String> = vec!["prog".into()];
        let mut last: Option<&String> = None;
        let mut levels_given = 0;
        for (l, vals) in case.given.iter().enumerate() {
            if l > 0 {
                argv.push(format!("sub{l}"));
            }
            argv.push("--local".into());
            for (i, v) in vals.iter().enumerate() {
                match (case.attached, i % 2) {
                    (true, 0) => argv.push(format!("--glob={v}")),
                    (true, _) => argv.push(format!("-g{v}")),
                    (false, 0) => argv.extend(["--glob".to_owned(), v.clone()]),
                    (false, _) => argv.extend(["-g".to_owned(), v.clone()]),
                }
                last = Some(v);
            }
            if !vals.is_empty() {
                levels_given += 1;
            }
        }
        let m = match catch(|| cmd.try_get_matches_from(&argv)) {
            Err(p) => return Verdict::Fail(Failure::from_panic(&p)),
            Ok(Err(e)) => {
                return Verdict::fail(
                    format!("global-set:valid-line-rejected:{:?}", e.kind()),
                    format!("argv {:?} ({case:?}): every repeat is permitted, but clap says: {e}", argv),
                )
            }
            Ok(Ok(m)) => m,
        };
        let mut lm = &m;
        for l in 0..=case.depth {
            if l >= case.def_level {
                let got = lm.get_one::<String>("glob");
                ensure!(
                    got == last,
                    "global-set:not-the-last-occurrence",
                    "argv {:?}: the last occurrence of the global --glob is {:?}, level {l} reports {:?}",
                    argv,
                    last,
                    got
                );
                let src = lm.value_source("glob");
                ensure!(
                    src == last.map(|_| clap::parser::ValueSource::CommandLine),
                    "global-set:source",
                    "argv {:?}: level {l} reports source {:?} for --glob (last occurrence {:?})",
                    argv,
                    src,
                    last
                );
            }
            ensure!(lm.get_flag("local"), "global-set:local-flag-lost", "argv {:?}: level {l} lost its own --local", argv);
            if l < case.depth {
                match lm.subcommand() {
                    Some((n, sm)) if n == format!("sub{}", l + 1) => lm = sm,
                    other => {
                        return Verdict::fail(
                            "global-set:wrong-chain",
                            format!("argv {:?}: level {l} reports subcommand {:?}", argv, other.map(|x| x.0)),
                        )
                    }
                }
            }
        }
        if levels_given >= 2 {
            ctx.label("global-given-at-several-levels");
            ctx.nontrivial();
        }
        Verdict::Pass
    }
}

pub fn check() -> Check {
    Check {
        id: "C07",
        parts: vec![Box::new(Gen(Occurrences)), Box::new(Gen(GlobalLastWins))],
        assumptions: vec![
            "no env/default interplay here (C06); overrides relate flags/options of one level".into(),
            "across levels only a global Set option is judged (last occurrence wins); how Append / Count globals given at several \
             levels combine is not pinned down by the statement and is left to C09's agreement rule"
                .into(),
            "trusted base: the sequential model of ArgAction and Arg::overrides_with as documented".into(),
        ],
    }
}
