//! C04 — Typed values are exactly what the value parser's language admits.

use crate::util::os;
use clap::builder::{TypedValueParser, ValueParser};
use clap::error::{ContextKind, ErrorKind};
use clap::{Arg, Command};
use serde::{Deserialize, Serialize};
use std::ops::Bound;
use vcore::*;

// =============================================================== ranged ints

#[derive(Serialize, Deserialize, Hash, Clone, Copy, Debug, PartialEq, Eq)]
pub enum IntTy {
    I8,
    I16,
    I32,
    I64,
    U8,
    U16,
    U32,
    U64,
}

impl IntTy {
    fn min(self) -> i128 {
        match self {
            IntTy::I8 => i8::MIN as i128,
            IntTy::I16 => i16::MIN as i128,
            IntTy::I32 => i32::MIN as i128,
            IntTy::I64 => i64::MIN as i128,
            _ => 0,
        }
    }
    fn max(self) -> i128 {
        match self {
            IntTy::I8 => i8::MAX as i128,
            IntTy::I16 => i16::MAX as i128,
            IntTy::I32 => i32::MAX as i128,
            IntTy::I64 => i64::MAX as i128,
            IntTy::U8 => u8::MAX as i128,
            IntTy::U16 => u16::MAX as i128,
            IntTy::U32 => u32::MAX as i128,
            IntTy::U64 => u64::MAX as i128,
        }
    }
}

#[derive(Serialize, Deserialize, Hash, Clone, Copy, Debug, PartialEq, Eq)]
pub enum B {
    Unbounded,
    Incl(i128),
    Excl(i128),
}

#[derive(Serialize, Deserialize, Hash, Clone, Debug)]
pub struct IntCase {
    /// true: RangedU64ValueParser (base u64), false: RangedI64ValueParser (base i64)
    pub base_u64: bool,
    pub ty: IntTy,
    /// true: `value_parser!(T)` (starts at T's range), false: `Ranged*ValueParser::<T>::new()` (starts at the base range)
    pub via_macro: bool,
    /// successive `.range(..)` calls
    pub ranges: Vec<(B, B)>,
    #[serde(with = "crate::util::bytes_hex")]
    pub input: Vec<u8>,
}

/// The documented decimal grammar of the base type, evaluated exactly.
/// None = not in the grammar; Some(None) = in the grammar but beyond i128.
fn ref_parse_int(s: &[u8], allow_minus: bool) -> Option<Option<i128>> {
    let (neg, digits) = match s.first() {
        Some(b'+') => (false, &s[1..]),
        Some(b'-') if allow_minus => (true, &s[1..]),
        _ => (false, s),
    };
    if digits.is_empty() || !digits.iter().all(|c| c.is_ascii_digit()) {
        return None;
    }
    let mut v: i128 = 0;
    for d in digits {
        v = match v.checked_mul(10).and_then(|x| x.checked_add((*d - b'0') as i128)) {
            Some(x) => x,
            None => return Some(None),
        };
    }
    Some(Some(if neg { -v } else { v }))
}

fn in_range(v: i128, r: &(B, B)) -> bool {
    let lo_ok = match r.0 {
        B::Unbounded => true,
        B::Incl(l) => v >= l,
        B::Excl(l) => v > l,
    };
    let hi_ok = match r.1 {
        B::Unbounded => true,
        B::Incl(h) => v <= h,
        B::Excl(h) => v < h,
    };
    lo_ok && hi_ok
}

fn bound_i64(b: B) -> Bound<i64> {
    match b {
        B::Unbounded => Bound::Unbounded,
        B::Incl(v) => Bound::Included(v as i64),
        B::Excl(v) => Bound::Excluded(v as i64),
    }
}
fn bound_u64(b: B) -> Bound<u64> {
    match b {
        B::Unbounded => Bound::Unbounded,
        B::Incl(v) => Bound::Included(v as u64),
        B::Excl(v) => Bound::Excluded(v as u64),
    }
}

struct Outcome {
    /// Ok(value as i128) or Err(kind, names_arg)
    direct: Result<i128, (ErrorKind, bool)>,
    via_cmd: Result<(i128, Vec<u8>), (ErrorKind, bool)>,
}

fn names_arg(e: &clap::Error) -> bool {
    e.context()
        .any(|(k, v)| k == ContextKind::InvalidArg && v.to_string().contains("--opt"))
}

macro_rules! run_typed {
    ($t:ty, $parser:expr, $input:expr) => {{
        let parser = $parser;
        let raw = os($input);
        // parse_ref is always handed a built argument by its callers
        let mut cmd0 = Command::new("p").arg(Arg::new("opt").long("opt"));
        cmd0.build();
        let arg0 = cmd0.get_arguments().find(|a| a.get_id() == "opt").unwrap();
        let direct = TypedValueParser::parse_ref(&parser, &cmd0, Some(arg0), &raw)
            .map(|v: $t| v as i128)
            .map_err(|e| (e.kind(), names_arg(&e)));
        let cmd = Command::new("p").arg(Arg::new("opt").long("opt").value_parser(parser.clone()));
        let mut tok = b"--opt=".to_vec();
        tok.extend_from_slice($input);
        let via_cmd = match cmd.try_get_matches_from([os(b"p"), os(&tok)]) {
            Ok(m) => {
                let v: $t = *m.get_one::<$t>("opt").expect("value present after Ok parse");
                let raw = m.get_raw("opt").unwrap().next().unwrap().as_encoded_bytes().to_vec();
                Ok((v as i128, raw))
            }
            Err(e) => Err((e.kind(), names_arg(&e))),
        };
        Outcome { direct, via_cmd }
    }};
}

macro_rules! build_i64 {
    ($t:ty, $case:expr) => {{
        let mut p = if $case.via_macro {
            let r: clap::builder::RangedI64ValueParser<$t> = clap::value_parser!($t).into();
            r
        } else {
            clap::builder::RangedI64ValueParser::<$t>::new()
        };
        for r in &$case.ranges {
            p = p.range((bound_i64(r.0), bound_i64(r.1)));
        }
        p
    }};
}
macro_rules! build_u64 {
    ($t:ty, $case:expr) => {{
        let mut p = if $case.via_macro {
            // the shape value_parser!(u64) has: the parser restricted to T's own range
            clap::builder::RangedU64ValueParser::<$t>::from(0u64..=(<$t>::MAX as u64))
        } else {
            clap::builder::RangedU64ValueParser::<$t>::new()
        };
        for r in &$case.ranges {
            p = p.range((bound_u64(r.0), bound_u64(r.1)));
        }
        p
    }};
}

fn run_int_real(case: &IntCase) -> Outcome {
    if case.base_u64 {
        match case.ty {
            IntTy::U8 => run_typed!(u8, build_u64!(u8, case), &case.input),
            IntTy::U16 => run_typed!(u16, build_u64!(u16, case), &case.input),
            IntTy::U32 => run_typed!(u32, build_u64!(u32, case), &case.input),
            _ => run_typed!(u64, build_u64!(u64, case), &case.input),
        }
    } else {
        match case.ty {
            IntTy::I8 => run_typed!(i8, build_i64!(i8, case), &case.input),
            IntTy::I16 => run_typed!(i16, build_i64!(i16, case), &case.input),
            IntTy::I32 => run_typed!(i32, build_i64!(i32, case), &case.input),
            IntTy::U8 => run_typed!(u8, build_i64!(u8, case), &case.input),
            IntTy::U16 => run_typed!(u16, build_i64!(u16, case), &case.input),
            IntTy::U32 => run_typed!(u32, build_i64!(u32, case), &case.input),
            _ => run_typed!(i64, build_i64!(i64, case), &case.input),
        }
    }
}

fn int_case_valid(case: &IntCase) -> bool {
    // which (base, type) pairs exist
    if case.base_u64 {
        matches!(case.ty, IntTy::U8 | IntTy::U16 | IntTy::U32 | IntTy::U64)
    } else {
        !matches!(case.ty, IntTy::U64)
    }
}

fn check_int(case: &IntCase, ctx: &mut Ctx) -> Verdict {
    if !int_case_valid(case) {
        return Verdict::Discard("no-such-parser");
    }
    let out = match catch(|| run_int_real(case)) {
        Ok(o) => o,
        Err(p) => {
            // `.range()` asserts (debug) that each call narrows: clap's own configuration check
            if p.is_in(&["builder/value_parser.rs"]) && p.message.contains("must be in") {
                return Verdict::Discard("range-not-narrowing");
            }
            return Verdict::Fail(Failure::from_panic(&p));
        }
    };
    let show = || format!("{case:?}");
    let utf8 = std::str::from_utf8(&case.input).is_ok();
    let (base_lo, base_hi) = if case.base_u64 { (0, u64::MAX as i128) } else { (i64::MIN as i128, i64::MAX as i128) };
    let expected: Result<i128, &'static str> = if !utf8 {
        Err("utf8")
    } else {
        match ref_parse_int(&case.input, !case.base_u64) {
            None => Err("grammar"),
            Some(None) => Err("overflow"),
            Some(Some(v)) => {
                if v < base_lo || v > base_hi {
                    Err("base-range")
                } else if !case.ranges.iter().all(|r| in_range(v, r)) {
                    Err("declared-range")
                } else if case.via_macro && (v < case.ty.min() || v > case.ty.max()) {
                    Err("type-range")
                } else if v < case.ty.min() || v > case.ty.max() {
                    Err("type-range")
                } else {
                    Ok(v)
                }
            }
        }
    };
    match (&expected, &out.direct) {
        (Ok(v), Ok(r)) => ensure!(v == r, "int:wrong-value", "{}: parse_ref gave {} expected {}", show(), r, v),
        (Ok(v), Err((k, _))) => {
            return Verdict::fail("int:rejects-member", format!("{}: {} is in the language but parse_ref failed with {:?}", show(), v, k))
        }
        (Err(why), Ok(r)) => {
            return Verdict::fail(
                "int:accepts-non-member",
                format!("{}: not in the language ({}) but parse_ref returned {}", show(), why, r),
            )
        }
        (Err(why), Err((k, named))) => {
            if *why == "utf8" {
                ensure!(*k == ErrorKind::InvalidUtf8, "int:error-kind", "{}: non-UTF-8 input gave {:?}", show(), k);
            } else {
                ensure!(
                    *k == ErrorKind::ValueValidation || *k == ErrorKind::InvalidValue,
                    "int:error-kind",
                    "{}: rejection ({}) has kind {:?}",
                    show(),
                    why,
                    k
                );
                ensure!(*named, "int:error-does-not-name-arg", "{}: rejection ({}) does not name --opt", show(), why);
            }
        }
    }
    match (&expected, &out.via_cmd) {
        (Ok(v), Ok((r, raw))) => {
            ensure!(v == r, "int:wrong-value", "{}: get_one gave {} expected {}", show(), r, v);
            ensure!(*raw == case.input, "int:raw-differs", "{}: get_raw gave {:?}", show(), show_bytes(raw));
        }
        (Ok(v), Err((k, _))) => {
            return Verdict::fail("int:rejects-member", format!("{}: {} is in the language but the parse failed with {:?}", show(), v, k))
        }
        (Err(why), Ok((r, _))) => {
            return Verdict::fail(
                "int:accepts-non-member",
                format!("{}: not in the language ({}) but the command parsed it to {}", show(), why, r),
            )
        }
        (Err(why), Err((k, named))) => {
            if *why != "utf8" {
                ensure!(
                    *k == ErrorKind::ValueValidation || *k == ErrorKind::InvalidValue,
                    "int:error-kind",
                    "{}: command-level rejection ({}) has kind {:?}",
                    show(),
                    why,
                    k
                );
                ensure!(*named, "int:error-does-not-name-arg", "{}: command-level rejection ({}) does not name --opt", show(), why);
            } else {
                ensure!(*k == ErrorKind::InvalidUtf8, "int:error-kind", "{}: non-UTF-8 input gave {:?}", show(), k);
            }
        }
    }
    match &expected {
        Ok(_) => ctx.label("int:accepted"),
        Err(w) => ctx.label_owned(format!("int:rejected:{w}")),
    }
    // non-trivial: within 2 of a boundary, or carries sign / leading zeros
    let mut nt = case.input.first().map(|c| *c == b'+' || *c == b'-').unwrap_or(false)
        || (case.input.len() > 1 && case.input.iter().skip_while(|c| **c == b'+' || **c == b'-').next() == Some(&b'0'));
    if let Some(Some(v)) = ref_parse_int(&case.input, true) {
        let mut bounds = vec![case.ty.min(), case.ty.max(), base_lo, base_hi];
        for r in &case.ranges {
            for b in [r.0, r.1] {
                if let B::Incl(x) | B::Excl(x) = b {
                    bounds.push(x);
                }
            }
        }
        if bounds.iter().any(|b| (v - b).abs() <= 2) {
            nt = true;
            ctx.label("int:near-boundary");
        }
    }
    if nt {
        ctx.nontrivial();
    }
    Verdict::Pass
}

fn boundary_strings(vals: &[i128]) -> Vec<Vec<u8>> {
    let mut out: Vec<Vec<u8>> = Vec::new();
    for v in vals {
        for d in [-2i128, -1, 0, 1, 2] {
            let x = v + d;
            let s = x.to_string();
            out.push(s.clone().into_bytes());
            if x >= 0 {
                out.push(format!("+{s}").into_bytes());
                out.push(format!("-{s}").into_bytes());
                out.push(format!("000{s}").into_bytes());
                out.push(format!("+0{s}").into_bytes());
                out.push(format!("{:0>40}", s).into_bytes());
            } else {
                out.push(format!("-0{}", &s[1..]).into_bytes());
                out.push(format!("-{:0>40}", &s[1..]).into_bytes());
            }
        }
    }
    for s in [
        "", " ", "-", "+", "+-1", "-+1", "--1", " 1", "1 ", "1_0", "0x10", "1e3", "1.0", "1.", ".5", "\u{661}", "\u{ff11}", "1\u{0}",
        "\t1", "1\n", "٣", "0", "-0", "+0", "00", "340282366920938463463374607431768211456", "-340282366920938463463374607431768211456",
        "99999999999999999999999999999999999999999999",
    ] {
        out.push(s.as_bytes().to_vec());
    }
    out.push(vec![b'1', 0xff]);
    out.push(vec![0xc3, 0x28]);
    out.push(vec![0xff]);
    out
}

const TYPES_I64: &[IntTy] = &[IntTy::I8, IntTy::I16, IntTy::I32, IntTy::I64, IntTy::U8, IntTy::U16, IntTy::U32];
const TYPES_U64: &[IntTy] = &[IntTy::U8, IntTy::U16, IntTy::U32, IntTy::U64];

fn gen_range_chain(t: &mut Tape<'_>, mut lo: i128, mut hi: i128) -> Vec<(B, B)> {
    // each range narrows the previous bounds [lo, hi] (inclusive)
    let n = t.weighted(&[3, 5, 2, 1]);
    let mut out = Vec::new();
    for _ in 0..n {
        if lo > hi {
            break;
        }
        let span = hi - lo;
        let pick = |t: &mut Tape<'_>| -> i128 {
            match t.weighted(&[3, 3, 2, 2, 2]) {
                0 => lo,
                1 => hi,
                2 => lo + (span.min(3)).min(t.range(0, 3) as i128),
                3 => hi - (span.min(3)).min(t.range(0, 3) as i128),
                _ => {
                    let cands = [0i128, 1, -1, 10, 100, 127, 128, 255, 256, -128, -129, 65535, 1000];
                    let c = cands[t.choose(cands.len())];
                    c.clamp(lo, hi)
                }
            }
        };
        let a = pick(t);
        let b = pick(t);
        let (mut l, mut h) = if a <= b { (a, b) } else { (b, a) };
        if t.chance(1, 10) {
            // empty range
            std::mem::swap(&mut l, &mut h);
        }
        let lb = match t.weighted(&[5, 2, 2]) {
            0 => B::Incl(l),
            1 if l > lo => B::Excl(l - 1),
            1 => B::Incl(l),
            _ => B::Unbounded,
        };
        let hb = match t.weighted(&[5, 3, 2]) {
            0 => B::Incl(h),
            1 if h < hi => B::Excl(h + 1),
            1 => B::Incl(h),
            _ => B::Unbounded,
        };
        out.push((lb, hb));
        if !matches!(lb, B::Unbounded) {
            lo = l;
        }
        if !matches!(hb, B::Unbounded) {
            hi = h;
        }
    }
    out
}

pub struct Ints;

impl Property for Ints {
    type Case = IntCase;
    fn name(&self) -> &'static str {
        "ranged-int"
    }
    fn rule(&self) -> String {
        "RangedI64ValueParser<T> for T in i8,i16,i32,i64,u8,u16,u32 and RangedU64ValueParser<T> for T in u8..u64, built by \
         value_parser!(T) or ::new(), with 0-3 successive .range() calls (inclusive/exclusive/unbounded ends, empty ranges, ranges wider \
         than T via ::new()) x candidate strings: enumerated = every type/range boundary +-2 rendered plain, with +, with -, with leading \
         zeros (3 and 40 digits), plus a fixed list of near-misses (empty, blanks, _ 0x 1e3 1.0, non-ASCII digits, NUL, i128 overflow, \
         non-UTF-8) for a fixed matrix of ~90 parser configurations; random = random configurations x boundary-derived and random digit \
         strings. Oracle: independent reading of the decimal grammar ([+-]?[0-9]+ for the i64 base, +?[0-9]+ for the u64 base) in exact \
         i128 arithmetic; accept iff in base range, every declared range and the target type; value equal to the mathematical value and \
         get_raw equal to the input; rejections have kind ValueValidation/InvalidValue (InvalidUtf8 for non-UTF-8) and name the argument. \
         Checked directly (parse_ref) and through a one-option command. Non-trivial: candidate within 2 of a boundary, or with a sign or \
         leading zero; distinct = distinct (configuration, input)."
            .into()
    }
    fn budget(&self, tier: Tier) -> Budget {
        Budget {
            cases: tier.pick(1_500_000, 20_000_000),
            tape_len: 300,
        }
    }
    fn decode(&self, t: &mut Tape<'_>) -> IntCase {
        let base_u64 = t.chance(1, 3);
        let ty = if base_u64 { *t.pick(TYPES_U64) } else { *t.pick(TYPES_I64) };
        let via_macro = t.chance(2, 3);
        let (base_lo, base_hi) = if base_u64 { (0, u64::MAX as i128) } else { (i64::MIN as i128, i64::MAX as i128) };
        let (lo, hi) = if via_macro { (ty.min(), ty.max()) } else { (base_lo, base_hi) };
        let ranges = gen_range_chain(t, lo, hi);
        // candidate
        let mut interesting = vec![ty.min(), ty.max(), base_lo, base_hi, 0];
        for r in &ranges {
            for b in [r.0, r.1] {
                if let B::Incl(x) | B::Excl(x) = b {
                    interesting.push(x);
                }
            }
        }
        let input = match t.weighted(&[8, 2, 2]) {
            0 => {
                let cands = boundary_strings(&[interesting[t.choose(interesting.len())]]);
                cands[t.choose(cands.len())].clone()
            }
            1 => {
                let n = t.range(0, 25);
                let mut s = Vec::new();
                match t.choose(4) {
                    0 => s.push(b'-'),
                    1 => s.push(b'+'),
                    _ => {}
                }
                for _ in 0..n {
                    s.push(b'0' + t.choose(10) as u8);
                }
                s
            }
            _ => {
                let n = t.range(0, 6);
                (0..n).map(|_| *t.pick(&[b'1', b'0', b'-', b'+', b' ', b'_', b'.', b'e', b'x', 0xff, 0xd9, 0xa1])).collect()
            }
        };
        IntCase {
            base_u64,
            ty,
            via_macro,
            ranges,
            input,
        }
    }
    fn run(&self, case: &IntCase, ctx: &mut Ctx) -> Verdict {
        check_int(case, ctx)
    }
    fn enumerate(&self, tier: Tier, shard: usize, nshards: usize, visit: &mut dyn FnMut(IntCase) -> bool) -> bool {
        let _ = tier;
        let mut configs: Vec<(bool, IntTy, bool, Vec<(B, B)>)> = Vec::new();
        for (base_u64, tys) in [(false, TYPES_I64), (true, TYPES_U64)] {
            for ty in tys {
                for via_macro in [true, false] {
                    let (lo, hi) = (ty.min(), ty.max());
                    let mid = (lo + hi) / 2;
                    let mut chains: Vec<Vec<(B, B)>> = vec![
                        vec![],
                        vec![(B::Incl(lo), B::Incl(hi))],
                        vec![(B::Incl(lo.max(-10).min(hi)), B::Incl(hi.min(10)))],
                        vec![(B::Excl(lo), B::Excl(hi))],
                        vec![(B::Unbounded, B::Incl(mid))],
                        vec![(B::Incl(mid), B::Unbounded)],
                        vec![(B::Incl(1.clamp(lo, hi)), B::Excl(1.clamp(lo, hi)))],
                    ];
                    if !via_macro {
                        // wider than T
                        let (bl, bh) = if base_u64 { (0, u64::MAX as i128) } else { (i64::MIN as i128, i64::MAX as i128) };
                        chains.push(vec![(B::Incl((lo - 5).max(bl)), B::Incl((hi + 5).min(bh)))]);
                    }
                    for c in chains {
                        configs.push((base_u64, *ty, via_macro, c));
                    }
                }
            }
        }
        let mut idx = 0usize;
        for (base_u64, ty, via_macro, ranges) in configs {
            let mut vals = vec![ty.min(), ty.max(), 0, i64::MIN as i128, i64::MAX as i128, u64::MAX as i128];
            for r in &ranges {
                for b in [r.0, r.1] {
                    if let B::Incl(x) | B::Excl(x) = b {
                        vals.push(x);
                    }
                }
            }
            for input in boundary_strings(&vals) {
                idx += 1;
                if idx % nshards != shard {
                    continue;
                }
                if !visit(IntCase {
                    base_u64,
                    ty,
                    via_macro,
                    ranges: ranges.clone(),
                    input,
                }) {
                    return true;
                }
            }
        }
        true
    }
}

// ================================================================ bool-like

#[derive(Serialize, Deserialize, Hash, Clone, Debug)]
pub struct BoolCase {
    /// 0 = BoolValueParser, 1 = Boolish, 2 = Falsey
    pub kind: u8,
    #[serde(with = "crate::util::bytes_hex")]
    pub input: Vec<u8>,
}

const DOC_TRUE: &[&str] = &["y", "yes", "t", "true", "on", "1"];
const DOC_FALSE: &[&str] = &["n", "no", "f", "false", "off", "0"];

fn check_bool(case: &BoolCase, ctx: &mut Ctx) -> Verdict {
    let parser: ValueParser = match case.kind {
        0 => clap::value_parser!(bool).into(),
        1 => clap::builder::BoolishValueParser::new().into(),
        _ => clap::builder::FalseyValueParser::new().into(),
    };
    let cmd = Command::new("p").arg(Arg::new("opt").long("opt").value_parser(parser));
    let mut tok = b"--opt=".to_vec();
    tok.extend_from_slice(&case.input);
    let res = cmd.try_get_matches_from([os(b"p"), os(&tok)]);
    let utf8 = std::str::from_utf8(&case.input).ok();
    // documented languages
    let expected: Result<bool, &str> = match utf8 {
        None => Err("utf8"),
        Some(s) => {
            let lower = s.to_ascii_lowercase();
            match case.kind {
                0 => match s {
                    "true" => Ok(true),
                    "false" => Ok(false),
                    _ => Err("not-a-literal"),
                },
                1 => {
                    if s.is_ascii() && DOC_TRUE.contains(&lower.as_str()) {
                        Ok(true)
                    } else if s.is_ascii() && DOC_FALSE.contains(&lower.as_str()) {
                        Ok(false)
                    } else {
                        Err("not-a-literal")
                    }
                }
                _ => {
                    if s.is_empty() || (s.is_ascii() && DOC_FALSE.contains(&lower.as_str())) {
                        Ok(false)
                    } else {
                        Ok(true)
                    }
                }
            }
        }
    };
    let show = || format!("{case:?}");
    match (expected, res) {
        (Ok(v), Ok(m)) => {
            let got = *m.get_one::<bool>("opt").unwrap();
            ensure!(got == v, "bool:wrong-value", "{}: got {} expected {}", show(), got, v);
            let raw = m.get_raw("opt").unwrap().next().unwrap().as_encoded_bytes().to_vec();
            ensure!(raw == case.input, "bool:raw-differs", "{}", show());
            ctx.label("bool:accepted");
        }
        (Ok(v), Err(e)) => {
            return Verdict::fail("bool:rejects-literal", format!("{}: documented literal ({v}) rejected: {:?}", show(), e.kind()))
        }
        (Err(w), Ok(m)) => {
            return Verdict::fail(
                "bool:accepts-non-literal",
                format!("{}: not a documented literal ({w}) but parsed to {:?}", show(), m.get_one::<bool>("opt")),
            )
        }
        (Err(w), Err(e)) => {
            if w == "utf8" && e.kind() == ErrorKind::InvalidUtf8 {
                // the generic decoding failure carries no argument
            } else {
                ensure!(
                    e.kind() == ErrorKind::ValueValidation || e.kind() == ErrorKind::InvalidValue,
                    "bool:error-kind",
                    "{}: {:?}",
                    show(),
                    e.kind()
                );
                ensure!(names_arg(&e), "bool:error-does-not-name-arg", "{}: {}", show(), e);
            }
            ctx.label("bool:rejected");
        }
    }
    if let Some(s) = utf8 {
        let l = s.to_lowercase();
        if s != l || DOC_TRUE.iter().chain(DOC_FALSE).any(|d| l.starts_with(d) || d.starts_with(l.as_str())) {
            ctx.nontrivial();
        }
    }
    Verdict::Pass
}

pub struct Bools;

fn case_patterns(word: &str) -> Vec<String> {
    let cs: Vec<char> = word.chars().collect();
    let n = cs.len().min(5);
    let mut out = Vec::new();
    for mask in 0..(1u32 << n) {
        let s: String = cs
            .iter()
            .enumerate()
            .map(|(i, c)| if i < n && mask & (1 << i) != 0 { c.to_ascii_uppercase() } else { *c })
            .collect();
        out.push(s);
    }
    out
}

impl Property for Bools {
    type Case = BoolCase;
    fn name(&self) -> &'static str {
        "bool-like"
    }
    fn rule(&self) -> String {
        "BoolValueParser / BoolishValueParser / FalseyValueParser x (enumerated) every documented literal in every ASCII case pattern, \
         near misses (prefixes, extensions, padded, doubled), Unicode case tricks (Kelvin sign, dotted I, fullwidth), empty, non-UTF-8; \
         (random) short strings over the literals' letters. Oracle: the documented tables restated here (true/false exactly; \
         y yes t true on 1 / n no f false off 0 case-insensitively; falsey: empty or a false literal => false, anything else => true). \
         Non-trivial: input differs from its lower-case form or is a prefix/extension of a literal."
            .into()
    }
    fn budget(&self, tier: Tier) -> Budget {
        Budget {
            cases: tier.pick(300_000, 3_000_000),
            tape_len: 80,
        }
    }
    fn decode(&self, t: &mut Tape<'_>) -> BoolCase {
        let kind = t.choose(3) as u8;
        let n = t.range(0, 6);
        let letters: &[u8] = b"yestrueonfalf01YESTRUONFAL \xc4\xb0\xe2\x84\xaa\xff";
        let input = match t.weighted(&[3, 2]) {
            0 => (0..n).map(|_| *t.pick(letters)).collect(),
            _ => {
                let w = *t.pick(&["y", "yes", "t", "true", "on", "1", "n", "no", "f", "false", "off", "0"]);
                let mut s: Vec<u8> = w.bytes().map(|c| if t.bool() { c.to_ascii_uppercase() } else { c }).collect();
                match t.choose(4) {
                    0 => s.push(*t.pick(letters)),
                    1 => {
                        s.pop();
                    }
                    _ => {}
                }
                s
            }
        };
        BoolCase { kind, input }
    }
    fn run(&self, case: &BoolCase, ctx: &mut Ctx) -> Verdict {
        check_bool(case, ctx)
    }
    fn enumerate(&self, _tier: Tier, shard: usize, nshards: usize, visit: &mut dyn FnMut(BoolCase) -> bool) -> bool {
        let mut inputs: Vec<Vec<u8>> = Vec::new();
        for w in DOC_TRUE.iter().chain(DOC_FALSE) {
            for p in case_patterns(w) {
                inputs.push(p.clone().into_bytes());
                inputs.push(format!(" {p}").into_bytes());
                inputs.push(format!("{p} ").into_bytes());
                inputs.push(format!("{p}{p}").into_bytes());
                inputs.push(format!("{p}s").into_bytes());
                if p.len() > 1 {
                    inputs.push(p[..p.len() - 1].as_bytes().to_vec());
                }
            }
        }
        for s in ["", "2", "-1", "10", "01", "tru", "truee", "fals", "ye", "nope", "\u{212a}", "o\u{ff4e}", "\u{130}", "TR\u{dc}E", "yes\n", "\u{ff59}es"] {
            inputs.push(s.as_bytes().to_vec());
        }
        inputs.push(vec![0xff]);
        inputs.push(vec![b'y', 0x80]);
        let mut idx = 0;
        for kind in 0..3u8 {
            for i in &inputs {
                idx += 1;
                if idx % nshards != shard {
                    continue;
                }
                if !visit(BoolCase { kind, input: i.clone() }) {
                    return true;
                }
            }
        }
        true
    }
}

// =========================================================== possible values

#[derive(Serialize, Deserialize, Hash, Clone, Debug)]
pub struct PvCase {
    /// (name, aliases)
    pub values: Vec<(String, Vec<String>)>,
    pub ignore_case: bool,
    pub input: String,
    /// how the aliases are declared: 0 = one `alias` call each, 1 = one `aliases` call, 2 = `alias` for the first and
    /// `aliases` for the rest, 3 = two `aliases` calls
    #[serde(default)]
    pub alias_style: u8,
}

pub struct Possible;

/// Case folding of `ignore_case`: Unicode with clap's `unicode` feature, ASCII without it (documented on
/// `Arg::ignore_case`). The main harness enables `unicode`; `harness/plain` (default features) sets `ascii-fold`.
fn fold(s: &str) -> String {
    if cfg!(feature = "ascii-fold") {
        s.to_ascii_lowercase()
    } else {
        s.to_lowercase()
    }
}

fn check_pv(case: &PvCase, ctx: &mut Ctx) -> Verdict {
    let pvs: Vec<clap::builder::PossibleValue> = case
        .values
        .iter()
        .map(|(n, als)| {
            let mut p = clap::builder::PossibleValue::new(n.clone());
            match case.alias_style {
                1 => p = p.aliases(als.clone()),
                2 if !als.is_empty() => {
                    p = p.alias(als[0].clone());
                    p = p.aliases(als[1..].to_vec());
                }
                3 => {
                    let h = als.len() / 2;
                    p = p.aliases(als[..h].to_vec());
                    p = p.aliases(als[h..].to_vec());
                }
                _ => {
                    for a in als {
                        p = p.alias(a.clone());
                    }
                }
            }
            p
        })
        .collect();
    let cmd = Command::new("p").arg(Arg::new("opt").long("opt").value_parser(pvs).ignore_case(case.ignore_case));
    let res = cmd.try_get_matches_from(["p".to_owned(), format!("--opt={}", case.input)]);
    let spellings: Vec<&String> = case.values.iter().flat_map(|(n, a)| std::iter::once(n).chain(a.iter())).collect();
    let member = if case.ignore_case {
        spellings.iter().any(|s| fold(s) == fold(&case.input))
    } else {
        spellings.iter().any(|s| **s == case.input)
    };
    let show = || format!("{case:?}");
    match (member, res) {
        (true, Ok(m)) => {
            let got = m.get_one::<String>("opt").unwrap();
            ensure!(*got == case.input, "pv:value-differs", "{}: got {:?}", show(), got);
            ctx.label("pv:accepted");
        }
        (true, Err(e)) => return Verdict::fail("pv:rejects-member", format!("{}: declared spelling rejected: {:?}", show(), e.kind())),
        (false, Ok(m)) => {
            return Verdict::fail(
                "pv:accepts-non-member",
                format!("{}: accepted {:?}", show(), m.get_one::<String>("opt")),
            )
        }
        (false, Err(e)) => {
            ensure!(
                e.kind() == ErrorKind::InvalidValue || e.kind() == ErrorKind::ValueValidation,
                "pv:error-kind",
                "{}: {:?}",
                show(),
                e.kind()
            );
            ensure!(names_arg(&e), "pv:error-does-not-name-arg", "{}: {}", show(), e);
            ctx.label("pv:rejected");
        }
    }
    let case_variant = spellings.iter().any(|s| **s != case.input && fold(s) == fold(&case.input));
    let is_alias = case.values.iter().any(|(_, a)| a.iter().any(|x| fold(x) == fold(&case.input)));
    if case_variant {
        ctx.label("pv:case-variant-of-a-spelling");
    }
    if is_alias {
        ctx.label("pv:alias-spelling");
    }
    if case_variant || is_alias || spellings.iter().any(|s| s.starts_with(case.input.as_str()) || case.input.starts_with(s.as_str())) {
        ctx.nontrivial();
    }
    Verdict::Pass
}

impl Property for Possible {
    type Case = PvCase;
    fn name(&self) -> &'static str {
        "possible-values"
    }
    fn rule(&self) -> String {
        "random sets of 1-4 possible values with 0-2 aliases each (letters in mixed case, digits, '-', a non-ASCII letter with a simple \
         case pair) x ignore_case on/off x candidates: a name, an alias, a case flip of either, a prefix, an extension, an unrelated \
         word, the empty string, a compatibility character (KELVIN SIGN, ANGSTROM SIGN) in place of its ordinary letter. Oracle: member iff equal to a declared name/alias (after lower-casing both iff ignore_case); accepted \
         value equals the input; rejection is InvalidValue/ValueValidation naming the argument. Non-trivial: candidate is an alias, a \
         case variant, or a prefix/extension of a spelling."
            .into()
    }
    fn budget(&self, tier: Tier) -> Budget {
        Budget {
            cases: tier.pick(750_000, 6_000_000),
            tape_len: 200,
        }
    }
    fn decode(&self, t: &mut Tape<'_>) -> PvCase {
        let mut pool: Vec<&str> = vec![
            "fast", "Fast", "FAST", "slow", "auto", "Auto", "quick", "QUICK", "a", "A", "x-y", "X-Y", "1", "\u{e9}t\u{e9}", "\u{c9}T\u{c9}", "never",
            "Never", "fa", "dry_run", "[auto]", "a@b", "x^y", "ok", "Kind", "\u{e5}r", "\u{c5}R",
        ];
        let mut values = Vec::new();
        let n = t.range(1, 4);
        for _ in 0..n {
            if pool.is_empty() {
                break;
            }
            let i = t.choose(pool.len());
            let name = pool.remove(i).to_owned();
            let mut aliases = Vec::new();
            for _ in 0..t.weighted(&[3, 3, 1]) {
                if pool.is_empty() {
                    break;
                }
                let i = t.choose(pool.len());
                aliases.push(pool.remove(i).to_owned());
            }
            values.push((name, aliases));
        }
        let ignore_case = t.bool();
        let spellings: Vec<String> = values.iter().flat_map(|(n, a)| std::iter::once(n.clone()).chain(a.iter().cloned())).collect();
        let base = t.pick(&spellings).clone();
        let input = match t.weighted(&[3, 3, 1, 1, 1, 1, 2, 2]) {
            0 => base,
            7 => {
                // a compatibility character with the same case folding but another UTF-8 length: KELVIN SIGN for k / K,
                // ANGSTROM SIGN for U+00E5 / U+00C5 (equal under Unicode case folding, unrelated under ASCII folding)
                base.chars()
                    .map(|c| match c {
                        'k' | 'K' => '\u{212a}',
                        '\u{e5}' | '\u{c5}' => '\u{212b}',
                        c => c,
                    })
                    .collect()
            }
            6 => {
                // flip bit 0x20 of one ASCII byte: a case flip for a letter, another character for anything else
                let mut b = base.clone().into_bytes();
                let ascii: Vec<usize> = (0..b.len()).filter(|i| b[*i] < 0x80 && b[*i] >= 0x40).collect();
                if !ascii.is_empty() {
                    let i = ascii[t.choose(ascii.len())];
                    b[i] ^= 0x20;
                }
                String::from_utf8(b).unwrap_or(base)
            }
            1 => {
                // flip the case of some letters
                base.chars()
                    .map(|c| {
                        if t.bool() {
                            if c.is_lowercase() {
                                c.to_uppercase().next().unwrap()
                            } else {
                                c.to_lowercase().next().unwrap()
                            }
                        } else {
                            c
                        }
                    })
                    .collect()
            }
            2 => base.chars().take(base.chars().count().saturating_sub(1)).collect(),
            3 => format!("{base}x"),
            4 => (*t.pick(&["other", "", "Slow", "AUTO", " fast"])).to_owned(),
            _ => base.to_uppercase(),
        };
        PvCase {
            values,
            ignore_case,
            input,
            alias_style: t.choose(4) as u8,
        }
    }
    fn run(&self, case: &PvCase, ctx: &mut Ctx) -> Verdict {
        if case.values.is_empty() {
            return Verdict::Discard("no-values");
        }
        check_pv(case, ctx)
    }
}

// ========================================================== typed access histories

#[derive(Serialize, Deserialize, Hash, Clone, Copy, Debug, PartialEq, Eq)]
pub enum Ty {
    Str,
    I64,
    Bool,
    U8,
}

#[derive(Serialize, Deserialize, Hash, Clone, Debug)]
pub enum Access {
    GetOne(usize, Ty),
    GetMany(usize, Ty),
    GetOccurrences(usize, Ty),
    RemoveOne(usize, Ty),
    RemoveMany(usize, Ty),
    RemoveOccurrences(usize, Ty),
    Contains(usize),
    GetRaw(usize),
}

#[derive(Serialize, Deserialize, Hash, Clone, Debug)]
pub struct AccessCase {
    /// per argument: its type and the values given on the command line (one occurrence each)
    pub args: Vec<(Ty, Vec<String>)>,
    pub ops: Vec<Access>,
    /// arguments (by position in `args`) that have no values but are given as a bare `--id` (num_args(0..=1)): present
    /// with zero values
    #[serde(default)]
    pub bare: Vec<usize>,
}

pub struct Histories;

const IDS: &[&str] = &["a0", "a1", "a2", "a3", "nope"];

fn check_access(case: &AccessCase, ctx: &mut Ctx) -> Verdict {
    use clap::parser::MatchesError;
    let mut cmd = Command::new("p");
    let mut argv: Vec<String> = vec!["p".into()];
    for (i, (ty, vals)) in case.args.iter().enumerate() {
        let mut a = Arg::new(IDS[i]).long(IDS[i]).action(clap::ArgAction::Append);
        a = match ty {
            Ty::Str => a,
            Ty::I64 => a.value_parser(clap::value_parser!(i64)),
            Ty::Bool => a.value_parser(clap::value_parser!(bool)),
            Ty::U8 => a.value_parser(clap::value_parser!(u8)),
        };
        if case.bare.contains(&i) && vals.is_empty() {
            a = a.num_args(0..=1);
            argv.push(format!("--{}", IDS[i]));
        }
        cmd = cmd.arg(a);
        for v in vals {
            argv.push(format!("--{}={}", IDS[i], v));
        }
    }
    let mut m = match cmd.try_get_matches_from(argv.clone()) {
        Ok(m) => m,
        Err(e) => return Verdict::fail("access:setup-parse-failed", format!("{argv:?}: {e}")),
    };
    // model: id -> (type, values as strings) ; None = removed/absent
    let mut model: Vec<Option<(Ty, Vec<String>)>> = case
        .args
        .iter()
        .enumerate()
        .map(|(i, (t, v))| if v.is_empty() && !case.bare.contains(&i) { None } else { Some((*t, v.clone())) })
        .collect();
    let defined = case.args.len();
    let mut failed_remove_then_read = false;
    let mut had_failed_remove = vec![false; 5];

    macro_rules! typed {
        ($ty:expr, $f:ident, $m:expr, $id:expr, $conv:expr) => {
            match $ty {
                Ty::Str => $m.$f::<String>($id).map(|o| o.map(|x| $conv(x.map(|v| v.to_string()).collect::<Vec<_>>()))),
                Ty::I64 => $m.$f::<i64>($id).map(|o| o.map(|x| $conv(x.map(|v| v.to_string()).collect::<Vec<_>>()))),
                Ty::Bool => $m.$f::<bool>($id).map(|o| o.map(|x| $conv(x.map(|v| v.to_string()).collect::<Vec<_>>()))),
                Ty::U8 => $m.$f::<u8>($id).map(|o| o.map(|x| $conv(x.map(|v| v.to_string()).collect::<Vec<_>>()))),
            }
        };
    }
    macro_rules! typed_one {
        ($ty:expr, $f:ident, $m:expr, $id:expr) => {
            match $ty {
                Ty::Str => $m.$f::<String>($id).map(|o| o.map(|v| v.to_string())),
                Ty::I64 => $m.$f::<i64>($id).map(|o| o.map(|v| v.to_string())),
                Ty::Bool => $m.$f::<bool>($id).map(|o| o.map(|v| v.to_string())),
                Ty::U8 => $m.$f::<u8>($id).map(|o| o.map(|v| v.to_string())),
            }
        };
    }
    macro_rules! typed_occ {
        ($ty:expr, $f:ident, $m:expr, $id:expr) => {
            match $ty {
                Ty::Str => $m
                    .$f::<String>($id)
                    .map(|o| o.map(|x| x.map(|occ| occ.map(|v| v.to_string()).collect::<Vec<_>>()).collect::<Vec<_>>())),
                Ty::I64 => $m
                    .$f::<i64>($id)
                    .map(|o| o.map(|x| x.map(|occ| occ.map(|v| v.to_string()).collect::<Vec<_>>()).collect::<Vec<_>>())),
                Ty::Bool => $m
                    .$f::<bool>($id)
                    .map(|o| o.map(|x| x.map(|occ| occ.map(|v| v.to_string()).collect::<Vec<_>>()).collect::<Vec<_>>())),
                Ty::U8 => $m
                    .$f::<u8>($id)
                    .map(|o| o.map(|x| x.map(|occ| occ.map(|v| v.to_string()).collect::<Vec<_>>()).collect::<Vec<_>>())),
            }
        };
    }

    for (k, op) in case.ops.iter().enumerate() {
        let bad = |what: &str, detail: String| Verdict::fail(format!("access:{what}"), format!("step {k} {op:?} in {case:?}: {detail}"));
        let (idx, ty, removing) = match op {
            Access::GetOne(i, t) | Access::GetMany(i, t) | Access::GetOccurrences(i, t) => (*i, Some(*t), false),
            Access::RemoveOne(i, t) | Access::RemoveMany(i, t) | Access::RemoveOccurrences(i, t) => (*i, Some(*t), true),
            Access::Contains(i) | Access::GetRaw(i) => (*i, None, false),
        };
        let idx = idx.min(4);
        let id = IDS[idx];
        let known = idx < defined;
        // expected class of result
        let stored = if known { model[idx].clone() } else { None };
        let expect_unknown = !known;
        let expect_downcast = match (&stored, ty) {
            (Some((st, _)), Some(t)) => *st != t,
            _ => false,
        };
        if had_failed_remove[idx] && !removing && !expect_downcast && stored.is_some() {
            failed_remove_then_read = true;
        }
        let res: Result<Option<Vec<Vec<String>>>, MatchesError> = match op {
            Access::GetOne(_, t) => typed_one!(t, try_get_one, m, id).map(|o| o.map(|v| vec![vec![v]])),
            Access::GetMany(_, t) => typed!(t, try_get_many, m, id, |v: Vec<String>| vec![v]),
            Access::GetOccurrences(_, t) => typed_occ!(t, try_get_occurrences, m, id),
            Access::RemoveOne(_, t) => typed_one!(t, try_remove_one, m, id).map(|o| o.map(|v| vec![vec![v]])),
            Access::RemoveMany(_, t) => typed!(t, try_remove_many, m, id, |v: Vec<String>| vec![v]),
            Access::RemoveOccurrences(_, t) => typed_occ!(t, try_remove_occurrences, m, id),
            Access::Contains(_) => m.try_contains_id(id).map(|b| if b { Some(vec![]) } else { None }),
            Access::GetRaw(_) => m
                .try_get_raw(id)
                .map(|o| o.map(|vals| vec![vals.map(|v| v.to_string_lossy().into_owned()).collect::<Vec<_>>()])),
        };
        match res {
            Err(MatchesError::UnknownArgument { .. }) => {
                if !expect_unknown {
                    return bad("unexpected-unknown-argument", "defined id reported as unknown".into());
                }
            }
            Err(MatchesError::Downcast { .. }) => {
                if !expect_downcast {
                    return bad("unexpected-downcast-error", format!("stored {stored:?}"));
                }
                if removing {
                    had_failed_remove[idx] = true;
                }
            }
            Err(e) => return bad("unexpected-error", format!("{e:?}")),
            Ok(got) => {
                if expect_unknown {
                    return bad("unknown-id-accepted", format!("got {got:?}"));
                }
                if expect_downcast {
                    return bad("wrong-type-accepted", format!("stored {stored:?} got {got:?}"));
                }
                // (an argument present with zero values: no first value, one empty occurrence)
                let want: Option<Vec<Vec<String>>> = stored.as_ref().and_then(|(_, vals)| match op {
                    Access::GetOne(..) | Access::RemoveOne(..) => vals.first().map(|v| vec![vec![v.clone()]]),
                    Access::GetMany(..) | Access::RemoveMany(..) | Access::GetRaw(..) => Some(vec![vals.clone()]),
                    Access::GetOccurrences(..) | Access::RemoveOccurrences(..) => {
                        Some(if vals.is_empty() { vec![vec![]] } else { vals.iter().map(|v| vec![v.clone()]).collect() })
                    }
                    Access::Contains(..) => Some(vec![]),
                });
                if got != want {
                    return bad("wrong-values", format!("got {got:?} want {want:?}"));
                }
                if removing && stored.is_some() {
                    // remove_one takes only the first value but clears the whole argument
                    model[idx] = None;
                }
            }
        }
        // invariant: every still-stored argument is fully retrievable with its own type
        for (j, st) in model.iter().enumerate() {
            let jid = IDS[j];
            let got = m.try_get_raw(jid);
            match (st, got) {
                (Some((_, vals)), Ok(Some(raw))) => {
                    let raw: Vec<String> = raw.map(|v| v.to_string_lossy().into_owned()).collect();
                    if raw != *vals {
                        return bad("stored-values-disturbed", format!("{jid}: raw {raw:?} model {vals:?}"));
                    }
                    let typed_ok = match st.as_ref().unwrap().0 {
                        Ty::Str => m.try_get_many::<String>(jid).map(|o| o.map(|x| x.count())),
                        Ty::I64 => m.try_get_many::<i64>(jid).map(|o| o.map(|x| x.count())),
                        Ty::Bool => m.try_get_many::<bool>(jid).map(|o| o.map(|x| x.count())),
                        Ty::U8 => m.try_get_many::<u8>(jid).map(|o| o.map(|x| x.count())),
                    };
                    if !matches!(typed_ok, Ok(Some(n)) if n == vals.len()) {
                        return bad("stored-values-disturbed", format!("{jid}: typed read gave {typed_ok:?}, model {vals:?}"));
                    }
                }
                (None, Ok(None)) => {}
                (s, g) => {
                    return bad(
                        "stored-values-disturbed",
                        format!("{jid}: model {s:?} but try_get_raw gave {:?}", g.map(|o| o.map(|r| r.count()))),
                    )
                }
            }
        }
    }
    if failed_remove_then_read {
        ctx.label("failed-remove-then-successful-read");
        ctx.nontrivial();
    }
    if case.ops.iter().any(|o| matches!(o, Access::RemoveOne(..) | Access::RemoveMany(..) | Access::RemoveOccurrences(..))) {
        ctx.label("history-with-remove");
    }
    Verdict::Pass
}

impl Property for Histories {
    type Case = AccessCase;
    fn name(&self) -> &'static str {
        "typed-access-histories"
    }
    fn rule(&self) -> String {
        "a parsed ArgMatches with 1-4 Append options of known types (String, i64, bool, u8; 0-3 occurrences each) x random sequences of \
         up to 12 try_get_one/many/occurrences<T>, try_remove_one/many/occurrences<T>, try_contains_id, try_get_raw with the right type, \
         a wrong type, or an undefined id. Lock-step model id -> (type, values): wrong type => Downcast error, undefined id => \
         UnknownArgument, remove returns the stored values exactly once; after every step every stored argument must still be fully \
         readable (raw and typed). Non-trivial: a failed (wrong-type) remove followed later by a successful read of the same id."
            .into()
    }
    fn budget(&self, tier: Tier) -> Budget {
        Budget {
            cases: tier.pick(750_000, 6_000_000),
            tape_len: 400,
        }
    }
    fn decode(&self, t: &mut Tape<'_>) -> AccessCase {
        let tys = [Ty::Str, Ty::I64, Ty::Bool, Ty::U8];
        let nargs = t.range(1, 4);
        let mut args = Vec::new();
        for _ in 0..nargs {
            let ty = *t.pick(&tys);
            let n = t.weighted(&[1, 4, 2, 1]);
            let vals: Vec<String> = (0..n)
                .map(|_| match ty {
                    Ty::Str => (*t.pick(&["x", "y", "", "long value"])).to_owned(),
                    Ty::I64 => (*t.pick(&["0", "-5", "42"])).to_owned(),
                    Ty::Bool => (*t.pick(&["true", "false"])).to_owned(),
                    Ty::U8 => (*t.pick(&["0", "7", "255"])).to_owned(),
                })
                .collect();
            args.push((ty, vals));
        }
        let nops = t.range(1, 12);
        let mut ops = Vec::new();
        for _ in 0..nops {
            let i = if t.chance(1, 8) { 4 } else { t.choose(nargs) };
            let right = args.get(i).map(|a| a.0).unwrap_or(Ty::Str);
            let ty = if t.chance(1, 3) { *t.pick(&tys) } else { right };
            ops.push(match t.weighted(&[3, 3, 2, 2, 2, 2, 1, 1]) {
                0 => Access::GetOne(i, ty),
                1 => Access::GetMany(i, ty),
                2 => Access::GetOccurrences(i, ty),
                3 => Access::RemoveOne(i, ty),
                4 => Access::RemoveMany(i, ty),
                5 => Access::RemoveOccurrences(i, ty),
                6 => Access::Contains(i),
                _ => Access::GetRaw(i),
            });
        }
        let bare: Vec<usize> = (0..nargs).filter(|i| args[*i].1.is_empty() && t.chance(1, 2)).collect();
        AccessCase { args, ops, bare }
    }
    fn run(&self, case: &AccessCase, ctx: &mut Ctx) -> Verdict {
        if case.args.is_empty() || case.args.len() > 4 {
            return Verdict::Discard("shape");
        }
        check_access(case, ctx)
    }
}

pub fn check() -> Check {
    Check {
        id: "C04",
        parts: vec![Box::new(Gen(Ints)), Box::new(Gen(Bools)), Box::new(Gen(Possible)), Box::new(Gen(Histories))],
        assumptions: vec![
            "the integer grammar is the one documented for FromStr of i64/u64 ([+-]?[0-9]+ / +?[0-9]+)".into(),
            "case-insensitive matching is compared with lower-casing on an alphabet of ASCII letters and one non-ASCII letter with a simple \
             case pair; full Unicode case folding corner cases are not generated"
                .into(),
            "debug assertions on: undefined ids are reported as UnknownArgument by the try_* accessors".into(),
            "a `.range()` call that does not narrow trips clap's own debug assertion and is discarded, not judged".into(),
        ],
    }
}
