//! Lines next to a positional that accepts hyphen values (shared by C08 and C10).
//!
//! "Known flags get precedence over the next possible positional argument with allow_hyphen_values(true)" and "prior
//! arguments with allow_hyphen_values(true) get precedence over known flags" (Arg::allow_hyphen_values). A small
//! reference reading of those two sentences decides every token of a generated line; the library must agree, and two
//! spellings of the same intention (canonical / alias, cluster / separate flags) must give the same result.

use serde::{Deserialize, Serialize};
use vcore::*;
use vmodel::{build_checked, Action, ArgSpec, Built, CmdSpec};

#[derive(Serialize, Deserialize, Hash, Clone, Debug)]
pub struct HyphCase {
    pub spec: CmdSpec,
    /// two spellings of the same intention
    pub argv_a: Vec<String>,
    pub argv_b: Vec<String>,
    /// ids of the flags the line sets (in order, Count flags repeated)
    pub flags: Vec<String>,
    /// values written for the positional, verbatim
    pub values: Vec<String>,
}

pub struct HyphenLines {
    pub name: &'static str,
}

#[derive(Clone)]
enum Item {
    Flag(usize),
    Value(String),
}

/// the documented number forms (`ParsedArg::is_negative_number`: integers, `1.`, `1.2`, `1.2e10`) and plain words
const NUMBER_VALUES: &[&str] = &["-1", "-42", "-0", "-1.", "-5.", "-12.", "-1.2", "-1.2e10", "-3E5", "plain", "v", "7"];

const HOSTILE_VALUES: &[&str] = &["-x", "-ax", "-xa", "--unknown", "--unk=1", "-", "-9", "-1.5", "plain", "-=", "-aZ", "--al", "v"];

fn spell_flags(t: &mut Tape<'_>, spec: &CmdSpec, run: &[usize], out: &mut Vec<String>) {
    // a run of consecutive flags: separate tokens (any spelling) or one short cluster (primary shorts and short aliases)
    let all_short = run.iter().all(|i| spec.args[*i].short.is_some());
    if run.len() >= 2 && all_short && t.bool() {
        let mut tok = String::from("-");
        for i in run {
            let a = &spec.args[*i];
            let mut cs: Vec<char> = a.short.into_iter().collect();
            cs.extend(a.short_aliases.iter().map(|x| x.0));
            tok.push(*t.pick(&cs));
        }
        out.push(tok);
        return;
    }
    for i in run {
        let a = &spec.args[*i];
        let mut forms: Vec<String> = Vec::new();
        if let Some(l) = &a.long {
            forms.push(format!("--{l}"));
        }
        forms.extend(a.aliases.iter().map(|x| format!("--{}", x.0)));
        if let Some(s) = a.short {
            forms.push(format!("-{s}"));
        }
        forms.extend(a.short_aliases.iter().map(|x| format!("-{}", x.0)));
        out.push(t.pick(&forms).clone());
    }
}

impl Property for HyphenLines {
    type Case = HyphCase;
    fn name(&self) -> &'static str {
        self.name
    }
    fn rule(&self) -> String {
        "a command with an optional positional that has allow_hyphen_values(true) (single value, or 1.. values; never `last`) and 2-4 \
         flags (SetTrue / Count; long, short, visible and hidden long and short aliases) x an intended line: flags, then for a \
         single-value positional at most one value followed by more flags, for a multi-value positional any number of values at the \
         end; values are drawn from words that look like flags but are not (undefined short, cluster mixing a defined and an \
         undefined short, unknown long, unknown long with =value, `-`, negative numbers) and plain words x two spellings (each flag \
         by long / long alias / short / short alias; runs of flags as one cluster or separately). Reference: before the positional \
         has a value a token is a flag iff it is a known long (or alias), or a cluster made only of known shorts (or short aliases); \
         anything else is the positional's value; once a multi-value positional collects, every token is a value. One case in four: \
         the positional has allow_negative_numbers(true) instead and the values are negative numbers in the documented forms \
         (`-1`, `-5.`, `-1.2`, `-1.2e10`) or plain words. Oracle: both \
         spellings are accepted, set exactly the intended flags (counts included) and give the positional exactly the written \
         values. non-trivial = the line holds a flag-looking value and a flag spelled through an alias or inside a cluster; \
         distinct = distinct (spec, both argv)"
            .into()
    }
    fn budget(&self, tier: Tier) -> Budget {
        Budget { cases: tier.pick(200_000, 4_000_000), tape_len: 300 }
    }
    fn decode(&self, t: &mut Tape<'_>) -> HyphCase {
        let mut spec = CmdSpec { name: "prog".to_owned(), term_width: Some(80), ..Default::default() };
        let multi = t.bool();
        // one case in four: the positional accepts negative numbers (and nothing else that starts with a dash)
        let numbers = t.chance(1, 4);
        let pool: &[&str] = if numbers { NUMBER_VALUES } else { HOSTILE_VALUES };
        let longs = ["alpha", "beta", "gamma", "delta"];
        let shorts = ['a', 'b', 'c', 'd'];
        let long_al = ["first", "second", "third", "fourth"];
        let short_al = ['A', 'B', 'C', 'D'];
        let n = t.range(2, 4);
        for i in 0..n {
            let mut a = ArgSpec {
                id: format!("f{i}"),
                long: Some(longs[i].to_owned()),
                action: if t.chance(1, 4) { Action::Count } else { Action::SetTrue },
                ..Default::default()
            };
            if !t.chance(1, 5) {
                a.short = Some(shorts[i]);
            }
            if t.chance(1, 2) {
                a.aliases.push((long_al[i].to_owned(), t.bool()));
            }
            if t.chance(1, 2) {
                // (also on arguments without a primary short)
                a.short_aliases.push((short_al[i], t.bool()));
            }
            spec.args.push(a);
        }
        spec.args.push(ArgSpec {
            id: "input".to_owned(),
            allow_hyphen_values: !numbers,
            allow_negative_numbers: numbers,
            num_args: Some(if multi { (1, usize::MAX) } else { (1, 1) }),
            ..Default::default()
        });
        // the intention
        let mut items: Vec<Item> = Vec::new();
        let mut set: Vec<usize> = Vec::new();
        let mut flag_item = |t: &mut Tape<'_>, items: &mut Vec<Item>, set: &mut Vec<usize>| {
            let i = t.choose(n);
            let count = spec.args[i].action == Action::Count;
            if count || !set.contains(&i) {
                set.push(i);
                items.push(Item::Flag(i));
            }
        };
        for _ in 0..t.range(0, 4) {
            flag_item(t, &mut items, &mut set);
        }
        let mut values = Vec::new();
        if multi {
            for _ in 0..t.range(0, 3) {
                let v = (*t.pick(pool)).to_owned();
                values.push(v.clone());
                items.push(Item::Value(v));
            }
        } else if t.chance(2, 3) {
            let v = (*t.pick(pool)).to_owned();
            values.push(v.clone());
            items.push(Item::Value(v));
            for _ in 0..t.range(0, 2) {
                flag_item(t, &mut items, &mut set);
            }
        }
        // a value must not be a known spelling (a cluster of defined shorts, a defined long)
        let known_short = |c: char| spec.args.iter().any(|a| a.short == Some(c) || a.short_aliases.iter().any(|x| x.0 == c));
        let known_long = |l: &str| spec.args.iter().any(|a| a.long.as_deref() == Some(l) || a.aliases.iter().any(|x| x.0 == l));
        for v in values.iter_mut() {
            let is_flag = if let Some(l) = v.strip_prefix("--") {
                known_long(l.split('=').next().unwrap_or(""))
            } else if v.len() > 1 && v.starts_with('-') {
                v.chars().skip(1).all(known_short)
            } else {
                false
            };
            if is_flag {
                *v = "--unknown".to_owned();
            }
        }
        let mut vi = values.iter();
        for it in items.iter_mut() {
            if let Item::Value(v) = it {
                *v = vi.next().cloned().unwrap_or_default();
            }
        }
        let mut spell = |t: &mut Tape<'_>| {
            let mut out = vec!["prog".to_owned()];
            let mut run: Vec<usize> = Vec::new();
            for it in &items {
                match it {
                    Item::Flag(i) => run.push(*i),
                    Item::Value(v) => {
                        if !run.is_empty() {
                            spell_flags(t, &spec, &run, &mut out);
                            run.clear();
                        }
                        out.push(v.clone());
                    }
                }
            }
            if !run.is_empty() {
                spell_flags(t, &spec, &run, &mut out);
            }
            out
        };
        let argv_a = spell(t);
        let argv_b = spell(t);
        let flags = set.iter().map(|i| spec.args[*i].id.clone()).collect();
        HyphCase { spec, argv_a, argv_b, flags, values }
    }
    fn run(&self, case: &HyphCase, ctx: &mut Ctx) -> Verdict {
        let mut seen: Vec<(Vec<(String, u64)>, Vec<String>)> = Vec::new();
        for argv in [&case.argv_a, &case.argv_b] {
            let cmd = match build_checked(&case.spec) {
                Built::Ok(c) => c,
                Built::Invalid(_) => return Verdict::Discard("invalid-config"),
                Built::Panic(p) => return Verdict::Fail(Failure::from_panic(&p)),
            };
            let m = match catch(|| cmd.try_get_matches_from(argv.iter())) {
                Err(p) => return Verdict::Fail(Failure::from_panic(&p)),
                Ok(Err(e)) => {
                    return Verdict::fail(
                        format!("hyphen-positional:valid-line-rejected:{:?}", e.kind()),
                        format!(
                            "argv {:?} (flags {:?}, positional values {:?}) breaks no rule: {}",
                            argv,
                            case.flags,
                            case.values,
                            e.to_string().lines().next().unwrap_or("")
                        ),
                    )
                }
                Ok(Ok(m)) => m,
            };
            let mut got_flags: Vec<(String, u64)> = Vec::new();
            for a in case.spec.args.iter().filter(|a| a.id != "input") {
                let n = match a.action {
                    Action::Count => m.get_count(&a.id) as u64,
                    _ => u64::from(m.get_flag(&a.id)),
                };
                let want = case.flags.iter().filter(|f| **f == a.id).count() as u64;
                ensure!(
                    n == want,
                    "hyphen-positional:flag-differs",
                    "argv {:?}: flag {:?} is {} but the line sets it {} time(s); positional holds {:?}",
                    argv,
                    a.id,
                    n,
                    want,
                    m.get_raw("input").map(|v| v.map(|x| x.to_string_lossy().into_owned()).collect::<Vec<_>>())
                );
                got_flags.push((a.id.clone(), n));
            }
            let got: Vec<String> = m.get_raw("input").map(|v| v.map(|x| x.to_string_lossy().into_owned()).collect()).unwrap_or_default();
            ensure!(
                got == case.values,
                "hyphen-positional:values-differ",
                "argv {:?}: the positional holds {:?}, written for it: {:?}",
                argv,
                got,
                case.values
            );
            seen.push((got_flags, got));
        }
        ensure!(seen[0] == seen[1], "hyphen-positional:spellings-differ", "{:?} vs {:?}: {:?} / {:?}", case.argv_a, case.argv_b, seen[0], seen[1]);
        let hostile = case.values.iter().any(|v| v.starts_with('-'));
        let fancy = [&case.argv_a, &case.argv_b].iter().any(|argv| {
            argv.iter().skip(1).any(|tok| {
                !case.values.contains(tok)
                    && ((tok.starts_with('-') && !tok.starts_with("--") && tok.len() > 2)
                        || case.spec.args.iter().any(|a| {
                            a.aliases.iter().any(|x| format!("--{}", x.0) == *tok) || a.short_aliases.iter().any(|x| format!("-{}", x.0) == *tok)
                        }))
            })
        });
        if hostile {
            ctx.label("flag-looking-value");
        }
        if hostile && fancy {
            ctx.nontrivial();
        }
        Verdict::Pass
    }
}
