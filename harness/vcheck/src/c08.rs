//! C08 — Equivalent spellings of the same invocation parse to identical matches.

use crate::c02::features_of;
use crate::util::os;
use serde::{Deserialize, Serialize};
use vcore::*;
use vmodel::conv::*;
use vmodel::observe::{observe, Source};
use vmodel::{build_checked, Built, CmdSpec};

#[derive(Serialize, Deserialize, Hash, Clone, Debug)]
pub struct PairCase {
    pub spec: CmdSpec,
    pub inv: Invocation,
    /// two or three spellings of `inv` (the third one with an explicit `--` inserted)
    pub spellings: Vec<Vec<String>>,
    pub features: Vec<String>,
}

pub struct Spellings;

fn enc(argv: &[Vec<u8>]) -> Vec<String> {
    argv.iter().map(|b| show_bytes(b)).collect()
}
fn dec(argv: &[String]) -> Vec<std::ffi::OsString> {
    argv.iter().map(|s| os(&vmodel::conv::vals_hex::decode(s).unwrap_or_else(|_| s.as_bytes().to_vec()))).collect()
}

/// `inv` with an explicit `--` in front of a trailing run of positional occurrences.
fn with_escape(spec: &CmdSpec, inv: &Invocation, pick: usize) -> Option<Invocation> {
    let mut out = inv.clone();
    // only the deepest level can carry trailing values
    let mut level = spec;
    for (li, lv) in inv.levels.iter().enumerate() {
        if li + 1 < inv.levels.len() {
            level = level.subs.iter().find(|s| Some(&s.name) == lv.sub.as_ref())?;
        }
    }
    if level.args.iter().any(|a| a.last) {
        return None;
    }
    let lv = out.levels.last_mut()?;
    if lv.sub.is_some() || lv.occs.iter().any(|o| matches!(o, Occ::Escape)) {
        return None;
    }
    let mut i = lv.occs.len();
    while i > 0 && matches!(lv.occs[i - 1], Occ::Pos { .. }) {
        i -= 1;
    }
    if i == lv.occs.len() {
        return None;
    }
    // the marker may go in front of any value of the trailing positional run
    let total: usize = lv.occs[i..].iter().map(|o| if let Occ::Pos { values, .. } = o { values.len() } else { 0 }).sum();
    if total == 0 {
        return None;
    }
    let mut k = pick % total; // number of run values that stay in front of the marker
    let mut j = i;
    while j < lv.occs.len() {
        let Occ::Pos { arg, values } = lv.occs[j].clone() else { return None };
        if k == 0 {
            lv.occs.insert(j, Occ::Escape);
            return Some(out);
        }
        if k < values.len() {
            // split one occurrence around the marker (it stays one occurrence for the parser)
            lv.occs[j] = Occ::Pos {
                arg: arg.clone(),
                values: values[..k].to_vec(),
            };
            lv.occs.insert(j + 1, Occ::Escape);
            lv.occs.insert(
                j + 2,
                Occ::Pos {
                    arg,
                    values: values[k..].to_vec(),
                },
            );
            return Some(out);
        }
        k -= values.len();
        j += 1;
    }
    None
}

impl Property for Spellings {
    type Case = PairCase;
    fn name(&self) -> &'static str {
        "equivalent-spellings"
    }
    fn rule(&self) -> String {
        "conventional command trees (aliases, short aliases, inference on/off with name pools engineered to contain ambiguous and \
         unambiguous prefixes) x an intended invocation x two independently drawn spellings over the documented equivalences \
         (--opt=v / --opt v, -ov / -o v / -o=v, cluster / separate shorts, alias / canonical, unambiguous prefix / full name, \
         delimiter-joined / separate values; subcommands by name, alias or prefix) and, where the tail is purely positional and the \
         command has no `last` positional, a third spelling with an explicit `--` before that tail. Oracle: all spellings parse Ok, \
         the ArgMatches are == and have identical Debug renderings, and they equal the expected observation of the invocation. \
         Non-trivial: the two spellings differ in >= 2 tokens; distinct = distinct (spec, invocation, spellings)."
            .into()
    }
    fn budget(&self, tier: Tier) -> Budget {
        Budget {
            cases: tier.pick(1_200_000, 20_000_000),
            tape_len: 2500,
        }
    }
    fn decode(&self, t: &mut Tape<'_>) -> PairCase {
        let co = ConvOpts::default();
        let spec = gen_conv_spec(t, &co);
        let io = InvOpts { escape: false, ..InvOpts::default() };
        let inv = gen_invocation(t, &spec, &io);
        let mut spellings = Vec::new();
        let mut feats = Vec::new();
        // one case in three names subcommands through their long flags (canonical flag vs alias vs prefix) in both spellings
        let long_kind = t.chance(1, 3);
        for _ in 0..2 {
            let mut st = SpellStats {
                no_flag_subcommand_forms: !long_kind,
                only_long_flag_forms: long_kind,
                ..Default::default()
            };
            if let Some(sp) = spell(t, &spec, &inv, &mut st) {
                spellings.push(enc(&sp.argv));
                feats.extend(features_of(&st));
            }
        }
        if spellings.len() == 2 {
            if let Some(e) = with_escape(&spec, &inv, t.choose(16)) {
                let mut st = SpellStats {
                    no_flag_subcommand_forms: true,
                    ..Default::default()
                };
                if let Some(sp) = spell(t, &spec, &e, &mut st) {
                    spellings.push(enc(&sp.argv));
                    feats.push("explicit-escape".into());
                }
            }
        }
        feats.sort();
        feats.dedup();
        PairCase {
            spec,
            inv,
            spellings,
            features: feats,
        }
    }
    fn run(&self, case: &PairCase, ctx: &mut Ctx) -> Verdict {
        if case.spellings.len() < 2 {
            return Verdict::Discard("no-unambiguous-spelling");
        }
        let cmd = match build_checked(&case.spec) {
            Built::Ok(c) => c,
            Built::Invalid(_) => return Verdict::Discard("invalid-config"),
            Built::Panic(p) => return Verdict::Fail(Failure::from_panic(&p)),
        };
        let cluster = vec![false; case.inv.levels.len()];
        let Some(exp) = expect(&case.spec, &case.inv, &cluster) else {
            return Verdict::Discard("invocation-outside-model");
        };
        let mut results = Vec::new();
        for sp in &case.spellings {
            match catch(|| cmd.clone().try_get_matches_from(dec(sp))) {
                Err(p) => return Verdict::Fail(Failure::from_panic(&p)),
                Ok(Err(e)) => {
                    return Verdict::fail(
                        format!("spellings:valid-line-rejected:{:?}", e.kind()),
                        format!("argv {:?} spells {:?} but clap says: {}", sp, case.inv, e),
                    )
                }
                Ok(Ok(m)) => results.push(m),
            }
        }
        for (k, m) in results.iter().enumerate().skip(1) {
            if *m != results[0] || format!("{m:?}") != format!("{:?}", results[0]) {
                return Verdict::fail(
                    "spellings:matches-differ",
                    format!(
                        "two spellings of one invocation parse differently:\n  {:?}\n  {:?}\n--- first\n{:?}\n--- other\n{:?}",
                        case.spellings[0], case.spellings[k], results[0], m
                    ),
                );
            }
        }
        let obs = observe(&results[0]);
        if let Err((sig, msg)) = compare_explicit(&case.spec, &exp, &obs, true) {
            return Verdict::fail(sig, format!("argv {:?}: {}", case.spellings[0], msg));
        }
        for f in &case.features {
            ctx.label_owned(format!("spelling:{f}"));
        }
        let differing = case.spellings[0].iter().zip(case.spellings[1].iter()).filter(|(a, b)| a != b).count()
            + case.spellings[0].len().abs_diff(case.spellings[1].len());
        if differing >= 2 {
            ctx.nontrivial();
        }
        if case.spellings.len() == 3 {
            ctx.label("with-explicit-escape-variant");
        }
        Verdict::Pass
    }
}

// ------------------------------------------------------------- ambiguity

#[derive(Serialize, Deserialize, Hash, Clone, Debug)]
pub struct AmbCase {
    pub spec: CmdSpec,
    /// the ambiguous token (a `--prefix` or a bare subcommand prefix) and what follows it
    pub argv: Vec<String>,
    /// ids (arguments) or names (subcommands) the prefix could mean
    pub candidates: Vec<String>,
    pub is_subcommand: bool,
}

pub struct Ambiguity;

impl Property for Ambiguity {
    type Case = AmbCase;
    fn name(&self) -> &'static str {
        "ambiguous-prefix"
    }
    fn rule(&self) -> String {
        "conventional command trees with inference switched on x a token that is a proper prefix of the longs/aliases of >= 2 different \
         arguments (or of the names/aliases of >= 2 different subcommands) and equal to none of them, followed by 0-2 ordinary values. \
         Oracle: the parse never succeeds with one of the candidates explicitly present (arguments) / selected (subcommands); an error \
         or, for a bare word, a positional value are both fine. Non-trivial: every case (counted distinct by (spec, argv))."
            .into()
    }
    fn budget(&self, tier: Tier) -> Budget {
        Budget {
            cases: tier.pick(500_000, 5_000_000),
            tape_len: 1500,
        }
    }
    fn decode(&self, t: &mut Tape<'_>) -> AmbCase {
        let co = ConvOpts {
            max_depth: 2,
            ..ConvOpts::default()
        };
        let mut spec = gen_conv_spec(t, &co);
        fn force(c: &mut CmdSpec) {
            c.settings.infer_long_args = true;
            c.settings.infer_subcommands = true;
            for s in &mut c.subs {
                force(s);
            }
        }
        force(&mut spec);
        let is_subcommand = t.chance(1, 3);
        // make sure there is something ambiguous: two items sharing a proper prefix
        if is_subcommand {
            let pair = *t.pick(&[("install", "inspect"), ("remove", "rename"), ("sub", "sub-one"), ("list", "lint")]);
            if spec.subs.len() >= 2 {
                for sc in &mut spec.subs {
                    sc.aliases.retain(|a| a.0 != pair.0 && a.0 != pair.1);
                    if sc.name == pair.0 || sc.name == pair.1 {
                        sc.name = format!("{}-x", sc.name);
                    }
                }
                spec.subs[0].name = pair.0.to_owned();
                spec.subs[1].name = pair.1.to_owned();
            }
        } else {
            let pair = *t.pick(&[("alpha", "alpine"), ("color", "colour"), ("opt-in", "opt-out"), ("verbose", "verify")]);
            let idx: Vec<usize> = (0..spec.args.len()).filter(|i| spec.args[*i].long.is_some()).collect();
            if idx.len() >= 2 {
                for a in &mut spec.args {
                    a.aliases.retain(|x| x.0 != pair.0 && x.0 != pair.1);
                    if a.long.as_deref() == Some(pair.0) || a.long.as_deref() == Some(pair.1) {
                        a.long = Some(format!("{}-x", a.long.as_ref().unwrap()));
                    }
                }
                spec.args[idx[0]].long = Some(pair.0.to_owned());
                spec.args[idx[1]].long = Some(pair.1.to_owned());
            }
        }
        // collect ambiguous prefixes at the root
        let mut found: Vec<(String, Vec<String>)> = Vec::new();
        if is_subcommand {
            let mut all: Vec<(String, String)> = Vec::new();
            for sc in &spec.subs {
                for n in sc.all_names() {
                    all.push((n, sc.name.clone()));
                }
            }
            all.push(("help".into(), "help".into()));
            for (n, _) in &all {
                let cs: Vec<char> = n.chars().collect();
                for k in 1..cs.len() {
                    let p: String = cs[..k].iter().collect();
                    if all.iter().any(|(m, _)| *m == p) {
                        continue;
                    }
                    let mut owners: Vec<String> = all.iter().filter(|(m, _)| m.starts_with(&p)).map(|(_, o)| o.clone()).collect();
                    owners.sort();
                    owners.dedup();
                    if owners.len() >= 2 {
                        found.push((p, owners));
                    }
                }
            }
        } else {
            let mut all: Vec<(String, String)> = Vec::new();
            for a in &spec.args {
                for l in a.long.iter().chain(a.aliases.iter().map(|x| &x.0)) {
                    all.push((l.clone(), a.id.clone()));
                }
            }
            all.push(("help".into(), "help".into()));
            for (n, _) in &all {
                let cs: Vec<char> = n.chars().collect();
                for k in 1..cs.len() {
                    let p: String = cs[..k].iter().collect();
                    if all.iter().any(|(m, _)| *m == p) {
                        continue;
                    }
                    let mut owners: Vec<String> = all.iter().filter(|(m, _)| m.starts_with(&p)).map(|(_, o)| o.clone()).collect();
                    owners.sort();
                    owners.dedup();
                    if owners.len() >= 2 {
                        found.push((format!("--{p}"), owners));
                    }
                }
            }
        }
        found.sort();
        found.dedup();
        let (tok, candidates) = if found.is_empty() {
            (String::new(), Vec::new())
        } else {
            t.pick(&found).clone()
        };
        let mut argv = vec!["prog".to_owned(), tok];
        for _ in 0..t.range(0, 2) {
            argv.push(t.pick_s(&["v", "1", "val"]).to_owned());
        }
        AmbCase {
            spec,
            argv,
            candidates,
            is_subcommand,
        }
    }
    fn run(&self, case: &AmbCase, ctx: &mut Ctx) -> Verdict {
        if case.candidates.len() < 2 {
            return Verdict::Discard("no-ambiguous-prefix-in-this-spec");
        }
        let cmd = match build_checked(&case.spec) {
            Built::Ok(c) => c,
            Built::Invalid(_) => return Verdict::Discard("invalid-config"),
            Built::Panic(p) => return Verdict::Fail(Failure::from_panic(&p)),
        };
        match catch(|| cmd.try_get_matches_from(case.argv.clone())) {
            Err(p) => Verdict::Fail(Failure::from_panic(&p)),
            Ok(Err(e)) => {
                ctx.label_owned(format!("rejected:{:?}", e.kind()));
                ctx.nontrivial();
                Verdict::Pass
            }
            Ok(Ok(m)) => {
                if case.is_subcommand {
                    if let Some(name) = m.subcommand_name() {
                        ensure!(
                            !case.candidates.iter().any(|c| c == name),
                            "ambiguity:subcommand-prefix-resolved",
                            "argv {:?}: {:?} is a prefix of the subcommands {:?} but the parse selected {:?}",
                            case.argv,
                            case.argv[1],
                            case.candidates,
                            name
                        );
                    }
                    ctx.label("accepted-as-positional-value");
                } else {
                    let obs = observe(&m);
                    for c in &case.candidates {
                        if let Some(a) = obs.arg(c) {
                            ensure!(
                                a.source != Some(Source::CommandLine),
                                "ambiguity:long-prefix-resolved",
                                "argv {:?}: {:?} is a prefix of the longs of {:?} but the parse succeeded with {:?} present",
                                case.argv,
                                case.argv[1],
                                case.candidates,
                                c
                            );
                        }
                    }
                }
                ctx.nontrivial();
                Verdict::Pass
            }
        }
    }
}

pub fn check() -> Check {
    Check {
        id: "C08",
        parts: vec![Box::new(Gen(Spellings)), Box::new(Gen(Ambiguity)), Box::new(Gen(crate::hyph::HyphenLines { name: "hyphen-positional-spellings" }))],
        assumptions: vec![
            "only the equivalences the statement lists are used; flag-subcommand forms are left out because entering a subcommand \
             through a short cluster legitimately continues the parent's logical indices"
                .into(),
            "a long flag of a subcommand that an argument's long merely extends is not used as a spelling when inference is on \
             (undocumented precedence between the two inferences)"
                .into(),
        ],
    }
}
