//! C12 — Help and usage always render, list every visible item and nothing hidden.

use serde::{Deserialize, Serialize};
use std::collections::HashSet;
use vcore::*;
use vmodel::gen::{gen_broad, GenOpts};
use vmodel::{build_checked, Action, ArgSpec, Built, CmdSpec, ParserSpec};

#[derive(Serialize, Deserialize, Hash, Clone, Debug)]
pub struct HelpCase {
    pub spec: CmdSpec,
    /// extra widths to render at (the spec's own term_width is always used too)
    pub widths: Vec<usize>,
}

pub struct Help;

fn is_word_char(c: char) -> bool {
    c.is_alphanumeric() || c == '_' || c == '-'
}

/// Does `token` occur in `text` delimited by non-word characters?
pub fn has_token(text: &str, token: &str) -> bool {
    if token.is_empty() {
        return false;
    }
    let mut start = 0;
    while let Some(i) = text[start..].find(token) {
        let a = start + i;
        let b = a + token.len();
        let before_ok = text[..a].chars().next_back().map(|c| !is_word_char(c)).unwrap_or(true);
        let after_ok = text[b..].chars().next().map(|c| !is_word_char(c)).unwrap_or(true);
        if before_ok && after_ok {
            return true;
        }
        start = a + token.chars().next().map(|c| c.len_utf8()).unwrap_or(1);
        if start >= text.len() {
            break;
        }
    }
    false
}

/// Split default-template help into sections: (title, body lines).
fn sections(help: &str) -> Vec<(String, Vec<String>)> {
    let mut out: Vec<(String, Vec<String>)> = Vec::new();
    for line in help.lines() {
        let is_header = !line.starts_with(' ') && line.ends_with(':') && line.len() > 1;
        if is_header {
            out.push((line[..line.len() - 1].to_owned(), Vec::new()));
        } else if let Some(last) = out.last_mut() {
            if !line.is_empty() && !line.starts_with(' ') {
                // unindented text ends the section (after-help etc.)
                out.push((String::new(), vec![line.to_owned()]));
            } else {
                last.1.push(line.to_owned());
            }
        }
    }
    out
}

fn hidden_for_mode(a: &ArgSpec, long: bool) -> bool {
    a.hide || (long && a.hide_long_help) || (!long && a.hide_short_help)
}

fn arg_item_prefixes(a: &ArgSpec) -> Vec<String> {
    if a.is_positional() {
        let name = a.value_names.first().cloned().unwrap_or_else(|| a.id.clone());
        vec![format!("<{name}>"), format!("[{name}]")]
    } else if let Some(s) = a.short {
        vec![format!("-{s}")]
    } else {
        vec![format!("--{}", a.long.as_ref().unwrap())]
    }
}

fn line_lists(line: &str, prefixes: &[String]) -> bool {
    let t = line.trim_start();
    prefixes.iter().any(|p| {
        t.strip_prefix(p.as_str())
            .map(|rest| rest.chars().next().map(|c| !is_word_char(c)).unwrap_or(true))
            .unwrap_or(false)
    })
}

/// Tokens that may legitimately appear in the help of `level` (names of visible things).
fn legit_tokens(path: &[&CmdSpec], level: &CmdSpec) -> HashSet<String> {
    let mut set = HashSet::new();
    let mut add = |s: &str| {
        for w in s.split(|c: char| !is_word_char(c)) {
            if !w.is_empty() {
                set.insert(w.to_owned());
            }
        }
    };
    for c in path.iter().copied().chain(std::iter::once(level)) {
        add(&c.name);
        // required arguments of ancestors are part of a subcommand's usage line
        for a in &c.args {
            if !std::ptr::eq(c, level) {
                add(&a.id);
                if let Some(l) = &a.long {
                    add(l);
                }
                for v in &a.value_names {
                    add(v);
                }
            }
        }
        if let Some(l) = &c.long_flag {
            add(l);
        }
        for (al, _) in &c.long_flag_aliases {
            add(al);
        }
        for t in [&c.bin_name, &c.display_name, &c.version, &c.long_version, &c.author].into_iter().flatten() {
            add(t);
        }
    }
    for t in [
        &level.about,
        &level.long_about,
        &level.before_help,
        &level.after_help,
        &level.before_long_help,
        &level.after_long_help,
        &level.subcommand_help_heading,
        &level.subcommand_value_name,
        &level.override_usage,
    ]
    .into_iter()
    .flatten()
    {
        add(t);
    }
    for a in &level.args {
        if a.hide {
            continue;
        }
        add(&a.id);
        if let Some(l) = &a.long {
            add(l);
        }
        for (al, vis) in &a.aliases {
            if *vis {
                add(al);
            }
        }
        for v in &a.value_names {
            add(v);
        }
        for t in [&a.help, &a.long_help].into_iter().flatten() {
            add(t);
        }
        if let Some(Some(h)) = &a.help_heading {
            add(h);
        }
        for d in a.default_values.iter().chain(a.default_missing_values.iter()) {
            add(d);
        }
        if let Some((n, v)) = &a.env {
            add(n);
            if let Some(v) = v {
                add(v);
            }
        }
        if let ParserSpec::Possible(pvs) = &a.parser {
            for pv in pvs {
                if !pv.hide {
                    add(&pv.name);
                    if let Some(h) = &pv.help {
                        add(h);
                    }
                }
            }
        }
    }
    for sc in &level.subs {
        if sc.hide {
            continue;
        }
        add(&sc.name);
        for (al, vis) in &sc.aliases {
            if *vis {
                add(al);
            }
        }
        if let Some(l) = &sc.long_flag {
            add(l);
        }
        for (al, vis) in &sc.long_flag_aliases {
            if *vis {
                add(al);
            }
        }
        for t in [&sc.about, &sc.long_about].into_iter().flatten() {
            add(t);
        }
    }
    if level.settings.flatten_help {
        fn add_tree(c: &CmdSpec, add: &mut dyn FnMut(&str)) {
            // (hidden but required arguments of a descendant still show in its usage line)
            for a in c.args.iter() {
                add(&a.id);
                if let Some(l) = &a.long {
                    add(l);
                }
                for v in &a.value_names {
                    add(v);
                }
                if !a.hide {
                    for t in [&a.help, &a.long_help].into_iter().flatten() {
                        add(t);
                    }
                }
            }
            for sc in c.subs.iter().filter(|s| !s.hide) {
                add(&sc.name);
                if let Some(l) = &sc.long_flag {
                    add(l);
                }
                for t in [&sc.about, &sc.long_about].into_iter().flatten() {
                    add(t);
                }
                add_tree(sc, add);
            }
        }
        for sc in level.subs.iter().filter(|s| !s.hide) {
            add_tree(sc, &mut add);
        }
    }
    for w in ["help", "Print", "this", "message", "or", "the", "of", "given", "subcommand", "s", "version", "Usage", "Options",
        "Arguments", "Commands", "OPTIONS", "COMMAND", "default", "possible", "values", "env", "aliases", "short", "see", "more",
        "with", "summary", "For", "information", "try", "a", "h", "V"]
    {
        set.insert(w.to_owned());
    }
    set
}

fn max_space_run(s: &str) -> usize {
    let mut best = 0;
    let mut cur = 0;
    for c in s.chars() {
        if c == ' ' {
            cur += 1;
            best = best.max(cur);
        } else {
            cur = 0;
        }
    }
    best
}

fn check_level_help(
    path: &[&CmdSpec],
    level: &CmdSpec,
    help: &str,
    usage: &str,
    long: bool,
    width: usize,
    judge_sections: bool,
    ctx: &mut Ctx,
) -> Verdict {
    let where_ = || {
        format!(
            "level {:?} {} help at width {}",
            path.iter().map(|c| c.name.as_str()).chain(std::iter::once(level.name.as_str())).collect::<Vec<_>>(),
            if long { "long" } else { "short" },
            width
        )
    };
    // bounded padding
    let input_run = 8 + max_text_space_run(level);
    let run = max_space_run(help).max(max_space_run(usage));
    ensure!(
        run <= 300 + input_run,
        "help:unbounded-padding",
        "{}: a run of {} spaces in the output\n{}",
        where_(),
        run,
        help
    );
    let secs = sections(help);
    // visible args listed in their section
    for a in level.args.iter().filter(|_| judge_sections) {
        if a.action.is_help_or_version() && a.hide {
            continue;
        }
        if !hidden_for_mode(a, long) {
            let title = match &a.help_heading {
                Some(Some(h)) => h.clone(),
                _ => {
                    if a.is_positional() {
                        "Arguments".to_owned()
                    } else {
                        "Options".to_owned()
                    }
                }
            };
            let prefixes = arg_item_prefixes(a);
            let listed = secs
                .iter()
                .filter(|(t, _)| *t == title)
                .any(|(_, body)| body.iter().any(|l| line_lists(l, &prefixes)));
            ensure!(
                listed,
                "help:visible-arg-not-listed",
                "{}: argument {:?} (expected an item starting with one of {:?}) is not listed under {:?}\n{}",
                where_(),
                a.id,
                prefixes,
                title,
                help
            );
            // long name shown as well
            if let (Some(_), Some(l)) = (a.short, &a.long) {
                ensure!(
                    help.contains(&format!("--{l}")),
                    "help:visible-long-not-shown",
                    "{}: argument {:?}: --{} does not appear\n{}",
                    where_(),
                    a.id,
                    l,
                    help
                );
            }
        }
    }
    // visible subcommands listed
    let sub_title = level.subcommand_help_heading.clone().unwrap_or_else(|| "Commands".to_owned());
    for sc in level.subs.iter().filter(|_| judge_sections) {
        if !sc.hide {
            let listed = secs.iter().filter(|(t, _)| *t == sub_title).any(|(_, body)| {
                body.iter().any(|l| line_lists(l, &[sc.name.clone()]))
            });
            ensure!(
                listed,
                "help:visible-subcommand-not-listed",
                "{}: subcommand {:?} is not listed under {:?}\n{}",
                where_(),
                sc.name,
                sub_title,
                help
            );
        }
    }
    // hidden things absent
    let legit = legit_tokens(path, level);
    let both = format!("{help}\n{usage}");
    for sc in &level.subs {
        if sc.hide {
            let mut names: Vec<&String> = vec![&sc.name];
            names.extend(sc.aliases.iter().map(|a| &a.0));
            for n in names {
                if legit.contains(n.as_str()) {
                    ctx.exclude("hidden-name-equals-a-visible-token");
                    continue;
                }
                ensure!(
                    !has_token(&both, n),
                    "help:hidden-subcommand-shown",
                    "{}: hidden subcommand spelling {:?} appears\n{}",
                    where_(),
                    n,
                    both
                );
                ctx.label("hidden-subcommand-checked");
            }
        }
    }
    for a in &level.args {
        let mut targets: HashSet<&str> = HashSet::new();
        for o in &level.args {
            targets.extend(o.requires.iter().map(|x| x.as_str()));
            targets.extend(o.requires_ifs.iter().map(|x| x.1.as_str()));
        }
        for g in &level.groups {
            targets.extend(g.requires.iter().map(|x| x.as_str()));
        }
        let my_groups: Vec<&str> = level
            .groups
            .iter()
            .filter(|g| g.args.contains(&a.id))
            .map(|g| g.id.as_str())
            .chain(a.groups.iter().map(|g| g.as_str()))
            .collect();
        let optional = !a.required
            && a.required_if_eq_any.is_empty()
            && a.required_if_eq_all.is_empty()
            && a.required_unless_present_any.is_empty()
            && a.required_unless_present_all.is_empty()
            && !level.groups.iter().any(|g| g.required && g.args.contains(&a.id))
            && !targets.contains(a.id.as_str())
            && !my_groups.iter().any(|g| targets.contains(g));
        if a.hide && optional {
            if let Some(l) = &a.long {
                let tok = format!("--{l}");
                if legit.contains(l.as_str()) {
                    ctx.exclude("hidden-name-equals-a-visible-token");
                    continue;
                }
                ensure!(
                    !has_token(&both, &tok),
                    "help:hidden-arg-shown",
                    "{}: hidden optional argument {:?}: {} appears\n{}",
                    where_(),
                    a.id,
                    tok,
                    both
                );
                ctx.label("hidden-arg-checked");
            }
        }
        // hidden possible values: never in the listing of that argument
        if let (ParserSpec::Possible(pvs), true) = (&a.parser, judge_sections) {
            for pv in pvs.iter().filter(|p| p.hide && !p.name.is_empty()) {
                let used_as_default = a.default_values.contains(&pv.name)
                    || a.default_missing_values.contains(&pv.name)
                    || a.env.as_ref().and_then(|e| e.1.as_ref()) == Some(&pv.name);
                if used_as_default {
                    ctx.exclude("hidden-possible-value-used-as-default-or-env");
                    continue;
                }
                let mine = arg_item_prefixes(a);
                if level.args.iter().any(|o| o.id != a.id && arg_item_prefixes(o).iter().any(|p| mine.contains(p))) {
                    ctx.exclude("argument-entry-not-identifiable-by-its-item-prefix");
                    continue;
                }
                if let Some(entry) = arg_entry(help, &mine) {
                    let mut listed: Vec<String> = Vec::new();
                    for line in entry.lines() {
                        if let Some(i) = line.find("[possible values: ") {
                            let rest = &line[i + "[possible values: ".len()..];
                            let list = rest.split(']').next().unwrap_or("");
                            listed.extend(list.split(", ").map(|x| x.to_owned()));
                        }
                        let t = line.trim_start();
                        if let Some(item) = t.strip_prefix("- ") {
                            listed.push(item.split(':').next().unwrap_or("").to_owned());
                        }
                    }
                    ensure!(
                        !listed.contains(&pv.name),
                        "help:hidden-possible-value-shown",
                        "{}: hidden possible value {:?} of {:?} is listed in its entry:\n{}",
                        where_(),
                        pv.name,
                        a.id,
                        entry
                    );
                }
                ctx.label("hidden-possible-value-checked");
            }
        }
    }
    Verdict::Pass
}

/// The help entry of one argument: its item line (indent 2) and the more deeply
/// indented lines that follow.
fn arg_entry(help: &str, prefixes: &[String]) -> Option<String> {
    let lines: Vec<&str> = help.lines().collect();
    let indent = |l: &str| l.len() - l.trim_start().len();
    // items start at indent 2, long-only options at indent 6 (aligned after `-x, `)
    let is_item = |l: &str| indent(l) == 2 || (indent(l) == 6 && l.trim_start().starts_with("--"));
    let start = lines.iter().position(|l| is_item(l) && line_lists(l, prefixes))?;
    let mut out = vec![lines[start]];
    for l in &lines[start + 1..] {
        if l.trim().is_empty() || (indent(l) > 2 && !is_item(l)) {
            out.push(l);
        } else {
            break;
        }
    }
    Some(out.join("\n"))
}

fn max_text_space_run(c: &CmdSpec) -> usize {
    let mut best = 0;
    let mut see = |s: &Option<String>| {
        if let Some(s) = s {
            best = best.max(max_space_run(s));
        }
    };
    see(&c.about);
    see(&c.long_about);
    see(&c.before_help);
    see(&c.after_help);
    see(&c.before_long_help);
    see(&c.after_long_help);
    see(&c.author);
    see(&c.help_template);
    see(&c.override_usage);
    see(&c.override_help);
    for a in &c.args {
        see(&a.help);
        see(&a.long_help);
    }
    for s in &c.subs {
        see(&s.about);
        see(&s.long_about);
    }
    best
}

fn walk_levels<'a>(
    path: &mut Vec<&'a CmdSpec>,
    level: &'a CmdSpec,
    cmd: &mut clap::Command,
    width: usize,
    ctx: &mut Ctx,
    flat_or_custom_above: bool,
) -> Verdict {
    let judge = !flat_or_custom_above
        && level.help_template.is_none()
        && level.override_help.is_none()
        && !level.settings.flatten_help;
    for long in [false, true] {
        let rendered = match catch(|| {
            let h = if long { cmd.render_long_help() } else { cmd.render_help() };
            let _ = h.ansi().to_string();
            (h.to_string(), cmd.render_usage().to_string())
        }) {
            Ok(x) => x,
            Err(p) => {
                return Verdict::fail(
                    p.signature(),
                    format!(
                        "rendering {} help of {:?} at width {} panicked at {}:{}: {}",
                        if long { "long" } else { "short" },
                        level.name,
                        width,
                        p.file,
                        p.line,
                        p.message
                    ),
                )
            }
        };
        if let Verdict::Fail(f) = check_level_help(path, level, &rendered.0, &rendered.1, long, width, judge, ctx) {
            return Verdict::Fail(f);
        }
    }
    // the generated `help` subcommand of a built command carries a copy of the subtree (`prog help <sub> ...`): its own help
    // pages must not list what is hidden either
    if !level.settings.disable_help_subcommand && !level.subs.is_empty() && !level.subs.iter().any(|s| s.name == "help" || s.aliases.iter().any(|a| a.0 == "help")) {
        if let Some(help_cmd) = cmd.find_subcommand_mut("help") {
            if let Verdict::Fail(f) = walk_help_tree(path, level, help_cmd, ctx) {
                return Verdict::Fail(f);
            }
        }
    }
    path.push(level);
    for sc in &level.subs {
        let Some(sub) = cmd.find_subcommand_mut(&sc.name) else {
            path.pop();
            return Verdict::fail("help:subcommand-missing", format!("built command lacks subcommand {:?}", sc.name));
        };
        if let Verdict::Fail(f) = walk_levels(path, sc, sub, width, ctx, false) {
            path.pop();
            return Verdict::Fail(f);
        }
    }
    path.pop();
    Verdict::Pass
}

/// help requested on the command line at every level yields that level's help
fn check_help_dispatch(spec: &CmdSpec, ctx: &mut Ctx) -> Verdict {
    fn rec(spec: &CmdSpec, path: &mut Vec<String>, level: &CmdSpec, markers: &mut Vec<String>, help_off: bool, ctx: &mut Ctx) -> Verdict {
        let help_off = help_off || level.settings.disable_help_flag;
        let marker = format!("MARK{}X", path.join("Q").replace(|c: char| !c.is_ascii_alphanumeric(), "Z"));
        markers.push(marker.clone());
        let taken_h = level.args.iter().any(|a| a.short == Some('h') || a.short_aliases.iter().any(|x| x.0 == 'h'))
            || level.subs.iter().any(|s| s.short_flag == Some('h') || s.short_flag_aliases.iter().any(|x| x.0 == 'h'));
        let plain = level.help_template.is_none() && level.override_help.is_none();
        if !help_off && plain {
            for flag in ["--help", "-h"] {
                if flag == "-h" && taken_h {
                    continue;
                }
                // a fresh command whose about texts are unique markers
                let mut marked = spec.clone();
                fn mark(c: &mut CmdSpec, path: &mut Vec<String>) {
                    let m = format!("MARK{}X", path.join("Q").replace(|c: char| !c.is_ascii_alphanumeric(), "Z"));
                    c.about = Some(m.clone());
                    c.long_about = None;
                    for s in &mut c.subs {
                        path.push(s.name.clone());
                        mark(s, path);
                        path.pop();
                    }
                }
                let mut p0 = Vec::new();
                mark(&mut marked, &mut p0);
                let mut argv: Vec<String> = if spec.settings.no_binary_name { vec![] } else { vec!["prog".into()] };
                argv.extend(path.iter().cloned());
                argv.push(flag.to_owned());
                let res = catch(|| {
                    let cmd = marked.to_clap();
                    cmd.try_get_matches_from(argv.clone()).map(|_| ()).map_err(|e| (format!("{:?}", e.kind()), e.render().to_string()))
                });
                match res {
                    Err(p) => {
                        return Verdict::fail(
                            p.signature(),
                            format!("help request {:?} panicked at {}:{}: {}", argv, p.file, p.line, p.message),
                        )
                    }
                    Ok(Err((kind, text))) if kind == "DisplayHelp" => {
                        ensure!(
                            text.contains(&marker),
                            "help:wrong-level",
                            "help requested by {:?} does not show the about text of that level ({}):\n{}",
                            argv,
                            marker,
                            text
                        );
                        for other in markers.iter().filter(|m| **m != marker) {
                            ensure!(
                                !text.starts_with(other.as_str()),
                                "help:wrong-level",
                                "help requested by {:?} starts with another level's about ({}):\n{}",
                                argv,
                                other,
                                text
                            );
                        }
                        if !path.is_empty() && level.override_usage.is_none() && !level.settings.flatten_help {
                            let usage_line = text.lines().find(|l| l.starts_with("Usage:")).unwrap_or("");
                            ensure!(
                                usage_line.contains(path.last().unwrap().as_str()),
                                "help:usage-wrong-level",
                                "help requested by {:?}: usage line {:?} does not name {:?}",
                                argv,
                                usage_line,
                                path.last().unwrap()
                            );
                            ctx.label("help-dispatch-at-depth>=1");
                            ctx.nontrivial();
                        }
                    }
                    Ok(other) => {
                        // a path that cannot be taken (e.g. a positional swallowing the name) is
                        // not a help question; only count it
                        let _ = other;
                        ctx.label("help-dispatch-path-not-reached");
                    }
                }
            }
        }
        for sc in &level.subs {
            path.push(sc.name.clone());
            if let Verdict::Fail(f) = rec(spec, path, sc, markers, help_off, ctx) {
                return Verdict::Fail(f);
            }
            path.pop();
        }
        markers.pop();
        Verdict::Pass
    }
    if spec.settings.multicall {
        return Verdict::Pass;
    }
    rec(spec, &mut Vec::new(), spec, &mut Vec::new(), false, ctx)
}

/// `help_cmd`: the node of the generated help tree that stands for `level` (the `help` subcommand itself for the level that
/// owns it, the copy of a subcommand below).
fn walk_help_tree(path: &[&CmdSpec], level: &CmdSpec, help_cmd: &mut clap::Command, ctx: &mut Ctx) -> Verdict {
    for long in [false, true] {
        let rendered = match catch(|| {
            let h = if long { help_cmd.render_long_help() } else { help_cmd.render_help() };
            format!("{}\n{}", h, help_cmd.render_usage())
        }) {
            Ok(x) => x,
            Err(p) => {
                return Verdict::fail(
                    p.signature(),
                    format!("rendering the help of the help-tree node for {:?} panicked at {}:{}: {}", level.name, p.file, p.line, p.message),
                )
            }
        };
        let legit = legit_tokens(path, level);
        for sc in level.subs.iter().filter(|s| s.hide) {
            let mut names: Vec<&String> = vec![&sc.name];
            names.extend(sc.aliases.iter().map(|a| &a.0));
            for n in names {
                if legit.contains(n.as_str()) {
                    ctx.exclude("hidden-name-equals-a-visible-token");
                    continue;
                }
                ensure!(
                    !has_token(&rendered, n),
                    "help:hidden-subcommand-shown-in-help-tree",
                    "help-tree node for level {:?} ({} help): hidden subcommand spelling {:?} appears\n{}",
                    level.name,
                    if long { "long" } else { "short" },
                    n,
                    rendered
                );
                ctx.label("hidden-subcommand-checked-in-help-tree");
            }
        }
    }
    let mut below: Vec<&CmdSpec> = path.to_vec();
    below.push(level);
    for sc in &level.subs {
        if let Some(copy) = help_cmd.find_subcommand_mut(&sc.name) {
            if let Verdict::Fail(f) = walk_help_tree(&below, sc, copy, ctx) {
                return Verdict::Fail(f);
            }
        }
    }
    Verdict::Pass
}

pub fn run_help(case: &HelpCase, ctx: &mut Ctx) -> Verdict {
    match build_checked(&case.spec) {
        Built::Ok(_) => {}
        Built::Invalid(_) => return Verdict::Discard("invalid-config"),
        Built::Panic(p) => {
            return Verdict::fail(
                format!("build-{}", p.signature()),
                format!("Command::build panicked outside the configuration checks at {}:{}: {}", p.file, p.line, p.message),
            )
        }
    }
    let mut widths: Vec<usize> = vec![case.spec.term_width.unwrap_or(80)];
    widths.extend(case.widths.iter().copied());
    for w in widths {
        let mut spec = case.spec.clone();
        spec.term_width = Some(w);
        let mut cmd = spec.to_clap();
        if let Err(p) = catch(|| cmd.build()) {
            return Verdict::fail(p.signature(), format!("build at width {w} panicked at {}:{}: {}", p.file, p.line, p.message));
        }
        let mut path = Vec::new();
        if let Verdict::Fail(f) = walk_levels(&mut path, &spec, &mut cmd, w, ctx, false) {
            return Verdict::Fail(f);
        }
    }
    if let Verdict::Fail(f) = check_help_dispatch(&case.spec, ctx) {
        return Verdict::Fail(f);
    }
    // classes
    let s = &case.spec;
    let mut nontrivial = false;
    for level in std::iter::once(s).chain(s.subs.iter()) {
        let opts: Vec<&ArgSpec> = level.args.iter().filter(|a| !a.is_positional() && !a.hide).collect();
        if opts.len() >= 2 {
            nontrivial = true;
        }
        if !opts.is_empty() && opts.iter().all(|a| a.long.is_none()) {
            ctx.label("section-with-only-short-flags");
            nontrivial = true;
            if opts.iter().all(|a| a.action == Action::Count) {
                ctx.label("count-only-section");
            }
        }
        if level.args.iter().any(|a| matches!(a.help_heading, Some(Some(_)))) {
            ctx.label("custom-heading");
        }
        if level.args.iter().any(|a| a.next_line_help) || level.settings.next_line_help {
            ctx.label("next-line-help");
        }
        if level.settings.flatten_help {
            ctx.label("flatten");
        }
        if level.help_template.is_some() {
            ctx.label("custom-template");
        }
    }
    if nontrivial {
        ctx.nontrivial();
    }
    Verdict::Pass
}

impl Property for Help {
    type Case = HelpCase;
    fn name(&self) -> &'static str {
        "help"
    }
    fn rule(&self) -> String {
        "broad command trees with the full help surface (short-only / long-only flags, Count, value names, custom headings, display \
         order, the three hide modes, hidden subcommands, possible values with help/hidden, defaults, env, next_line_help per arg and \
         per command, flatten_help, templates from a tag grammar incl. unknown/unbalanced tags, before/after/long variants, \
         override_usage) rendered at the spec's width (0..200) plus 2 further widths, short and long, at every level of the tree, \
         plus render_usage and the DisplayHelp error for `--help`/`-h` after every subcommand path. Oracle: no panic; no run of \
         spaces longer than 300 + longest input run; default template without flatten: every argument not hidden for the mode has an \
         item line (starting with -s / --long / <NAME> / [NAME]) inside the section titled by its heading, every visible subcommand is \
         listed under the commands heading, hidden subcommand spellings / `--long` of optional hidden args appear nowhere in help or \
         usage (skipped and counted when the name equals a visible token), hidden possible values are not in that argument's \
         [possible values: ..] list; help after path P shows P's unique about marker and a usage line naming P. Non-trivial: a level \
         with >= 2 visible options or only short-only flags, or help dispatch at depth >= 1; distinct = distinct (spec, widths)."
            .into()
    }
    fn budget(&self, tier: Tier) -> Budget {
        Budget {
            cases: tier.pick(200_000, 6_000_000),
            tape_len: 5000,
        }
    }
    fn decode(&self, t: &mut Tape<'_>) -> HelpCase {
        let opts = GenOpts {
            help_surface: true,
            ignore_errors: false,
            exotic_settings: true,
            ..GenOpts::default()
        };
        let spec = gen_broad(t, &opts);
        let widths = vec![t.range(0, 200), *t.pick(&[0usize, 1, 2, 3, 5, 10, 20, 40, 79, 80, 100, 120, 200])];
        HelpCase { spec, widths }
    }
    fn run(&self, case: &HelpCase, ctx: &mut Ctx) -> Verdict {
        run_help(case, ctx)
    }
    fn json_shrinkable(&self) -> bool {
        true
    }
}

pub fn check() -> Check {
    Check {
        id: "C12",
        parts: vec![Box::new(Gen(Help))],
        assumptions: vec![
            "term_width is always explicit, so the terminal is never queried".into(),
            "section membership is judged for the default template without flatten_help / override_help; custom templates and \
             flattened help are judged for no-panic and bounded padding only"
                .into(),
            "'hidden' = hide(true); arguments hidden for one help mode only are neither required nor forbidden in that mode".into(),
            "descriptive texts come from a pool of plain words, so item lines cannot be imitated by help text".into(),
        ],
    }
}
