//! C10 — Rejections are justified, correctly classified, and carry the CLI exit contract.

use crate::util::os;
use clap::error::{ContextKind, ContextValue, ErrorKind};
use serde::{Deserialize, Serialize};
use vcore::*;
use vmodel::conv::*;
use vmodel::observe::{exit_contract_violation, observe_err};
use vmodel::{build_checked, Action, ArgSpec, Built, CmdSpec, ParserSpec, PvSpec};

#[derive(Serialize, Deserialize, Hash, Clone, Debug)]
pub struct FaultCase {
    pub spec: CmdSpec,
    /// the invocation after the fault was injected
    pub inv: Invocation,
    pub argv: Vec<String>,
    /// which fault
    pub fault: String,
    /// what the error has to name (spelling of the injected item), if anything
    pub item: Vec<String>,
    /// path of subcommand names to the level the fault sits in
    pub level_path: Vec<String>,
}

pub struct Faults;

fn dec(v: &[String]) -> Vec<std::ffi::OsString> {
    v.iter().map(|s| os(&vals_hex::decode(s).unwrap_or_else(|_| s.as_bytes().to_vec()))).collect()
}

fn ctx_strings(e: &clap::Error, kind: ContextKind) -> Vec<String> {
    let mut out = Vec::new();
    for (k, v) in e.context() {
        if k == kind {
            match v {
                ContextValue::String(s) => out.push(s.clone()),
                ContextValue::Strings(ss) => out.extend(ss.iter().cloned()),
                ContextValue::StyledStr(s) => out.push(s.to_string()),
                ContextValue::StyledStrs(ss) => out.extend(ss.iter().map(|s| s.to_string())),
                ContextValue::Number(n) => out.push(n.to_string()),
                ContextValue::Bool(b) => out.push(b.to_string()),
                _ => {}
            }
        }
    }
    out
}

fn level_at<'a>(spec: &'a CmdSpec, path: &[String]) -> Option<&'a CmdSpec> {
    let mut c = spec;
    for p in path {
        c = c.subs.iter().find(|s| s.name == *p)?;
    }
    Some(c)
}
fn level_at_mut<'a>(spec: &'a mut CmdSpec, path: &[String]) -> Option<&'a mut CmdSpec> {
    match path.split_first() {
        None => Some(spec),
        Some((h, rest)) => level_at_mut(spec.subs.iter_mut().find(|s| s.name == *h)?, rest),
    }
}

fn display_of(a: &ArgSpec) -> String {
    match (&a.long, a.short) {
        (Some(l), _) => format!("--{l}"),
        (None, Some(s)) => format!("-{s}"),
        _ => a.value_names.first().cloned().unwrap_or_else(|| a.id.clone()),
    }
}

const FAULTS: &[&str] = &[
    "unknown-long",
    "unknown-short",
    "unknown-cluster-member",
    "surplus-word",
    "required-removed",
    "conflict-added",
    "exclusive-added",
    "set-repeated",
    "value-missing",
    "count-wrong",
    "no-equals",
    "bad-possible-value",
    "bad-integer",
    "flag-with-value",
    "missing-subcommand",
    "help-request",
    "version-request",
];

impl Property for Faults {
    type Case = FaultCase;
    fn name(&self) -> &'static str {
        "single-faults"
    }
    fn rule(&self) -> String {
        format!(
            "conventional command trees x a fault-free intended invocation x exactly one injected fault out of {:?}, then spelled freely. \
             Oracle: the parse fails with a kind the ErrorKind documentation allows for that fault (unknown long/short/cluster member -> \
             UnknownArgument naming the token; surplus word -> UnknownArgument or InvalidSubcommand naming it; required positional removed \
             -> MissingRequiredArgument naming it; conflicting / exclusive partner added, Set argument repeated -> ArgumentConflict naming \
             one of the two; option left without value -> InvalidValue/TooFewValues/WrongNumberOfValues naming the option; wrong fixed \
             count -> WrongNumberOfValues with both counts; below minimum -> TooFewValues with both counts; missing = -> NoEquals; value \
             outside possible values -> InvalidValue with the value, valid/suggested values all declared; integer outside range -> \
             ValueValidation; --flag=x -> TooManyValues; required subcommand missing -> MissingSubcommand; --help/-h -> DisplayHelp; \
             --version/-V -> DisplayVersion), every SuggestedArg / SuggestedSubcommand / SuggestedValue names something defined at that \
             level, and the exit contract holds (help/version <=> stdout <=> 0, everything else stderr and 2). Non-trivial: the fault is \
             not the last token, or sits in a cluster or below a subcommand; distinct = distinct (spec, invocation, argv, fault).",
            FAULTS
        )
    }
    fn budget(&self, tier: Tier) -> Budget {
        Budget {
            cases: tier.pick(1_500_000, 25_000_000),
            tape_len: 2500,
        }
    }
    fn decode(&self, t: &mut Tape<'_>) -> FaultCase {
        let co = ConvOpts {
            max_depth: 3,
            defaults: false,
            low_index_multi: false,
            ..ConvOpts::default()
        };
        let mut spec = gen_conv_spec(t, &co);
        if t.chance(1, 3) {
            spec.version = Some("1.2.3".into());
        }
        let fault = *t.pick(FAULTS);
        if fault != "help-request" && t.chance(1, 4) {
            // help switched off (global settings: in effect on every level): the closing hint of an error may only
            // point at a help mechanism that still exists
            match t.choose(3) {
                0 => spec.settings.disable_help_flag = true,
                1 => spec.settings.disable_help_subcommand = true,
                _ => {
                    spec.settings.disable_help_flag = true;
                    spec.settings.disable_help_subcommand = true;
                }
            }
        }
        // typed option for the value faults: chosen before the invocation so that its values fit
        if fault == "bad-possible-value" || fault == "bad-integer" {
            fn first_opt(c: &mut CmdSpec) -> Option<&mut ArgSpec> {
                c.args
                    .iter_mut()
                    .find(|a| a.action.takes_values() && !a.is_positional() && a.long.is_some() && a.value_range().0 <= 1 && a.value_range().1 >= 1 && a.value_delimiter.is_none())
            }
            if let Some(a) = first_opt(&mut spec) {
                a.default_missing_values.clear();
                a.num_args = None;
                if fault == "bad-integer" {
                    a.parser = ParserSpec::I64 { lo: -10, hi: 10 };
                } else {
                    a.parser = ParserSpec::Possible(
                        ["fast", "slow", "auto"]
                            .iter()
                            .map(|n| PvSpec {
                                name: (*n).to_owned(),
                                ..Default::default()
                            })
                            .collect(),
                    );
                }
            }
        }
        let mut inv = gen_invocation(t, &spec, &InvOpts::default());
        // the level the fault goes to: the deepest level of the invocation (its tokens are the last ones) or the root
        let deep = t.chance(2, 3);
        let li = if deep { inv.levels.len() - 1 } else { 0 };
        let level_path: Vec<String> = inv.levels.iter().take(li).filter_map(|l| l.sub.clone()).collect();
        let mut item: Vec<String> = Vec::new();
        let mut st = SpellStats {
            hook_level: li,
            ..Default::default()
        };
        let mut append_token: Option<String> = None; // at the very end of argv
        let mut prepend_token: Option<String> = None; // right after argv[0]
        let mut ok = true;
        let escaped = |lv: &LevelInv| lv.occs.iter().any(|o| matches!(o, Occ::Escape));
        let last_is_open_opt = |spec: &CmdSpec, inv: &Invocation| -> bool {
            // conservative: any trailing option occurrence may still be collecting values
            let _ = spec;
            matches!(inv.levels.last().and_then(|l| l.occs.last()), Some(Occ::Opt { .. }))
        };
        match fault {
            "unknown-long" | "unknown-short" | "help-request" | "version-request" => {
                let tok = match fault {
                    "unknown-long" => "--nope-zz".to_owned(),
                    "unknown-short" => "-Z".to_owned(),
                    "help-request" => (*t.pick(&["--help", "-h"])).to_owned(),
                    _ => (*t.pick(&["--version", "-V"])).to_owned(),
                };
                if fault == "version-request" && spec.version.is_none() {
                    ok = false;
                }
                item.push(tok.clone());
                // (a version is only known to the root unless propagate_version is used)
                if deep && fault != "version-request" {
                    if escaped(inv.levels.last().unwrap()) {
                        ok = false;
                    }
                    append_token = Some(tok);
                } else {
                    prepend_token = Some(tok);
                }
            }
            "unknown-cluster-member" => {
                // a cluster of one defined no-value short and an undefined letter
                let lvl = level_at(&spec, &level_path);
                let present_here: Vec<String> = inv.levels[li]
                    .occs
                    .iter()
                    .filter_map(|o| if let Occ::Flag { arg } = o { Some(arg.clone()) } else { None })
                    .collect();
                let f = lvl.and_then(|l| {
                    l.args
                        .iter()
                        .find(|a| !a.action.takes_values() && a.short.is_some() && (a.action == Action::Count || !present_here.contains(&a.id)))
                });
                match f {
                    Some(f) => {
                        let tok = format!("-{}Z", f.short.unwrap());
                        item.push("-Z".into());
                        if deep {
                            if escaped(inv.levels.last().unwrap()) {
                                ok = false;
                            }
                            append_token = Some(tok);
                        } else {
                            prepend_token = Some(tok);
                        }
                    }
                    None => ok = false,
                }
            }
            "surplus-word" => {
                // only where no positional can take it and nothing is pending
                let full: Vec<String> = inv.levels.iter().filter_map(|l| l.sub.clone()).collect();
                if let Some(l) = level_at_mut(&mut spec, &full) {
                    l.args.retain(|a| !a.is_positional());
                }
                if let Some(lv) = inv.levels.last_mut() {
                    lv.occs.retain(|o| !matches!(o, Occ::Pos { .. } | Occ::Escape));
                }
                let lvl = level_at(&spec, &full);
                let no_pos = lvl.map(|l| !l.args.iter().any(|a| a.is_positional())).unwrap_or(false);
                if no_pos && !last_is_open_opt(&spec, &inv) && !escaped(inv.levels.last().unwrap()) {
                    let w = "zzword".to_owned();
                    item.push(w.clone());
                    append_token = Some(w);
                } else {
                    ok = false;
                }
            }
            "required-removed" => {
                let lvl = level_at(&spec, &level_path);
                let req: Vec<&ArgSpec> = lvl.map(|l| l.args.iter().filter(|a| a.is_positional() && a.required).collect()).unwrap_or_default();
                if let Some(r) = req.last() {
                    let rid = r.id.clone();
                    let lv = &mut inv.levels[li];
                    // drop it and every later positional occurrence
                    if let Some(p) = lv.occs.iter().position(|o| matches!(o, Occ::Pos { arg, .. } if *arg == rid)) {
                        let mut k = 0;
                        lv.occs.retain(|o| {
                            let keep = !(k >= p && matches!(o, Occ::Pos { .. }));
                            k += 1;
                            keep
                        });
                        // a subcommand after the level would move the error elsewhere only if it negates requirements
                        item.push(format!("<{}>", rid));
                    } else {
                        ok = false;
                    }
                } else {
                    ok = false;
                }
            }
            "conflict-added" | "exclusive-added" => {
                let present: Vec<String> = inv.levels[li]
                    .occs
                    .iter()
                    .filter_map(|o| match o {
                        Occ::Flag { arg } | Occ::Opt { arg, .. } => Some(arg.clone()),
                        _ => None,
                    })
                    .collect();
                let lvl = level_at_mut(&mut spec, &level_path);
                let mut done = false;
                if let Some(l) = lvl {
                    let cand = l
                        .args
                        .iter()
                        .position(|a| !a.action.takes_values() && !a.is_positional() && !present.contains(&a.id));
                    if let (Some(ci), Some(x)) = (cand, present.first()) {
                        if fault == "conflict-added" {
                            if t.bool() {
                                l.args[ci].conflicts_with.push(x.clone());
                            } else {
                                let cid = l.args[ci].id.clone();
                                if let Some(xa) = l.args.iter_mut().find(|a| a.id == *x) {
                                    xa.conflicts_with.push(cid);
                                }
                            }
                            item.push(display_of(&l.args[ci]));
                            let xd = l.args.iter().find(|a| a.id == *x).map(display_of).unwrap_or_default();
                            item.push(xd);
                        } else {
                            l.args[ci].exclusive = true;
                            item.push(display_of(&l.args[ci]));
                        }
                        let cid = l.args[ci].id.clone();
                        let lv = &mut inv.levels[li];
                        let pre: usize = insert_limit(&lv.occs);
                        let at = t.range(0, pre);
                        // never between two occurrences of one positional
                        lv.occs.insert(at, Occ::Flag { arg: cid });
                        done = true;
                    }
                }
                if !done {
                    ok = false;
                }
            }
            "set-repeated" | "value-missing" | "count-wrong" | "no-equals" => {
                // shape one option of the level for the fault and make sure it occurs once
                let mut done = false;
                if let Some(l) = level_at_mut(&mut spec, &level_path) {
                    if let Some(ai) = l.args.iter().position(|a| a.action.takes_values() && !a.is_positional() && !a.global) {
                        let a = &mut l.args[ai];
                        a.value_delimiter = None;
                        a.default_missing_values.clear();
                        a.require_equals = false;
                        a.overrides_with.clear();
                        a.parser = ParserSpec::Str;
                        a.value_terminator = Some(";".to_owned());
                        let shape = t.choose(3);
                        match fault {
                            "set-repeated" => {
                                a.action = Action::Set;
                                a.num_args = None;
                                a.value_terminator = None;
                                l.settings.args_override_self = false;
                            }
                            "value-missing" => {
                                a.num_args = match shape {
                                    0 => None,
                                    1 => Some((1, usize::MAX)),
                                    _ => Some((1, 3)),
                                };
                            }
                            "count-wrong" => {
                                a.num_args = Some(match shape {
                                    0 => (2, 2),
                                    1 => (2, usize::MAX),
                                    _ => (2, 3),
                                });
                            }
                            _ => {
                                a.num_args = None;
                                a.require_equals = true;
                                a.value_terminator = None;
                            }
                        }
                        let (lo, hi) = a.value_range();
                        let aid = a.id.clone();
                        let d = display_of(a);
                        let lv = &mut inv.levels[li];
                        lv.occs.retain(|o| !matches!(o, Occ::Opt { arg, .. } if *arg == aid));
                        let pre = insert_limit(&lv.occs);
                        let at = t.range(0, pre);
                        item.push(d);
                        match fault {
                            "set-repeated" => {
                                lv.occs.insert(at, Occ::Opt { arg: aid.clone(), values: vec![b"v".to_vec()] });
                                let at2 = t.range(at + 1, pre + 1);
                                lv.occs.insert(at2, Occ::Opt { arg: aid.clone(), values: vec![b"w".to_vec()] });
                            }
                            "value-missing" => {
                                lv.occs.insert(at, Occ::Opt { arg: aid.clone(), values: vec![] });
                            }
                            "count-wrong" => {
                                lv.occs.insert(at, Occ::Opt { arg: aid.clone(), values: vec![b"v".to_vec()] });
                                item.push(if lo == hi { format!("fixed:{lo}") } else { format!("min:{lo}") });
                                st.force_separated = Some(aid.clone());
                            }
                            _ => {
                                lv.occs.insert(at, Occ::Opt { arg: aid.clone(), values: vec![b"v".to_vec()] });
                                st.force_separated = Some(aid.clone());
                            }
                        }
                        // splitting a positional occurrence in two would be a second fault
                        let split_pos = at > 0
                            && matches!((&lv.occs[at - 1], lv.occs.get(at + 1)), (Occ::Pos { arg: x, .. }, Some(Occ::Pos { arg: y, .. })) if x == y);
                        // (removing the old occurrence may also have joined two occurrences of one positional)
                        let joined_pos = lv.occs.windows(2).any(|w| matches!((&w[0], &w[1]), (Occ::Pos { arg: x, .. }, Occ::Pos { arg: y, .. }) if x == y));
                        done = !split_pos && !joined_pos;
                    }
                }
                if !done {
                    ok = false;
                }
            }
            "bad-possible-value" | "bad-integer" => {
                // the typed option lives at the root
                let typed = spec.args.iter().find(|a| matches!(a.parser, ParserSpec::Possible(_) | ParserSpec::I64 { .. })).map(|a| a.id.clone());
                let lv = &mut inv.levels[0];
                let mut done = false;
                if let Some(tid) = typed {
                    let bad: &[u8] = if fault == "bad-integer" { b"99" } else { b"fasst" };
                    for o in lv.occs.iter_mut() {
                        if let Occ::Opt { arg, values } = o {
                            if *arg == tid && values.len() == 1 {
                                values[0] = bad.to_vec();
                                done = true;
                                break;
                            }
                        }
                    }
                    if !done {
                        let pre = insert_limit(&lv.occs);
                        lv.occs.insert(
                            pre,
                            Occ::Opt {
                                arg: tid.clone(),
                                values: vec![bad.to_vec()],
                            },
                        );
                        done = true;
                    }
                    st.force_equals = Some(tid.clone());
                    st.hook_level = 0;
                    item.push(display_of(spec.arg(&tid).unwrap()));
                    item.push(String::from_utf8_lossy(bad).into_owned());
                }
                if !done {
                    ok = false;
                }
            }
            "flag-with-value" => {
                let lvl = level_at(&spec, &level_path);
                let lv = &inv.levels[li];
                let hit = lv.occs.iter().find_map(|o| match o {
                    Occ::Flag { arg } => lvl.and_then(|l| l.arg(arg)).filter(|a| a.long.is_some()).map(|a| (arg.clone(), display_of(a))),
                    _ => None,
                });
                match hit {
                    Some((arg, d)) => {
                        item.push(d);
                        st.flag_equals = Some(arg);
                    }
                    None => ok = false,
                }
            }
            "missing-subcommand" => {
                let full: Vec<String> = inv.levels.iter().filter_map(|l| l.sub.clone()).collect();
                match level_at_mut(&mut spec, &full) {
                    Some(l) if !l.subs.is_empty() => {
                        l.settings.subcommand_required = true;
                        item.push(l.name.clone());
                    }
                    _ => ok = false,
                }
            }
            _ => ok = false,
        }
        let mut argv: Vec<String> = Vec::new();
        if ok {
            if let Some(sp) = spell(t, &spec, &inv, &mut st) {
                argv = sp.argv.iter().map(|b| show_bytes(b)).collect();
                if let Some(tok) = prepend_token {
                    argv.insert(1, tok);
                }
                if let Some(tok) = append_token {
                    if last_is_open_opt(&spec, &inv) && !tok.starts_with('-') {
                        argv.clear();
                    } else {
                        argv.push(tok);
                    }
                }
            }
        }
        FaultCase {
            spec,
            inv,
            argv,
            fault: fault.to_owned(),
            item,
            level_path,
        }
    }
    fn run(&self, case: &FaultCase, ctx: &mut Ctx) -> Verdict {
        if case.argv.is_empty() {
            return Verdict::Discard("fault-not-applicable-or-unspellable");
        }
        let cmd = match build_checked(&case.spec) {
            Built::Ok(c) => c,
            Built::Invalid(_) => return Verdict::Discard("invalid-config"),
            Built::Panic(p) => return Verdict::Fail(Failure::from_panic(&p)),
        };
        let res = match catch(|| cmd.try_get_matches_from(dec(&case.argv))) {
            Err(p) => return Verdict::Fail(Failure::from_panic(&p)),
            Ok(r) => r,
        };
        let e = match res {
            Ok(_) => {
                return Verdict::fail(
                    format!("faults:{}:accepted", case.fault),
                    format!("argv {:?} carries the fault {:?} ({:?}) but the parse succeeded", case.argv, case.fault, case.item),
                )
            }
            Err(e) => e,
        };
        let eo = observe_err(&e);
        if let Some(v) = exit_contract_violation(&eo) {
            return Verdict::fail("faults:exit-contract", format!("argv {:?}: {}", case.argv, v));
        }
        if let Some(v) = help_hint_violation(&case.spec, &eo.rendered) {
            return Verdict::fail("faults:hint-names-missing-help", format!("argv {:?}: {v}\n{}", case.argv, eo.rendered));
        }
        let kind = e.kind();
        let allowed: &[ErrorKind] = match case.fault.as_str() {
            "unknown-long" | "unknown-short" | "unknown-cluster-member" => &[ErrorKind::UnknownArgument],
            "surplus-word" => &[ErrorKind::UnknownArgument, ErrorKind::InvalidSubcommand],
            "required-removed" => &[ErrorKind::MissingRequiredArgument],
            "conflict-added" | "exclusive-added" | "set-repeated" => &[ErrorKind::ArgumentConflict],
            "value-missing" => &[ErrorKind::InvalidValue, ErrorKind::TooFewValues, ErrorKind::WrongNumberOfValues],
            "count-wrong" => &[ErrorKind::WrongNumberOfValues, ErrorKind::TooFewValues],
            "no-equals" => &[ErrorKind::NoEquals],
            "bad-possible-value" => &[ErrorKind::InvalidValue],
            "bad-integer" => &[ErrorKind::ValueValidation],
            "flag-with-value" => &[ErrorKind::TooManyValues],
            "missing-subcommand" => &[ErrorKind::MissingSubcommand],
            "help-request" => &[ErrorKind::DisplayHelp],
            "version-request" => &[ErrorKind::DisplayVersion],
            _ => &[],
        };
        if !allowed.contains(&kind) {
            return Verdict::fail(
                format!("faults:{}:misclassified:{:?}", case.fault, kind),
                format!("argv {:?}: the only broken rule is {:?} ({:?}) but the error is {:?}:\n{}", case.argv, case.fault, case.item, kind, eo.rendered),
            );
        }
        // ---- the context names the injected item
        let invalid_arg = ctx_strings(&e, ContextKind::InvalidArg);
        let prior = ctx_strings(&e, ContextKind::PriorArg);
        let invalid_sub = ctx_strings(&e, ContextKind::InvalidSubcommand);
        let names = |hay: &[String], needle: &str| hay.iter().any(|h| h.contains(needle));
        let fail_ctx = |what: &str| {
            Verdict::fail(
                format!("faults:{}:context", case.fault),
                format!("argv {:?}: {:?} error does not name {} {:?}; context {:?}\n{}", case.argv, kind, what, case.item, eo.context, eo.rendered),
            )
        };
        match case.fault.as_str() {
            "unknown-long" | "unknown-short" | "unknown-cluster-member" => {
                if !names(&invalid_arg, &case.item[0]) {
                    return fail_ctx("the unknown token");
                }
            }
            "surplus-word" => {
                if !names(&invalid_arg, &case.item[0]) && !names(&invalid_sub, &case.item[0]) {
                    return fail_ctx("the surplus word");
                }
            }
            "required-removed" => {
                if !names(&invalid_arg, &case.item[0]) {
                    return fail_ctx("the missing argument");
                }
            }
            "conflict-added" => {
                let all: Vec<String> = invalid_arg.iter().chain(prior.iter()).cloned().collect();
                if !(names(&all, &case.item[0]) || names(&all, &case.item[1])) || !(names(&invalid_arg, &case.item[0]) || names(&invalid_arg, &case.item[1])) {
                    return fail_ctx("the conflicting pair");
                }
            }
            "exclusive-added" => {
                if !names(&invalid_arg, &case.item[0]) {
                    return fail_ctx("the exclusive argument");
                }
            }
            "set-repeated" | "value-missing" | "no-equals" | "flag-with-value" | "bad-integer" => {
                if !names(&invalid_arg, &case.item[0]) {
                    return fail_ctx("the argument");
                }
            }
            "count-wrong" => {
                if !names(&invalid_arg, &case.item[0]) {
                    return fail_ctx("the argument");
                }
                let actual = ctx_strings(&e, ContextKind::ActualNumValues);
                if actual != vec!["1".to_owned()] {
                    return fail_ctx("the actual number of values (1)");
                }
                let (tag, n) = case.item[1].split_once(':').unwrap_or(("", ""));
                let exp_ctx = if tag == "fixed" { ctx_strings(&e, ContextKind::ExpectedNumValues) } else { ctx_strings(&e, ContextKind::MinValues) };
                if exp_ctx != vec![n.to_owned()] {
                    return fail_ctx("the expected number of values");
                }
                if tag == "fixed" && kind != ErrorKind::WrongNumberOfValues || tag == "min" && kind != ErrorKind::TooFewValues {
                    return Verdict::fail(
                        format!("faults:{}:misclassified:{:?}", case.fault, kind),
                        format!("argv {:?}: {} but the error is {:?}", case.argv, case.item[1], kind),
                    );
                }
            }
            "bad-possible-value" => {
                if !names(&invalid_arg, &case.item[0]) {
                    return fail_ctx("the argument");
                }
                if !names(&ctx_strings(&e, ContextKind::InvalidValue), &case.item[1]) {
                    return fail_ctx("the rejected value");
                }
                for v in ctx_strings(&e, ContextKind::ValidValue).iter().chain(ctx_strings(&e, ContextKind::SuggestedValue).iter()) {
                    if !["fast", "slow", "auto"].contains(&v.as_str()) {
                        return Verdict::fail(
                            "faults:suggestion-names-nothing",
                            format!("argv {:?}: valid/suggested value {:?} is not a declared possible value", case.argv, v),
                        );
                    }
                }
            }
            "missing-subcommand" => {}
            _ => {}
        }
        // ---- suggestions only name things that exist at the level where the error arose
        let sug_args = ctx_strings(&e, ContextKind::SuggestedArg);
        let sug_subs = ctx_strings(&e, ContextKind::SuggestedSubcommand);
        if !sug_args.is_empty() || !sug_subs.is_empty() {
            // the error may arise at any level on the path; collect the names of all of them (the
            // generated help/version flags and help subcommand exist everywhere)
            let mut longs: Vec<String> = vec!["--help".into(), "--version".into()];
            let mut subs: Vec<String> = vec!["help".into()];
            let mut c = &case.spec;
            let full: Vec<String> = case.inv.levels.iter().filter_map(|l| l.sub.clone()).collect();
            let mut levels = vec![c];
            for p in &full {
                if let Some(s) = c.subs.iter().find(|s| s.name == *p) {
                    c = s;
                    levels.push(s);
                }
            }
            for l in &levels {
                for a in &l.args {
                    if let Some(x) = &a.long {
                        longs.push(format!("--{x}"));
                    }
                    longs.extend(a.aliases.iter().map(|x| format!("--{}", x.0)));
                }
                for s in &l.subs {
                    subs.extend(s.all_names());
                    if let Some(lf) = &s.long_flag {
                        longs.push(format!("--{lf}"));
                    }
                    // `--flag` of a subcommand may be suggested as "sub --flag"
                    for a in &s.args {
                        if let Some(x) = &a.long {
                            longs.push(format!("--{x}"));
                        }
                        longs.extend(a.aliases.iter().map(|x| format!("--{}", x.0)));
                    }
                }
            }
            for s in &sug_args {
                if !longs.iter().any(|l| l == s) {
                    return Verdict::fail(
                        "faults:suggestion-names-nothing",
                        format!("argv {:?}: suggested argument {:?} is not defined on the path; known {:?}\n{}", case.argv, s, longs, eo.rendered),
                    );
                }
            }
            for s in &sug_subs {
                if !subs.iter().any(|l| l == s) {
                    return Verdict::fail(
                        "faults:suggestion-names-nothing",
                        format!("argv {:?}: suggested subcommand {:?} is not defined on the path; known {:?}\n{}", case.argv, s, subs, eo.rendered),
                    );
                }
            }
            ctx.label("with-suggestion");
        }
        ctx.label_owned(format!("fault:{}", case.fault));
        let last_tok = case.argv.last().map(|s| s.as_str()).unwrap_or("");
        let fault_is_last = case.item.first().map(|i| last_tok.contains(i.as_str())).unwrap_or(false);
        if !fault_is_last || !case.level_path.is_empty() || case.fault == "unknown-cluster-member" {
            ctx.nontrivial();
        }
        Verdict::Pass
    }
}

/// "suggestions only ever name things that exist": the closing `For more information, try '<X>'.` line of an error
/// must name a help mechanism of the command the error belongs to (identified by its usage line). The help settings
/// are global: what the root says holds on every level.
fn help_hint_violation(spec: &CmdSpec, rendered: &str) -> Option<String> {
    let hint = rendered.lines().find_map(|l| l.trim().strip_prefix("For more information, try '").and_then(|r| r.strip_suffix("'.")))?;
    // the level the error was raised at
    let mut level = spec;
    if let Some(u) = rendered.lines().find_map(|l| l.trim().strip_prefix("Usage: ")) {
        for w in u.split_whitespace().skip(1) {
            match level.subs.iter().find(|s| s.name == w) {
                Some(s) => level = s,
                None => break,
            }
        }
    }
    let user_help_flag = level.args.iter().any(|a| a.long.as_deref() == Some("help") || a.short == Some('h'));
    match hint {
        "--help" | "-h" => {
            if spec.settings.disable_help_flag && !user_help_flag {
                return Some(format!("the hint names {hint:?} although the help flag is disabled"));
            }
        }
        "help" => {
            let user_help_sub = level.subs.iter().any(|s| s.name == "help");
            if (spec.settings.disable_help_subcommand && !user_help_sub) || level.subs.is_empty() {
                return Some(format!(
                    "the hint names the help subcommand although {}",
                    if level.subs.is_empty() { "this command has no subcommands" } else { "the help subcommand is disabled" }
                ));
            }
        }
        other => return Some(format!("the hint names {other:?}, which is no help mechanism of the command")),
    }
    None
}

/// Injected occurrences go before the escape marker, and never between the marker and a positional occurrence that
/// continues after it (an occurrence is only continued by `--` while it is still open).
fn insert_limit(occs: &[Occ]) -> usize {
    let Some(e) = occs.iter().position(|o| matches!(o, Occ::Escape)) else { return occs.len() };
    if e >= 1 {
        if let (Some(Occ::Pos { arg: a, .. }), Some(Occ::Pos { arg: b, .. })) = (occs.get(e - 1), occs.get(e + 1)) {
            if a == b {
                return e - 1;
            }
        }
    }
    e
}

pub fn check() -> Check {
    Check {
        id: "C10",
        parts: vec![Box::new(Gen(Faults)), Box::new(Gen(NoFault)), Box::new(Gen(crate::hyph::HyphenLines { name: "hyphen-positional-lines" }))],
        assumptions: vec![
            "fault-free lines satisfy every requirement literally (they never rely on an exemption)".into(),
            "the expected kinds per fault were calibrated against the ErrorKind documentation and probes of the unchanged tree".into(),
            "suggestions are compared with everything defined on the subcommand path of the line (the level that raised the error is not observable)".into(),
        ],
    }
}

/// inputs that break no rule are not rejected (same generator and oracle as C02, smaller budget)
pub struct NoFault;

impl Property for NoFault {
    type Case = crate::c02::AttrCase;
    fn name(&self) -> &'static str {
        "fault-free-lines"
    }
    fn rule(&self) -> String {
        "fault-free intended invocations of conventional commands, spelled freely (generator and oracle of C02): the parse must succeed. \
         Non-trivial: as in C02."
            .into()
    }
    fn budget(&self, tier: Tier) -> Budget {
        Budget {
            cases: tier.pick(400_000, 5_000_000),
            tape_len: 2000,
        }
    }
    fn decode(&self, t: &mut Tape<'_>) -> Self::Case {
        let co = ConvOpts {
            typed_parsers: true,
            ..ConvOpts::default()
        };
        crate::c02::decode_case(t, &co, &InvOpts::default())
    }
    fn run(&self, case: &Self::Case, ctx: &mut Ctx) -> Verdict {
        crate::c02::run_attr(case, ctx)
    }
}
