//! C20 — Text wrapping keeps every word, in order, within the requested width.

use clap_builder::verif_hooks as hooks;
use serde::{Deserialize, Serialize};
use unicode_width::UnicodeWidthChar;
use vcore::*;

#[derive(Serialize, Deserialize, Hash, Clone, Debug)]
pub struct WrapCase {
    pub text: String,
    pub width: usize,
    /// true: through StyledStr::wrap, false: plain `wrap`
    pub styled: bool,
}

#[derive(Clone, PartialEq, Eq, Debug)]
enum Tok {
    Space,
    Newline,
    Ch(char),
    Esc(String),
}

/// Split into tokens. In styled mode SGR sequences (`ESC [ params m`) are atomic
/// tokens, in plain mode they are ordinary characters of a word.
fn tokens(s: &str, styled: bool) -> Vec<Tok> {
    let cs: Vec<char> = s.chars().collect();
    let mut out = Vec::new();
    let mut i = 0;
    while i < cs.len() {
        let c = cs[i];
        if styled && c == '\u{1b}' {
            if let Some(end) = escape_end(&cs, i) {
                out.push(Tok::Esc(cs[i..end].iter().collect()));
                i = end;
                continue;
            }
        }
        out.push(match c {
            ' ' => Tok::Space,
            '\n' => Tok::Newline,
            c => Tok::Ch(c),
        });
        i += 1;
    }
    out
}

/// End (exclusive) of the ANSI escape sequence starting at `i` (ECMA-48): CSI `ESC [ params intermediates final`,
/// or OSC `ESC ] payload ST` with ST = `ESC \\`. None if it is not a complete sequence of these kinds.
fn escape_end(cs: &[char], i: usize) -> Option<usize> {
    if cs.get(i) != Some(&'\u{1b}') {
        return None;
    }
    match cs.get(i + 1) {
        Some('[') => {
            let mut j = i + 2;
            while j < cs.len() && ('\u{30}'..='\u{3f}').contains(&cs[j]) {
                j += 1;
            }
            while j < cs.len() && ('\u{20}'..='\u{2f}').contains(&cs[j]) {
                j += 1;
            }
            if j < cs.len() && ('\u{40}'..='\u{7e}').contains(&cs[j]) {
                Some(j + 1)
            } else {
                None
            }
        }
        Some(']') => {
            let mut j = i + 2;
            while j + 1 < cs.len() {
                if cs[j] == '\u{1b}' && cs[j + 1] == '\\' {
                    return Some(j + 2);
                }
                if cs[j] == '\n' || cs[j] == ' ' {
                    return None;
                }
                j += 1;
            }
            None
        }
        _ => None,
    }
}

/// Reference display width of styled text: every complete escape sequence counts zero.
pub fn ref_width_styled(s: &str) -> usize {
    let cs: Vec<char> = s.chars().collect();
    let mut w = 0;
    let mut i = 0;
    while i < cs.len() {
        if let Some(end) = escape_end(&cs, i) {
            i = end;
            continue;
        }
        w += cs[i].width().unwrap_or(0);
        i += 1;
    }
    w
}

/// Reference display width: unicode-width per char, SGR sequences count zero.
pub fn ref_width(s: &str) -> usize {
    let cs: Vec<char> = s.chars().collect();
    let mut w = 0;
    let mut i = 0;
    while i < cs.len() {
        if cs[i] == '\u{1b}' {
            // ESC [ params m
            let mut j = i + 1;
            while j < cs.len() && cs[j] != 'm' {
                j += 1;
            }
            i = j + 1;
            continue;
        }
        w += cs[i].width().unwrap_or(0);
        i += 1;
    }
    w
}

struct WalkStats {
    breaks: usize,
    indent_carried: bool,
    special_adjacent: bool,
}

/// Two-pointer proof that `out` is `inp` with some inter-word space runs
/// replaced by newline + indent and nothing else changed.
fn walk(inp: &[Tok], out: &[Tok], styled: bool) -> Result<WalkStats, String> {
    let mut st = WalkStats {
        breaks: 0,
        indent_carried: false,
        special_adjacent: false,
    };
    let (mut i, mut o) = (0usize, 0usize);
    // leading-space run of the current input line
    let lead_at = |start: usize| {
        let mut n = 0;
        while start + n < inp.len() && inp[start + n] == Tok::Space {
            n += 1;
        }
        n
    };
    let mut lead = lead_at(0);
    let rest_is_blank = |i: usize| inp[i..].iter().all(|t| matches!(t, Tok::Space | Tok::Newline));
    while i < inp.len() {
        if o >= out.len() {
            // styled output is right-trimmed as a whole
            if styled && rest_is_blank(i) {
                return Ok(st);
            }
            return Err(format!("output ends early at input token {i}"));
        }
        match &inp[i] {
            Tok::Space => {
                let mut r = 0;
                while i + r < inp.len() && inp[i + r] == Tok::Space {
                    r += 1;
                }
                let next = inp.get(i + r);
                // A run followed by the line's own '\n' may also be replaced: the
                // library treats the bare line terminator as a (zero-width) word, so
                // an over-wide blank line gains a break; non-space characters, the
                // original line breaks and the width bound are unaffected.
                let inter_word = next.is_some();
                if out[o] == Tok::Newline && inter_word {
                    // a break: newline, then the indent
                    st.breaks += 1;
                    o += 1;
                    let mut k = 0;
                    while o + k < out.len() && out[o + k] == Tok::Space {
                        k += 1;
                    }
                    if !styled && k != lead {
                        return Err(format!(
                            "break at input token {i}: re-emitted indent is {k} spaces, the line's leading indent is {lead}"
                        ));
                    }
                    if k > 0 {
                        st.indent_carried = true;
                    }
                    o += k;
                    if let Some(Tok::Ch(c)) = next {
                        if c.width().unwrap_or(0) != 1 {
                            st.special_adjacent = true;
                        }
                    }
                    if i > 0 {
                        if let Tok::Ch(c) = &inp[i - 1] {
                            if c.width().unwrap_or(0) != 1 {
                                st.special_adjacent = true;
                            }
                        }
                    }
                    i += r;
                } else {
                    // kept verbatim
                    let mut k = 0;
                    while o + k < out.len() && out[o + k] == Tok::Space {
                        k += 1;
                    }
                    if k != r {
                        if styled && o + k >= out.len() && rest_is_blank(i) {
                            return Ok(st);
                        }
                        return Err(format!(
                            "space run of {r} at input token {i} became {k} spaces (followed by {:?}) in the output",
                            out.get(o + k)
                        ));
                    }
                    i += r;
                    o += r;
                }
            }
            Tok::Newline => {
                if out[o] != Tok::Newline {
                    return Err(format!("original line break at input token {i} missing, output has {:?}", out[o]));
                }
                i += 1;
                o += 1;
                lead = lead_at(i);
            }
            t => {
                if &out[o] != t {
                    return Err(format!("input token {i} {:?} but output token {o} {:?}", t, out[o]));
                }
                i += 1;
                o += 1;
            }
        }
    }
    if o != out.len() {
        return Err(format!("output has {} extra tokens: {:?}", out.len() - o, &out[o..out.len().min(o + 5)]));
    }
    Ok(st)
}

fn check_wrap(case: &WrapCase, output: &str, ctx: &mut Ctx, via: &'static str) -> Verdict {
    let inp = tokens(&case.text, case.styled);
    let out = tokens(output, case.styled);
    let st = match walk(&inp, &out, case.styled) {
        Ok(st) => st,
        Err(e) => {
            return Verdict::fail(
                format!("wrap:{}:content", if case.styled { "styled" } else { "plain" }),
                format!("[{via}] text {:?} width {} -> {:?}: {e}", case.text, case.width, output),
            )
        }
    };
    // text without any escape sequence is plain text whichever wrapper it goes through
    let plain_content = !case.text.contains('\u{1b}');
    if !case.styled || plain_content {
        for line in output.split('\n') {
            let rt = line.trim_end_matches(' ');
            if ref_width(rt) > case.width {
                let body = rt.trim_start_matches(' ');
                if body.contains(' ') {
                    return Verdict::fail(
                        if case.styled { "wrap:styled-plain-content:width" } else { "wrap:plain:width" },
                        format!(
                            "[{via}] text {:?} width {}: output line {:?} has width {} and holds more than one word",
                            case.text,
                            case.width,
                            line,
                            ref_width(rt)
                        ),
                    );
                }
            }
        }
    }
    if st.breaks > 0 {
        ctx.label(if case.styled { "styled-with-break" } else { "plain-with-break" });
        ctx.nontrivial();
    }
    if st.indent_carried {
        ctx.label("indent-carried-over");
        ctx.nontrivial();
    }
    if st.special_adjacent {
        ctx.label("wide-or-zero-width-char-next-to-break");
        ctx.nontrivial();
    }
    Verdict::Pass
}

fn run_case(case: &WrapCase, ctx: &mut Ctx) -> Verdict {
    let output = if case.styled {
        hooks::styled_wrap(&case.text, case.width)
    } else {
        hooks::wrap(&case.text, case.width)
    };
    if let Verdict::Fail(f) = check_wrap(case, &output, ctx, "hook") {
        return Verdict::Fail(f);
    }
    // display width of every word: implementation vs reference
    let only_sgr = !case.text.contains("\u{1b}]") && !NON_SGR.iter().any(|q| case.text.contains(q));
    for word in case.text.split(|c| c == ' ' || c == '\n').filter(|_| only_sgr) {
        let real = hooks::display_width(word);
        let want = ref_width(word);
        ensure!(
            real == want,
            "wrap:display_width",
            "display_width({:?}) = {} but the reference (unicode-width per char, SGR = 0) gives {}",
            word,
            real,
            want
        );
    }
    if case.styled {
        // StyledStr::display_width skips escape sequences
        let line = case.text.replace('\n', " ");
        let real = hooks::styled_display_width(&line);
        let want = ref_width_styled(&line);
        ensure!(
            real == want,
            "wrap:styled_display_width",
            "StyledStr::display_width({:?}) = {} but the reference gives {}",
            line,
            real,
            want
        );
    }
    Verdict::Pass
}

/// escape sequences other than SGR (styled texts only): CSI erase / cursor / private mode, OSC 8 hyperlink open and close
const NON_SGR: &[&str] = &["\u{1b}[2K", "\u{1b}[1G", "\u{1b}[?25l", "\u{1b}]8;;http://x.y/z\u{1b}\\", "\u{1b}]8;;\u{1b}\\"];

const LETTERS: &[&str] = &["a", " ", "\n", "\u{5b57}", "\u{301}", "\u{1b}[1m"];

pub struct Wrap;

impl Property for Wrap {
    type Case = WrapCase;
    fn name(&self) -> &'static str {
        "wrap"
    }
    fn rule(&self) -> String {
        "texts over {word chars, ' ', '\\n', wide chars (CJK, emoji), zero-width chars (U+0301, U+200B, U+200D, U+FE0F), SGR \
         sequences ESC[..m; in styled texts also other CSI sequences and OSC 8 hyperlinks}: exhaustive for length <= 7 (thorough 8) over the 6 letters {a, space, newline, U+5B57, U+0301, ESC[1m} x \
         widths 0..=6 x {plain wrap, StyledStr::wrap}; random texts up to 400 letters (words of 1-12 chars, space runs 1-4, indented \
         lines) x widths 0..200 and usize::MAX. Oracle: two-pointer walk proving the output is the input with inter-word space runs \
         replaced by newline + the line's leading indent and nothing else changed; plain: every right-trimmed output line has \
         reference width <= w unless it holds one word; styled: escape sequences are atomic tokens that must be preserved in place, \
         output may be right-trimmed; display_width of every word == unicode-width reference with SGR = 0. Non-trivial: at least one \
         break inserted, or a wide/zero-width char adjacent to a break, or an indent carried over; distinct = distinct (text, width, mode)."
            .into()
    }
    fn budget(&self, tier: Tier) -> Budget {
        Budget {
            cases: tier.pick(2_000_000, 40_000_000),
            tape_len: 2000,
        }
    }
    fn decode(&self, t: &mut Tape<'_>) -> WrapCase {
        let styled = t.chance(1, 3);
        let width = match t.weighted(&[6, 4, 2, 1]) {
            0 => t.range(0, 20),
            1 => t.range(0, 80),
            2 => t.range(0, 200),
            _ => usize::MAX,
        };
        let nwords = if t.chance(1, 5) { t.range(0, 80) } else { t.range(0, 12) };
        let mut text = String::new();
        let wide: &[&str] = &["\u{5b57}", "\u{1f600}", "\u{ff21}", "\u{d55c}"];
        let zero: &[&str] = &["\u{301}", "\u{200b}", "\u{200d}", "\u{fe0f}"];
        let sgr: &[&str] = &["\u{1b}[1m", "\u{1b}[0m", "\u{1b}[31;1m", "\u{1b}[38;5;200m", "\u{1b}[m"];
        if t.chance(1, 6) {
            // leading blank lines (empty or spaces only)
            for _ in 0..t.range(1, 3) {
                if t.bool() {
                    text.push_str("  ");
                }
                text.push('\n');
            }
        }
        if t.chance(1, 4) {
            for _ in 0..t.range(1, 6) {
                text.push(' ');
            }
        }
        for _ in 0..nwords {
            let wl = if t.chance(1, 6) { t.range(1, 30) } else { t.range(1, 6) };
            for _ in 0..wl {
                match t.weighted(&[10, 2, 2, 2, 1]) {
                    0 => text.push(*t.pick(&['a', 'b', 'Z', '-', '.', '\u{e9}', '0'])),
                    1 => text.push_str(*t.pick(wide)),
                    2 => text.push_str(*t.pick(zero)),
                    3 => {
                        if styled && t.chance(1, 3) {
                            text.push_str(*t.pick(NON_SGR))
                        } else {
                            text.push_str(*t.pick(sgr))
                        }
                    }
                    _ => text.push('m'),
                }
            }
            match t.weighted(&[10, 3, 2, 1]) {
                0 => text.push(' '),
                1 => {
                    for _ in 0..t.range(2, 4) {
                        text.push(' ');
                    }
                }
                2 => {
                    text.push('\n');
                    if t.chance(1, 2) {
                        for _ in 0..t.range(1, 8) {
                            text.push(' ');
                        }
                    }
                }
                _ => {
                    text.push(' ');
                    text.push('\n');
                }
            }
        }
        WrapCase { text, width, styled }
    }
    fn run(&self, case: &WrapCase, ctx: &mut Ctx) -> Verdict {
        run_case(case, ctx)
    }
    fn enumerate(&self, tier: Tier, shard: usize, nshards: usize, visit: &mut dyn FnMut(WrapCase) -> bool) -> bool {
        let maxlen = tier.pick(7, 8);
        let idx: Vec<u8> = (0..LETTERS.len() as u8).collect();
        crate::util::enumerate_strings(&idx, maxlen, shard, nshards, &mut |letters| {
            let text: String = letters.iter().map(|l| LETTERS[*l as usize]).collect();
            for width in 0..=6 {
                for styled in [false, true] {
                    if !visit(WrapCase {
                        text: text.clone(),
                        width,
                        styled,
                    }) {
                        return false;
                    }
                }
            }
            true
        });
        true
    }
}

// ------------------------------------------------------------ public path

/// The same oracle on what a user sees: `{author}` (plain wrap) and `{about}`
/// (styled wrap) in a help template with sentinels, at an explicit term_width.
pub struct PublicPath;

impl Property for PublicPath {
    type Case = WrapCase;
    fn name(&self) -> &'static str {
        "wrap-public-path"
    }
    fn rule(&self) -> String {
        "same generator as [wrap] (widths 1..200; 0 means 'unlimited' on this path), text placed in Command::author / Command::about \
         and rendered through help_template(\"|{author}|\") / (\"|{about}|\") with term_width(w); the text between the sentinels \
         must satisfy the same walk/width oracle (no hook involved). Non-trivial: as for [wrap]."
            .into()
    }
    fn budget(&self, tier: Tier) -> Budget {
        Budget {
            cases: tier.pick(200_000, 2_000_000),
            tape_len: 2000,
        }
    }
    fn decode(&self, t: &mut Tape<'_>) -> WrapCase {
        let mut c = Wrap.decode(t);
        if c.width == 0 {
            c.width = 1;
        }
        if c.width == usize::MAX {
            c.width = 100_000;
        }
        c
    }
    fn run(&self, case: &WrapCase, ctx: &mut Ctx) -> Verdict {
        // write_help trims blank start lines and the end of the whole help, and
        // `{n}` is a template variable: keep the text free of those interactions
        if case.text.contains("{") {
            return Verdict::Discard("brace-in-text");
        }
        let tmpl = if case.styled { "|{about}|" } else { "|{author}|" };
        let mut cmd = clap::Command::new("p")
            .help_template(tmpl)
            .term_width(case.width)
            .max_term_width(0)
            .color(clap::ColorChoice::Always);
        cmd = if case.styled {
            cmd.about(case.text.clone())
        } else {
            cmd.author(case.text.clone())
        };
        let help = cmd.render_help();
        let rendered = help.ansi().to_string();
        let Some(inner) = rendered.strip_prefix('|').and_then(|s| s.strip_suffix("|\n")) else {
            return Verdict::fail(
                "wrap:public:sentinels",
                format!("text {:?} width {}: rendered help {:?} lacks the sentinels", case.text, case.width, rendered),
            );
        };
        if let Verdict::Fail(f) = check_wrap(case, inner, ctx, "render_help") {
            return Verdict::Fail(f);
        }
        if case.styled && case.text.starts_with([' ', '\n']) {
            // the text first in the help: the layout drops one unused leading line (`write_help`: the first line when it is
            // blank), nothing more
            let help = clap::Command::new("p")
                .help_template("{about}|")
                .term_width(case.width)
                .max_term_width(0)
                .color(clap::ColorChoice::Always)
                .about(case.text.clone())
                .render_help();
            let rendered = help.ansi().to_string();
            let Some(first) = rendered.strip_suffix("|\n") else {
                return Verdict::fail(
                    "wrap:public:sentinels",
                    format!("text {:?} width {}: rendered help {:?} lacks the closing sentinel", case.text, case.width, rendered),
                );
            };
            // (judged against the wrapped text between the sentinels, whose content the walk above has just checked: at small
            // widths a blank line of spaces gains a break of its own, and it is the wrapped text the layout trims)
            let want = match inner.find('\n') {
                Some(pos) if inner[..pos].trim().is_empty() => &inner[pos + 1..],
                _ => inner,
            };
            ensure!(
                first == want,
                "wrap:public:text-first-in-help",
                "about {:?} at width {}: between sentinels it renders as {:?}; as the first thing in the help it must lose at most its blank first line ({:?}) but renders as {:?}",
                case.text,
                case.width,
                inner,
                want,
                first
            );
            ctx.label("text-first-in-help");
        }
        Verdict::Pass
    }
}

// ------------------------------------------------------------ help layout

/// Every place where the help layout wraps author text: the width bound seen by a user.
#[derive(Serialize, Deserialize, Hash, Clone, Debug)]
pub struct LayoutCase {
    pub width: usize,
    /// the width is requested through `max_term_width` alone (no `term_width`)
    pub via_max: bool,
    pub about: Option<String>,
    pub long_about: Option<String>,
    pub before: Option<String>,
    pub after: Option<String>,
    /// (name, about)
    pub subs: Vec<(String, Option<String>)>,
    /// (long, takes a value, help, long_help)
    pub opts: Vec<(String, bool, Option<String>, Option<String>)>,
    /// (id, help)
    pub positionals: Vec<(String, Option<String>)>,
    pub next_line_help: bool,
}

pub struct HelpLayout;

const L_WORDS: &[&str] = &["a", "of", "the", "quick", "brown", "fox", "jumps", "over", "lazy", "dog", "pack", "my", "box", "with", "five", "dozen", "liquor", "jugs", "\u{e9}t\u{e9}", "\u{5b57}\u{5b57}"];
const L_NAMES: &[&str] = &["ls", "add", "remove", "checkout", "synchronise", "reconfigure-all", "x", "status"];
const L_LONGS: &[&str] = &["all", "verbose", "output", "configuration", "no-default-features", "q", "jobs"];

fn sentence(t: &mut Tape<'_>, max_words: usize) -> String {
    let n = t.range(1, max_words);
    let mut s = String::new();
    for i in 0..n {
        if i > 0 {
            s.push(if t.chance(1, 12) { '\n' } else { ' ' });
        }
        s.push_str(*t.pick(L_WORDS));
    }
    s
}

impl Property for HelpLayout {
    type Case = LayoutCase;
    fn name(&self) -> &'static str {
        "help-layout-width"
    }
    fn rule(&self) -> String {
        "commands with 0-4 subcommands (names of 1-15 columns), 0-4 options (long names of 1-19 columns, with or without a value), 0-2 \
         positionals, about / long_about / before_help / after_help, per-item help and long_help of 1-30 short words (<= 6 columns, some \
         wide characters, some explicit line breaks) x next_line_help x a width of 40-120 requested through term_width or through \
         max_term_width alone, rendered as short and as long help. Oracle: outside the usage block no line of the rendered help whose text part (after the item column) holds two or more words \
         is wider than the requested width (every word fits the text column, so such a line can only come from wrapping to the wrong \
         width or from the wrong indent). Non-trivial: some text had to be wrapped (the help has more lines than the texts have line breaks)."
            .into()
    }
    fn budget(&self, tier: Tier) -> Budget {
        Budget { cases: tier.pick(100_000, 2_000_000), tape_len: 400 }
    }
    fn decode(&self, t: &mut Tape<'_>) -> LayoutCase {
        let width = t.range(40, 120);
        let via_max = t.chance(1, 3);
        let opt = |t: &mut Tape<'_>, n: usize| if t.chance(2, 3) { Some(sentence(t, n)) } else { None };
        let about = opt(t, 20);
        let long_about = if t.chance(1, 3) { Some(sentence(t, 30)) } else { None };
        let before = if t.chance(1, 4) { Some(sentence(t, 20)) } else { None };
        let after = if t.chance(1, 4) { Some(sentence(t, 20)) } else { None };
        let mut names = L_NAMES.to_vec();
        let mut subs = Vec::new();
        for _ in 0..t.range(0, 4) {
            let i = t.choose(names.len());
            subs.push((names.remove(i).to_owned(), opt(t, 30)));
        }
        let mut longs = L_LONGS.to_vec();
        let mut opts = Vec::new();
        for _ in 0..t.range(0, 4) {
            let i = t.choose(longs.len());
            let long_help = if t.chance(1, 3) { Some(sentence(t, 30)) } else { None };
            opts.push((longs.remove(i).to_owned(), t.bool(), opt(t, 30), long_help));
        }
        let mut positionals = Vec::new();
        for i in 0..t.range(0, 2) {
            positionals.push((format!("pos{i}"), opt(t, 30)));
        }
        LayoutCase { width, via_max, about, long_about, before, after, subs, opts, positionals, next_line_help: t.chance(1, 5) }
    }
    fn run(&self, case: &LayoutCase, ctx: &mut Ctx) -> Verdict {
        use clap::{Arg, ArgAction, Command};
        let mut cmd = Command::new("prog").next_line_help(case.next_line_help);
        cmd = if case.via_max { cmd.max_term_width(case.width) } else { cmd.term_width(case.width) };
        if let Some(t) = &case.about {
            cmd = cmd.about(t.clone());
        }
        if let Some(t) = &case.long_about {
            cmd = cmd.long_about(t.clone());
        }
        if let Some(t) = &case.before {
            cmd = cmd.before_help(t.clone());
        }
        if let Some(t) = &case.after {
            cmd = cmd.after_help(t.clone());
        }
        for (n, about) in &case.subs {
            let mut sc = Command::new(n.clone());
            if let Some(t) = about {
                sc = sc.about(t.clone());
            }
            cmd = cmd.subcommand(sc);
        }
        for (l, takes, help, long_help) in &case.opts {
            let mut a = Arg::new(l.clone()).long(l.clone()).action(if *takes { ArgAction::Set } else { ArgAction::SetTrue });
            if let Some(t) = help {
                a = a.help(t.clone());
            }
            if let Some(t) = long_help {
                a = a.long_help(t.clone());
            }
            cmd = cmd.arg(a);
        }
        for (id, help) in &case.positionals {
            let mut a = Arg::new(id.clone());
            if let Some(t) = help {
                a = a.help(t.clone());
            }
            cmd = cmd.arg(a);
        }
        let breaks: usize = [&case.about, &case.long_about, &case.before, &case.after]
            .into_iter()
            .flatten()
            .chain(case.subs.iter().filter_map(|s| s.1.as_ref()))
            .chain(case.opts.iter().flat_map(|o| [o.2.as_ref(), o.3.as_ref()]).flatten())
            .chain(case.positionals.iter().filter_map(|p| p.1.as_ref()))
            .map(|t| t.matches('\n').count())
            .sum();
        let mut wrapped = false;
        for long in [false, true] {
            let mut c = cmd.clone();
            let help = match catch(move || if long { c.render_long_help() } else { c.render_help() }.to_string()) {
                Ok(h) => h,
                Err(p) => return Verdict::Fail(Failure::from_panic(&p)),
            };
            let mut in_usage = false;
            let mut lines = 0;
            for line in help.split('\n') {
                if line.starts_with("Usage:") {
                    in_usage = true;
                }
                if line.trim().is_empty() {
                    in_usage = false;
                }
                lines += 1;
                if in_usage {
                    continue;
                }
                let rt = line.trim_end_matches(' ');
                let w = ref_width(rt);
                // the item column (names chosen by the author) is not wrapped text: a line is judged by its text part, which
                // starts after the first run of two spaces behind the item, and is excused when that part is a single word
                let body = rt.trim_start_matches(' ');
                let is_item = body.starts_with('-')
                    || body.starts_with('<')
                    || body.starts_with('[')
                    || body.starts_with("help")
                    || case.subs.iter().any(|s| body == s.0 || body.starts_with(&format!("{}  ", s.0)));
                let text = if is_item { body.splitn(2, "  ").nth(1).unwrap_or("") } else { body };
                ensure!(
                    w <= case.width || !text.trim().contains(' '),
                    format!("wrap:help-layout:line-wider-than-the-width:{}", if long { "long" } else { "short" }),
                    "width {} requested through {}: line {:?} of the {} help is {} columns wide\n{}",
                    case.width,
                    if case.via_max { "max_term_width" } else { "term_width" },
                    line,
                    if long { "long" } else { "short" },
                    w,
                    help
                );
            }
            // a generous estimate of the lines there would be without wrapping: items + headings + blank lines + explicit breaks
            if lines > 12 + 2 * (case.subs.len() + case.opts.len() + case.positionals.len()) + breaks + 8 {
                wrapped = true;
            }
        }
        if wrapped {
            ctx.label("help-text-wrapped");
            ctx.nontrivial();
        }
        Verdict::Pass
    }
}

pub fn check() -> Check {
    Check {
        id: "C20",
        parts: vec![Box::new(Gen(Wrap)), Box::new(Gen(PublicPath)), Box::new(Gen(HelpLayout))],
        assumptions: vec![
            "alphabet as in the statement: other Unicode white space, tabs and non-SGR control sequences are not generated".into(),
            "features wrap_help + unicode; display widths per unicode-width 0.2 (the same table the library uses)".into(),
            "styled text: the indent re-emitted after a break is only required to be a run of spaces (the library tracks the indent \
             per styled block, which the statement does not pin down); a width claim for styled text only where it holds no escape \
             sequence at all (plain content) and, in [help-layout-width], for whole lines of rendered help"
                .into(),
            "the hook functions are thin re-exports of textwrap::wrap, textwrap::core::display_width and StyledStr::wrap".into(),
        ],
    }
}
