//! throw-away probe: positional value_terminator semantics
use clap::{Arg, ArgAction, Command};
fn show(cmd: &Command, argv: &[&str]) {
    let r = cmd.clone().try_get_matches_from(argv.iter().copied());
    match r {
        Ok(m) => {
            let mut out = String::new();
            for id in m.ids() {
                let id = id.as_str();
                let vals: Vec<Vec<String>> = m
                    .get_raw_occurrences(id)
                    .map(|o| o.map(|g| g.map(|v| v.to_string_lossy().into_owned()).collect()).collect())
                    .unwrap_or_default();
                let idx: Vec<usize> = m.indices_of(id).map(|i| i.collect()).unwrap_or_default();
                out.push_str(&format!(" {id}={vals:?}@{idx:?}"));
            }
            println!("{argv:?} -> Ok{out}");
        }
        Err(e) => println!("{argv:?} -> Err {:?} {}", e.kind(), e.to_string().lines().next().unwrap_or("")),
    }
}
fn main() {
    let a = Command::new("p")
        .arg(Arg::new("v").short('v').action(ArgAction::SetTrue))
        .arg(Arg::new("one").required(true))
        .arg(Arg::new("m").num_args(1..).value_terminator(";").required(true))
        .arg(Arg::new("t").required(true));
    for l in [
        vec!["p", "x", "a", "b", ";", "d"],
        vec!["p", "x", "a", "b", "-v", ";", "d"],
        vec!["p", "x", "a", "b", "c"],
        vec!["p", "x", "a", "b", ";"],
        vec!["p", "x", "a", "-v", "b", ";", "d"],
        vec!["p", "x", ";", "d"],
        vec!["p", "x", "a", ";", "d", "e"],
    ] {
        show(&a, &l);
    }
    let b = Command::new("p")
        .arg(Arg::new("v").short('v').action(ArgAction::SetTrue))
        .arg(Arg::new("m").num_args(1..).value_terminator(";"))
        .arg(Arg::new("l").num_args(1..).last(true));
    for l in [
        vec!["p", "a", "b", "--", "t1", "t2"],
        vec!["p", "a", "b", ";", "--", "t1"],
        vec!["p", "--", "t1", "t2"],
        vec!["p", "a", "--", ";", "t"],
        vec!["p", "a", "-v", "--", "t"],
        vec!["p", "a", ";", "t"],
    ] {
        show(&b, &l);
    }
}
