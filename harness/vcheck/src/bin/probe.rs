use clap::{Arg, ArgAction, Command};
use clap_complete::aot::{generate, Bash, Elvish, Fish, PowerShell, Zsh};
fn main() {
    let which = std::env::args().nth(1).unwrap_or_default();
    let mut cmd = Command::new("my-prog")
        .about("about text")
        .arg(Arg::new("verbose").short('v').long("verbose").visible_alias("verb").visible_short_alias('w').action(ArgAction::Count).help("help's text"))
        .arg(Arg::new("mode").long("mode").value_parser([clap::builder::PossibleValue::new("fast").help("go fast"), clap::builder::PossibleValue::new("slow"), clap::builder::PossibleValue::new("hid").hide(true)]).help("mode help"))
        .arg(Arg::new("file").value_name("FILE"))
        .subcommand(
            Command::new("sub-one").visible_alias("s1").about("sub one about").arg(Arg::new("deep").long("deep").action(ArgAction::SetTrue)).subcommand(
                Command::new("leaf").arg(Arg::new("leafy").long("leafy").short('l')).arg(Arg::new("pos").value_parser(["pa", "pb"])),
            ),
        )
        .subcommand(Command::new("hidden").hide(true));
    let mut out = Vec::new();
    match which.as_str() {
        "bash" => generate(Bash, &mut cmd, "my-prog", &mut out),
        "zsh" => generate(Zsh, &mut cmd, "my-prog", &mut out),
        "fish" => generate(Fish, &mut cmd, "my-prog", &mut out),
        "powershell" => generate(PowerShell, &mut cmd, "my-prog", &mut out),
        "elvish" => generate(Elvish, &mut cmd, "my-prog", &mut out),
        _ => generate(clap_complete_nushell::Nushell, &mut cmd, "my-prog", &mut out),
    }
    print!("{}", String::from_utf8_lossy(&out));
}
