//! throw-away probe: alias-only long flag subcommands under infer_subcommands
use clap::Command;
fn main() {
    for infer in [false, true] {
        let cmd = Command::new("p")
            .infer_subcommands(infer)
            .subcommand(Command::new("sub").long_flag("co").long_flag_alias("verbose").long_flag_alias("lf-one"))
            .subcommand(Command::new("subtle").long_flag_alias("verb").long_flag_alias("lf-two"));
        for argv in [vec!["p", "--verb"], vec!["p", "--lf-two"], vec!["p", "--lf-t"], vec!["p", "--verbose"], vec!["p", "--verbo"]] {
            let r = cmd.clone().try_get_matches_from(argv.clone());
            println!("infer={infer} {argv:?} -> {:?}", r.map(|m| m.subcommand_name().map(|s| s.to_owned())).map_err(|e| e.kind()));
        }
    }
}
