//! Scratch slot for throw-away probes against the real tree (see DESIGN.md: grounding by probes). Nothing registered
//! in MANIFEST.json uses this binary.
fn main() {
    println!("clap {}", clap::crate_version!());
}
