//! throw-away measurement: how many tape words do the generators consume?
use vcore::Tape;
use vmodel::argv::{gen_argv_broad, gen_argv_hybrid};
use vmodel::gen::{gen_broad, GenOpts};
fn main() {
    let mut x: u64 = 0x9E3779B97F4A7C15;
    let mut next = || {
        x ^= x << 13;
        x ^= x >> 7;
        x ^= x << 17;
        (x >> 16) as u32
    };
    let mut spec_used = Vec::new();
    let mut argv_used = Vec::new();
    for i in 0..20000 {
        let words: Vec<u32> = (0..4000).map(|_| next()).collect();
        let mut t = Tape::new(&words);
        let spec = gen_broad(&mut t, &GenOpts::default());
        let a = t.used();
        let _ = if i % 2 == 0 { gen_argv_broad(&mut t, &spec) } else { gen_argv_hybrid(&mut t, &spec) };
        spec_used.push(a);
        argv_used.push(t.used() - a);
    }
    spec_used.sort();
    argv_used.sort();
    let q = |v: &Vec<usize>, p: f64| v[((v.len() - 1) as f64 * p) as usize];
    println!("spec words: p10={} p50={} p90={} p99={} max={}", q(&spec_used, 0.1), q(&spec_used, 0.5), q(&spec_used, 0.9), q(&spec_used, 0.99), q(&spec_used, 1.0));
    println!("argv words: p10={} p50={} p90={} p99={} max={}", q(&argv_used, 0.1), q(&argv_used, 0.5), q(&argv_used, 0.9), q(&argv_used, 0.99), q(&argv_used, 1.0));
}
