//! C14 — OS-string helpers and the argument cursor behave like their simple models.

use crate::util::{enumerate_strings, os, BOUNDARY_ALPHABET};
use clap_lex::{OsStrExt, RawArgs, SeekFrom};
use serde::{Deserialize, Serialize};
use vcore::*;

// ---------------------------------------------------------------- part A

#[derive(Serialize, Deserialize, Hash, Clone, Debug)]
pub struct HelperCase {
    #[serde(with = "crate::util::bytes_hex")]
    pub hay: Vec<u8>,
    pub needle: String,
}

pub struct Helpers;

const NEEDLES: &[&str] = &["-", "--", "=", "a", "a=", "\u{e9}", "1.", " ", "e\u{e9}", "=="];

fn naive_find(h: &[u8], n: &[u8]) -> Option<usize> {
    if n.len() > h.len() {
        return None;
    }
    let mut i = 0;
    while i + n.len() <= h.len() {
        if &h[i..i + n.len()] == n {
            return Some(i);
        }
        i += 1;
    }
    None
}

fn naive_split(h: &[u8], n: &[u8]) -> Vec<Vec<u8>> {
    let mut out = Vec::new();
    let mut rest = h;
    loop {
        match naive_find(rest, n) {
            Some(i) => {
                out.push(rest[..i].to_vec());
                rest = &rest[i + n.len()..];
            }
            None => {
                out.push(rest.to_vec());
                return out;
            }
        }
    }
}

fn check_helpers(case: &HelperCase, ctx: &mut Ctx) -> Verdict {
    let h = &case.hay;
    let n = case.needle.as_bytes();
    let hay = os(h);
    let hay = hay.as_os_str();
    let needle = case.needle.as_str();
    let show = || format!("hay {:?} needle {:?}", show_bytes(h), needle);

    let f = naive_find(h, n);
    ensure!(hay.find(needle) == f, "osstr:find", "{}: real {:?} ref {:?}", show(), hay.find(needle), f);
    ensure!(hay.contains(needle) == f.is_some(), "osstr:contains", "{}", show());
    let sw = h.len() >= n.len() && &h[..n.len()] == n;
    ensure!(hay.starts_with(needle) == sw, "osstr:starts_with", "{}", show());
    let sp = hay.strip_prefix(needle).map(|o| o.as_encoded_bytes().to_vec());
    let rsp = if sw { Some(h[n.len()..].to_vec()) } else { None };
    ensure!(sp == rsp, "osstr:strip_prefix", "{}: real {:?} ref {:?}", show(), sp, rsp);
    let so = hay
        .split_once(needle)
        .map(|(a, b)| (a.as_encoded_bytes().to_vec(), b.as_encoded_bytes().to_vec()));
    let rso = f.map(|i| (h[..i].to_vec(), h[i + n.len()..].to_vec()));
    ensure!(so == rso, "osstr:split_once", "{}: real {:?} ref {:?}", show(), so, rso);
    let pieces: Vec<Vec<u8>> = hay.split(needle).map(|o| o.as_encoded_bytes().to_vec()).collect();
    let rpieces = naive_split(h, n);
    ensure!(pieces == rpieces, "osstr:split", "{}: real {:?} ref {:?}", show(), pieces, rpieces);
    ensure!(
        hay.try_str().is_ok() == std::str::from_utf8(h).is_ok(),
        "osstr:try_str",
        "{}",
        show()
    );

    match f {
        Some(0) => ctx.label("match-at-0"),
        Some(_) => {
            ctx.label("match-at-offset");
            ctx.nontrivial();
        }
        None => ctx.label("no-match"),
    }
    if rpieces.len() >= 3 {
        ctx.label("split>=3-pieces");
        ctx.nontrivial();
    }
    Verdict::Pass
}

impl Property for Helpers {
    type Case = HelperCase;
    fn name(&self) -> &'static str {
        "osstr-helpers"
    }
    fn rule(&self) -> String {
        format!(
            "haystacks: exhaustive up to length 5 (thorough 6) over the 12-byte boundary alphabet x needles {:?}; then random \
             haystacks up to 64 bytes x random non-empty UTF-8 needles of 1-3 chars (often cut from the haystack). Oracle: naive \
             byte-slice implementations of find/contains/starts_with/strip_prefix/split_once/split. Non-trivial: a match at a \
             non-zero offset or a split into >= 3 pieces; distinct = distinct (haystack, needle).",
            NEEDLES
        )
    }
    fn budget(&self, tier: Tier) -> Budget {
        Budget {
            cases: tier.pick(3_000_000, 20_000_000),
            tape_len: 400,
        }
    }
    fn decode(&self, t: &mut Tape<'_>) -> HelperCase {
        let pool: &[&str] = &["-", "=", "a", "1", ".", "e", " ", "\u{e9}", "\u{e4}", "\u{20ac}", "\u{1f600}", ",", "b"];
        let nlen = t.range(1, 3);
        let mut needle = String::new();
        for _ in 0..nlen {
            needle.push_str(*t.pick(pool));
        }
        let len = if t.chance(1, 4) { t.range(0, 64) } else { t.range(0, 10) };
        let mut hay = Vec::new();
        while hay.len() < len {
            match t.weighted(&[6, 3, 1, 1]) {
                0 => hay.push(*t.pick(BOUNDARY_ALPHABET)),
                1 => {
                    // plant the needle or a truncated needle
                    let nb = needle.as_bytes();
                    let cut = if t.chance(1, 3) { t.range(0, nb.len()) } else { nb.len() };
                    hay.extend(&nb[..cut]);
                }
                2 => hay.extend(t.pick(pool).as_bytes()),
                _ => hay.push(t.choose(256) as u8),
            }
        }
        HelperCase { hay, needle }
    }
    fn run(&self, case: &HelperCase, ctx: &mut Ctx) -> Verdict {
        if case.needle.is_empty() {
            return Verdict::Discard("empty-needle");
        }
        check_helpers(case, ctx)
    }
    fn enumerate(&self, tier: Tier, shard: usize, nshards: usize, visit: &mut dyn FnMut(HelperCase) -> bool) -> bool {
        let maxlen = tier.pick(5, 6);
        enumerate_strings(BOUNDARY_ALPHABET, maxlen, shard, nshards, &mut |bytes| {
            for n in NEEDLES {
                if !visit(HelperCase {
                    hay: bytes.to_vec(),
                    needle: (*n).to_owned(),
                }) {
                    return false;
                }
            }
            true
        });
        true
    }
}

// ---------------------------------------------------------------- part B

#[derive(Serialize, Deserialize, Hash, Clone, Debug)]
pub enum Whence {
    Start(u64),
    Current(i64),
    End(i64),
}

#[derive(Serialize, Deserialize, Hash, Clone, Debug)]
pub enum CurOp {
    Next(u8),
    NextOs(u8),
    Peek(u8),
    PeekOs(u8),
    Remaining(u8),
    Seek(u8, Whence),
    Insert(u8, Vec<String>),
    IsEnd(u8),
}

#[derive(Serialize, Deserialize, Hash, Clone, Debug)]
pub struct CursorCase {
    pub items: Vec<String>,
    pub ops: Vec<CurOp>,
}

pub struct Cursor;

fn decode_offset(t: &mut Tape<'_>, len: usize) -> i64 {
    match t.weighted(&[3, 3, 2, 2, 1, 1, 1, 2]) {
        0 => 0,
        1 => 1,
        2 => -1,
        3 => {
            if t.bool() {
                len as i64
            } else {
                -(len as i64)
            }
        }
        4 => i64::MAX,
        5 => i64::MIN,
        6 => {
            if t.bool() {
                i64::MAX - 1
            } else {
                i64::MIN + 1
            }
        }
        _ => t.range(0, 12) as i64 - 6,
    }
}

impl Property for Cursor {
    type Case = CursorCase;
    fn name(&self) -> &'static str {
        "cursor"
    }
    fn rule(&self) -> String {
        "histories of up to 40 operations (next, next_os, peek, peek_os, remaining, seek Start/Current/End with offsets from \
         {0, +-1, +-len, i64::MIN/MAX, u64::MAX, small random}, insert of 0-3 items, is_end) on two cursors over one RawArgs of \
         0-6 items; lock-step model = Vec + position (reads past the end give None and still advance, seek = exact integer \
         arithmetic clamped to 0..=len, insert/remaining at min(pos,len)). Non-trivial: the history reads at or past the end \
         and continues, or inserts after a seek; distinct = distinct (items, ops)."
            .into()
    }
    fn budget(&self, tier: Tier) -> Budget {
        Budget {
            cases: tier.pick(3_000_000, 30_000_000),
            tape_len: 500,
        }
    }
    fn decode(&self, t: &mut Tape<'_>) -> CursorCase {
        let words: &[&str] = &["a", "-b", "--c", "--", "-", "", "v=1", "\u{e9}"];
        let items: Vec<String> = t.vec(0, 6, |t| (*t.pick(words)).to_owned());
        let mut len = items.len();
        let nops = if t.chance(1, 4) { t.range(0, 40) } else { t.range(0, 10) };
        let mut ops = Vec::new();
        for _ in 0..nops {
            let w = if t.chance(1, 4) { 1u8 } else { 0u8 };
            let op = match t.weighted(&[5, 3, 2, 2, 2, 4, 2, 2]) {
                0 => CurOp::NextOs(w),
                1 => CurOp::Next(w),
                2 => CurOp::Peek(w),
                3 => CurOp::PeekOs(w),
                4 => CurOp::Remaining(w),
                5 => {
                    let wh = match t.choose(3) {
                        0 => Whence::Current(decode_offset(t, len)),
                        1 => Whence::End(decode_offset(t, len)),
                        _ => Whence::Start(match t.weighted(&[3, 2, 2, 1, 1]) {
                            0 => 0,
                            1 => len as u64,
                            2 => t.range(0, 8) as u64,
                            3 => u64::MAX,
                            _ => (len as u64).wrapping_add(1),
                        }),
                    };
                    CurOp::Seek(w, wh)
                }
                6 => {
                    let ins: Vec<String> = t.vec(0, 3, |t| (*t.pick(words)).to_owned());
                    len += ins.len();
                    CurOp::Insert(w, ins)
                }
                _ => CurOp::IsEnd(w),
            };
            ops.push(op);
        }
        CursorCase { items, ops }
    }
    fn run(&self, case: &CursorCase, ctx: &mut Ctx) -> Verdict {
        let mut raw = RawArgs::new(case.items.iter().map(|s| s.as_str()));
        let mut cur = [raw.cursor(), raw.cursor()];
        let mut items: Vec<String> = case.items.clone();
        let mut pos: [usize; 2] = [0, 0];
        let mut overran = false;
        let mut continued_after_end = false;
        let mut seeked = false;
        let mut insert_after_seek = false;
        for (k, op) in case.ops.iter().enumerate() {
            let before = format!("items {:?} pos {:?}", items, pos);
            let bad = move |what: &str, detail: String| {
                Verdict::fail(format!("cursor:{what}"), format!("step {k} {op:?} on {before}: {detail}"))
            };
            if overran {
                continued_after_end = true;
            }
            match op {
                CurOp::Next(w) | CurOp::NextOs(w) => {
                    let w = *w as usize;
                    let m = items.get(pos[w]).cloned();
                    if pos[w] >= items.len() {
                        overran = true;
                    }
                    pos[w] = pos[w].saturating_add(1);
                    let r = if matches!(op, CurOp::Next(_)) {
                        raw.next(&mut cur[w]).map(|a| a.to_value_os().to_owned())
                    } else {
                        raw.next_os(&mut cur[w]).map(|a| a.to_owned())
                    };
                    let r = r.map(|o| o.to_string_lossy().into_owned());
                    if r != m {
                        return bad("next", format!("real {r:?} model {m:?}"));
                    }
                }
                CurOp::Peek(w) | CurOp::PeekOs(w) => {
                    let w = *w as usize;
                    let m = items.get(pos[w]).cloned();
                    let r = if matches!(op, CurOp::Peek(_)) {
                        raw.peek(&cur[w]).map(|a| a.to_value_os().to_owned())
                    } else {
                        raw.peek_os(&cur[w]).map(|a| a.to_owned())
                    };
                    let r = r.map(|o| o.to_string_lossy().into_owned());
                    if r != m {
                        return bad("peek", format!("real {r:?} model {m:?}"));
                    }
                }
                CurOp::Remaining(w) => {
                    let w = *w as usize;
                    let st = pos[w].min(items.len());
                    let m: Vec<String> = items[st..].to_vec();
                    pos[w] = items.len();
                    let r: Vec<String> = raw
                        .remaining(&mut cur[w])
                        .map(|o| o.to_string_lossy().into_owned())
                        .collect();
                    if r != m {
                        return bad("remaining", format!("real {r:?} model {m:?}"));
                    }
                }
                CurOp::Seek(w, wh) => {
                    let w = *w as usize;
                    seeked = true;
                    let len = items.len() as i128;
                    let target: i128 = match wh {
                        Whence::Start(p) => *p as i128,
                        Whence::Current(o) => pos[w] as i128 + *o as i128,
                        Whence::End(o) => len + *o as i128,
                    };
                    pos[w] = target.clamp(0, len) as usize;
                    let sf = match wh {
                        Whence::Start(p) => SeekFrom::Start(*p),
                        Whence::Current(o) => SeekFrom::Current(*o),
                        Whence::End(o) => SeekFrom::End(*o),
                    };
                    raw.seek(&mut cur[w], sf);
                }
                CurOp::Insert(w, ins) => {
                    let w = *w as usize;
                    if seeked && !ins.is_empty() {
                        insert_after_seek = true;
                    }
                    let at = pos[w].min(items.len());
                    for (j, s) in ins.iter().enumerate() {
                        items.insert(at + j, s.clone());
                    }
                    raw.insert(&cur[w], ins.iter().map(|s| s.as_str()));
                }
                CurOp::IsEnd(w) => {
                    let w = *w as usize;
                    let m = pos[w] >= items.len();
                    let r = raw.is_end(&cur[w]);
                    if r != m {
                        return bad("is_end", format!("real {r} model {m}"));
                    }
                }
            }
            // after every step both cursors must read what the model reads
            for w in 0..2 {
                let m = items.get(pos[w]).cloned();
                let r = raw.peek_os(&cur[w]).map(|o| o.to_string_lossy().into_owned());
                if r != m {
                    return bad("invariant-peek", format!("cursor {w}: real {r:?} model {m:?}"));
                }
            }
        }
        // final full read-out of the list through a fresh cursor
        let mut c = raw.cursor();
        let all: Vec<String> = raw.remaining(&mut c).map(|o| o.to_string_lossy().into_owned()).collect();
        ensure!(all == items, "cursor:final-list", "real {:?} model {:?}", all, items);
        if continued_after_end {
            ctx.label("continues-after-reading-past-end");
            ctx.nontrivial();
        }
        if insert_after_seek {
            ctx.label("insert-after-seek");
            ctx.nontrivial();
        }
        Verdict::Pass
    }
}

pub fn check() -> Check {
    Check {
        id: "C14",
        parts: vec![Box::new(Gen(Helpers)), Box::new(Gen(Cursor))],
        assumptions: vec![
            "Unix OsStr encoding; needles are non-empty valid UTF-8 as the property states".into(),
            "cursor model: a read past the end yields None and still advances the position (what next_os documents and what \
             clap_complete's engine relies on); seek/insert/remaining clamp to the list length"
                .into(),
        ],
    }
}
