//! C16 — Generated completion scripts cover the whole command tree and work in the shell.

use clap_complete::aot::{generate, Bash, Elvish, Fish, PowerShell, Zsh};
use serde::{Deserialize, Serialize};
use std::collections::{BTreeMap, HashSet};
use std::io::Write as _;
use std::process::{Command as Proc, Stdio};
use vcore::*;
use vmodel::gen::{gen_broad, GenOpts};
use vmodel::{build_checked, ArgSpec, Built, CmdSpec};

#[derive(Serialize, Deserialize, Hash, Clone, Debug)]
pub struct ScriptCase {
    pub spec: CmdSpec,
    pub bin: String,
    /// bash queries: (subcommand path by spellings, word under the cursor)
    pub queries: Vec<(Vec<String>, String)>,
    /// a command line parsed with the same `Command` value before the scripts are generated from it (an application
    /// that handles `completions <shell>` after parsing)
    #[serde(default)]
    pub parsed_first: Option<Vec<String>>,
    /// produce the scripts through `generate_to` (a file in a scratch directory) instead of `generate` (a writer)
    #[serde(default)]
    pub via_file: bool,
}

pub const SHELLS: &[&str] = &["bash", "zsh", "fish", "powershell", "elvish", "nushell"];

/// The same through `generate_to`: the script is written to a file named by the generator in a scratch directory.
pub fn gen_script_to_file(shell: &str, cmd: &clap::Command, bin: &str) -> Result<String, PanicInfo> {
    use clap_complete::generate_to;
    static N: std::sync::atomic::AtomicUsize = std::sync::atomic::AtomicUsize::new(0);
    let dir = std::env::temp_dir().join(format!("verif-c16-{}-{}", std::process::id(), N.fetch_add(1, std::sync::atomic::Ordering::Relaxed)));
    let _ = std::fs::create_dir_all(&dir);
    let r = catch(|| {
        let mut c = cmd.clone();
        let path = match shell {
            "bash" => generate_to(Bash, &mut c, bin, &dir),
            "zsh" => generate_to(Zsh, &mut c, bin, &dir),
            "fish" => generate_to(Fish, &mut c, bin, &dir),
            "powershell" => generate_to(PowerShell, &mut c, bin, &dir),
            "elvish" => generate_to(Elvish, &mut c, bin, &dir),
            _ => generate_to(clap_complete_nushell::Nushell, &mut c, bin, &dir),
        }
        .expect("scratch directory is writable");
        String::from_utf8_lossy(&std::fs::read(path).expect("generated file is readable")).into_owned()
    });
    let _ = std::fs::remove_dir_all(&dir);
    r
}

pub fn gen_script(shell: &str, cmd: &clap::Command, bin: &str) -> Result<String, PanicInfo> {
    catch(|| {
        let mut c = cmd.clone();
        let mut out = Vec::new();
        match shell {
            "bash" => generate(Bash, &mut c, bin, &mut out),
            "zsh" => generate(Zsh, &mut c, bin, &mut out),
            "fish" => generate(Fish, &mut c, bin, &mut out),
            "powershell" => generate(PowerShell, &mut c, bin, &mut out),
            "elvish" => generate(Elvish, &mut c, bin, &mut out),
            _ => generate(clap_complete_nushell::Nushell, &mut c, bin, &mut out),
        }
        String::from_utf8_lossy(&out).into_owned()
    })
}

#[derive(Debug, Clone, Default)]
pub struct LevelItems {
    pub path: Vec<String>,
    /// option spellings that have to be mentioned (non-hidden args, primary + visible aliases)
    pub required_opts: Vec<String>,
    /// every option spelling known at the level (hidden ones and hidden aliases too)
    pub all_opts: Vec<String>,
    /// subcommand spellings that have to be mentioned (non-hidden, name + visible aliases)
    pub required_subs: Vec<String>,
    pub all_subs: Vec<String>,
    /// (arg is positional, non-hidden possible values)
    pub values: Vec<(bool, String)>,
    pub all_values: Vec<String>,
    pub positionals: Vec<String>,
    pub alias_without_primary: usize,
}

pub fn collect_levels(cmd: &clap::Command, path: &mut Vec<String>, out: &mut Vec<LevelItems>) {
    let mut li = LevelItems {
        path: path.clone(),
        ..Default::default()
    };
    for a in cmd.get_arguments() {
        if a.is_positional() {
            li.positionals.push(a.to_string());
        } else {
            let hidden = a.is_hide_set();
            if let Some(l) = a.get_long() {
                li.all_opts.push(format!("--{l}"));
                if !hidden {
                    li.required_opts.push(format!("--{l}"));
                }
            }
            let vis: HashSet<&str> = a.get_visible_aliases().unwrap_or_default().into_iter().collect();
            for al in a.get_all_aliases().unwrap_or_default() {
                li.all_opts.push(format!("--{al}"));
                if vis.contains(al) && !hidden {
                    if a.get_long().is_some() {
                        li.required_opts.push(format!("--{al}"));
                    } else {
                        li.alias_without_primary += 1;
                    }
                }
            }
            if let Some(s) = a.get_short() {
                li.all_opts.push(format!("-{s}"));
                if !hidden {
                    li.required_opts.push(format!("-{s}"));
                }
            }
            let vis_s: HashSet<char> = a.get_visible_short_aliases().unwrap_or_default().into_iter().collect();
            for al in a.get_all_short_aliases().unwrap_or_default() {
                li.all_opts.push(format!("-{al}"));
                if vis_s.contains(&al) && !hidden {
                    if a.get_short().is_some() {
                        li.required_opts.push(format!("-{al}"));
                    } else {
                        li.alias_without_primary += 1;
                    }
                }
            }
        }
        if a.get_num_args().map(|n| n.takes_values()).unwrap_or(false) {
            for pv in a.get_possible_values() {
                li.all_values.push(pv.get_name().to_owned());
                if !pv.is_hide_set() && !a.is_hide_set() && !a.is_hide_possible_values_set() {
                    li.values.push((a.is_positional(), pv.get_name().to_owned()));
                }
            }
        }
    }
    for sc in cmd.get_subcommands() {
        li.all_subs.push(sc.get_name().to_owned());
        li.all_subs.extend(sc.get_all_aliases().map(|s| s.to_owned()));
        if !sc.is_hide_set() {
            li.required_subs.push(sc.get_name().to_owned());
            li.required_subs.extend(sc.get_visible_aliases().map(|s| s.to_owned()));
        }
    }
    out.push(li);
    for sc in cmd.get_subcommands() {
        path.push(sc.get_name().to_owned());
        collect_levels(sc, path, out);
        path.pop();
    }
}

fn is_word_char(c: char) -> bool {
    c.is_alphanumeric() || c == '_' || c == '-'
}

/// whole-token occurrence (delimited by characters that cannot be part of a name)
pub fn mentions(text: &str, token: &str) -> bool {
    let mut start = 0;
    while let Some(i) = text[start..].find(token) {
        let a = start + i;
        let b = a + token.len();
        let before = text[..a].chars().next_back();
        let after = text[b..].chars().next();
        // a leading '-' of the token must not be glued to another '-' (so `-v` is not found inside `--v`)
        let before_ok = before.map(|c| !is_word_char(c)).unwrap_or(true);
        let after_ok = after.map(|c| !is_word_char(c)).unwrap_or(true);
        if before_ok && after_ok {
            return true;
        }
        start = a + token.chars().next().map(|c| c.len_utf8()).unwrap_or(1);
        if start >= text.len() {
            break;
        }
    }
    false
}

/// How a short/long option is written in each shell's script.
fn opt_forms(shell: &str, opt: &str) -> Vec<String> {
    let long = opt.strip_prefix("--");
    let short = if long.is_none() { opt.strip_prefix('-') } else { None };
    match shell {
        "fish" => match (long, short) {
            (Some(l), _) => vec![format!("-l {l}")],
            (_, Some(s)) => vec![format!("-s {s}")],
            _ => vec![],
        },
        "nushell" => match (long, short) {
            (Some(l), _) => vec![format!("--{l}")],
            // a short is written `(-s)` next to its long or bare `-s`
            (_, Some(s)) => vec![format!("(-{s})"), format!("-{s}")],
            _ => vec![],
        },
        _ => vec![opt.to_owned()],
    }
}

/// The text of one level's block, where the format names levels explicitly.
fn level_block(shell: &str, script: &str, bin: &str, path: &[String]) -> Option<String> {
    match shell {
        "powershell" | "elvish" => {
            let mut key = bin.to_owned();
            for p in path {
                key.push(';');
                key.push_str(p);
            }
            let head = if shell == "powershell" { format!("        '{key}' {{") } else { format!("        &'{key}'= {{") };
            let start = script.find(&head)?;
            let rest = &script[start + head.len()..];
            let end = if shell == "powershell" { rest.find("            break\n")? } else { rest.find("\n        }")? };
            Some(rest[..end].to_owned())
        }
        "nushell" => {
            let head = if path.is_empty() {
                format!("export extern {bin} [")
            } else {
                format!("export extern \"{} {}\" [", bin, path.join(" "))
            };
            let start = script.find(&head)?;
            let rest = &script[start + head.len()..];
            let end = rest.find("\n  ]")?;
            Some(rest[..end].to_owned())
        }
        "bash" => {
            let mut label = bin.replace('-', "__");
            for p in path {
                label.push_str("__");
                label.push_str(&p.replace('-', "__"));
            }
            // the second `case "${cmd}"` holds the per-level blocks: `        label)\n            opts="..."`
            let head = format!("\n        {label})\n            opts=\"");
            let start = script.find(&head)?;
            let rest = &script[start + head.len()..];
            let end = rest.find("\n            ;;")?;
            Some(rest[..end].to_owned())
        }
        "fish" => {
            let fbin = bin.replace('-', "_");
            let mut out = String::new();
            let mut taking = false;
            for line in script.lines() {
                if !line.starts_with("complete -c ") {
                    // value lists of `-a "..."` continue on the following lines
                    if taking {
                        out.push_str(line);
                        out.push('\n');
                    }
                    continue;
                }
                taking = false;
                let cond = match line.split(" -n \"").nth(1) {
                    Some(c) => c,
                    None => continue,
                };
                let cond_end = cond.find('"').unwrap_or(cond.len());
                let cond = &cond[..cond_end];
                let hit = match path.len() {
                    0 => cond == format!("__fish_{fbin}_needs_command"),
                    1 => {
                        cond == format!("__fish_{fbin}_using_subcommand {}", path[0])
                            || cond.starts_with(&format!("__fish_{fbin}_using_subcommand {}; and not __fish_seen_subcommand_from", path[0]))
                    }
                    2 => cond == format!("__fish_{fbin}_using_subcommand {}; and __fish_seen_subcommand_from {}", path[0], path[1]),
                    _ => false,
                };
                if hit {
                    taking = true;
                    out.push_str(line);
                    out.push('\n');
                }
            }
            if out.is_empty() {
                None
            } else {
                Some(out)
            }
        }
        "zsh" => zsh_blocks(script).remove(&path.join(" ")),
        _ => None,
    }
}

/// zsh: the `_arguments` spec lines of every level, keyed by the canonical path, plus the
/// subcommand lists of the `_<bin>__<path>_commands` functions.
fn zsh_blocks(script: &str) -> BTreeMap<String, String> {
    #[derive(Clone)]
    struct Frame {
        is_line: bool,
        label: Option<String>,
    }
    let mut out: BTreeMap<String, String> = BTreeMap::new();
    let mut stack: Vec<Frame> = Vec::new();
    let lines: Vec<&str> = script.lines().collect();
    let mut i = 0;
    while i < lines.len() {
        let l = lines[i].trim();
        if l.starts_with("case $state in") {
            stack.push(Frame { is_line: false, label: None });
        } else if l.starts_with("case $line[") {
            stack.push(Frame { is_line: true, label: None });
        } else if l == "esac" {
            stack.pop();
        } else if l.starts_with('(') && l.ends_with(')') && !l.contains(' ') {
            if let Some(f) = stack.last_mut() {
                f.label = Some(l[1..l.len() - 1].to_owned());
            }
        } else if l.starts_with("_arguments \"${_arguments_options[@]}\"") {
            // path by canonical names is not available for alias labels; key by the labels seen
            let path: Vec<String> = stack.iter().filter(|f| f.is_line).filter_map(|f| f.label.clone()).collect();
            let mut body = String::new();
            i += 1;
            while i < lines.len() && !lines[i].starts_with("&& ret=0") {
                body.push_str(lines[i]);
                body.push('\n');
                i += 1;
            }
            out.entry(path.join(" ")).or_default().push_str(&body);
        } else if l.starts_with("_describe -t commands '") {
            // `_describe -t commands '<bin path> commands' commands "$@"`: the list precedes it
            let desc = l.trim_start_matches("_describe -t commands '");
            let desc = desc.split("' commands").next().unwrap_or("");
            let words: Vec<&str> = desc.split(' ').collect();
            if words.len() >= 2 {
                let path = words[1..words.len() - 1].join(" ");
                // walk back to `commands=(`
                let mut j = i;
                let mut body = String::new();
                while j > 0 && !lines[j].contains("commands=(") {
                    j -= 1;
                    body = format!("{}\n{}", lines[j], body);
                }
                out.entry(path).or_default().push_str(&body);
            }
        }
        i += 1;
    }
    out
}

fn bash_quote(s: &str) -> String {
    format!("'{}'", s.replace('\'', "'\\''"))
}

/// Run all queries in one bash process; returns one reply list per query.
fn run_bash(script: &str, bin: &str, queries: &[(Vec<String>, String)]) -> Result<Vec<Vec<String>>, String> {
    let mut prog = String::new();
    prog.push_str(script);
    prog.push('\n');
    for (path, word) in queries {
        let mut words: Vec<String> = vec![bash_quote(bin)];
        words.extend(path.iter().map(|p| bash_quote(p)));
        words.push(bash_quote(word));
        let cword = words.len() - 1;
        let prev = if cword >= 1 { words[cword - 1].clone() } else { "''".into() };
        prog.push_str(&format!(
            "COMP_WORDS=({}); COMP_CWORD={}; COMPREPLY=(); _{} {} {} {} 2>/dev/null; printf '%s\\n' \"${{COMPREPLY[@]}}\"; echo '<<VERIF-END>>'\n",
            words.join(" "),
            cword,
            bin,
            bash_quote(bin),
            bash_quote(word),
            prev
        ));
    }
    let mut child = Proc::new("bash")
        .args(["--norc", "--noprofile"])
        .stdin(Stdio::piped())
        .stdout(Stdio::piped())
        .stderr(Stdio::piped())
        .spawn()
        .map_err(|e| format!("cannot run bash: {e}"))?;
    child.stdin.take().unwrap().write_all(prog.as_bytes()).map_err(|e| e.to_string())?;
    let out = child.wait_with_output().map_err(|e| e.to_string())?;
    let text = String::from_utf8_lossy(&out.stdout).into_owned();
    let mut res: Vec<Vec<String>> = Vec::new();
    let mut cur: Vec<String> = Vec::new();
    for line in text.lines() {
        if line == "<<VERIF-END>>" {
            res.push(std::mem::take(&mut cur));
        } else if !line.is_empty() {
            cur.push(line.to_owned());
        }
    }
    if res.len() != queries.len() {
        return Err(format!(
            "bash produced {} answers for {} queries; stderr: {}",
            res.len(),
            queries.len(),
            String::from_utf8_lossy(&out.stderr)
        ));
    }
    Ok(res)
}

fn bash_syntax_ok(script: &str) -> Result<(), String> {
    let mut child = Proc::new("bash")
        .args(["--norc", "--noprofile", "-n"])
        .stdin(Stdio::piped())
        .stdout(Stdio::null())
        .stderr(Stdio::piped())
        .spawn()
        .map_err(|e| format!("cannot run bash: {e}"))?;
    child.stdin.take().unwrap().write_all(script.as_bytes()).map_err(|e| e.to_string())?;
    let out = child.wait_with_output().map_err(|e| e.to_string())?;
    if out.status.success() {
        Ok(())
    } else {
        Err(String::from_utf8_lossy(&out.stderr).into_owned())
    }
}

pub struct Scripts;

pub fn completion_spec(t: &mut Tape<'_>) -> CmdSpec {
    let opts = GenOpts {
        help_surface: true,
        relations: false,
        exotic_settings: false,
        ignore_errors: false,
        external: false,
        env: false,
        globals: true,
        safe_names: true,
        ..GenOpts::default()
    };
    let mut spec = gen_broad(t, &opts);
    spec.help_template = None;
    spec
}

impl Property for Scripts {
    type Case = ScriptCase;
    fn name(&self) -> &'static str {
        "aot-scripts"
    }
    fn rule(&self) -> String {
        "command trees for completion (depth <= 3, hyphenated and underscored names from small pools so that mangled paths collide, \
         visible/hidden aliases, short/long aliases, possible values visible/hidden, value hints, hidden args/subcommands, generated \
         help subcommand on/off, bin names with '-') x the six generators; for bash additionally 4-10 queries: a subcommand path by names or \
         visible aliases x a partial word (empty, -, --, prefix of an option of the level, proper prefix of a subcommand, non-matching). \
         Oracle, all shells: generation returns, two generations are byte-identical; every -s / --long / visible alias of every \
         non-hidden option, every non-hidden possible value (bash, zsh, fish, nushell) and every name / visible alias of non-hidden \
         subcommands is mentioned inside the block of its level (PowerShell/elvish 'bin;sub' blocks, nushell extern blocks, bash case \
         blocks, zsh _arguments blocks and _commands lists, fish conditions down to two levels). Bash: `bash -n` accepts the script; run \
         in bash, a word starting with - is answered with option spellings of the addressed level extending the word, including every \
         visible one; any other word at the level's word position is answered with entries extending the word that are subcommand \
         spellings, positional placeholders, possible values or options of that level, including every visible subcommand spelling. \
         Non-trivial: a bash query at depth >= 2 whose word matches >= 1 and not all entries; distinct = distinct (spec, queries)."
            .into()
    }
    fn budget(&self, tier: Tier) -> Budget {
        Budget {
            cases: tier.pick(40_000, 600_000),
            tape_len: 4500,
        }
    }
    fn decode(&self, t: &mut Tape<'_>) -> ScriptCase {
        let mut spec = completion_spec(t);
        // rarely a name with a double underscore (breaks the bash path mangling: known finding)
        if t.chance(1, 40) {
            if let Some(sc) = spec.subs.first_mut() {
                sc.name = "dbl__us".to_owned();
            }
        }
        // and rarely the `sub-one` / `sub one` pair whose mangled bash labels coincide (known finding)
        let mut forced_query: Option<(Vec<String>, String)> = None;
        if t.chance(1, 30) && spec.subs.len() >= 2 && !spec.subs[1].subs.is_empty() {
            for sc in spec.subs.iter_mut() {
                sc.aliases.clear();
            }
            spec.subs[0].name = "sub-one".to_owned();
            spec.subs[1].name = "sub".to_owned();
            for sc in spec.subs[1].subs.iter_mut() {
                sc.aliases.clear();
            }
            spec.subs[1].subs[0].name = "one".to_owned();
            for (i, sc) in spec.subs.iter_mut().enumerate().skip(2) {
                sc.name = format!("other{i}");
            }
            forced_query = Some((vec!["sub".to_owned(), "one".to_owned()], "--".to_owned()));
        }
        let bin = (*t.pick(&["prog", "my-prog", "p"])).to_owned();
        spec.name = bin.clone();
        spec.bin_name = None;
        let mut rename: Option<&str> = None;
        // queries
        let mut queries = Vec::new();
        let nq = t.range(4, 10);
        for _ in 0..nq {
            let mut level = &spec;
            let mut path = Vec::new();
            while !level.subs.is_empty() && t.chance(2, 3) {
                let sc = &level.subs[t.choose(level.subs.len())];
                let mut names = vec![sc.name.clone()];
                names.extend(sc.aliases.iter().filter(|a| a.1).map(|a| a.0.clone()));
                path.push(t.pick(&names).clone());
                level = sc;
            }
            let mut spellings: Vec<String> = Vec::new();
            for a in &level.args {
                if let Some(l) = &a.long {
                    spellings.push(format!("--{l}"));
                }
                if let Some(s) = a.short {
                    spellings.push(format!("-{s}"));
                }
            }
            for sc in &level.subs {
                spellings.push(sc.name.clone());
            }
            spellings.push("--help".into());
            let word = match t.weighted(&[2, 2, 2, 5, 1]) {
                0 => String::new(),
                1 => "-".to_owned(),
                2 => "--".to_owned(),
                3 => {
                    let s = t.pick(&spellings).clone();
                    let n = s.chars().count();
                    let k = t.range(1, n.max(2) - 1).min(n);
                    s.chars().take(k).collect()
                }
                _ => "zz".to_owned(),
            };
            queries.push((path, word));
        }
        if let Some(q) = forced_query {
            queries.push(q);
        }
        // a quarter of the cases parse a line that walks down the subcommand tree first
        let parsed_first = if t.chance(1, 4) {
            let mut line = vec![bin.clone()];
            let mut level = &spec;
            while !level.subs.is_empty() && !t.chance(1, 4) {
                let sc = &level.subs[t.choose(level.subs.len())];
                line.push(sc.name.clone());
                level = sc;
            }
            Some(line)
        } else {
            None
        };
        // the binary is not always called like the `Command` (crate `my_prog`, binary `my-prog`); the scripts are for the
        // name handed to the generator
        if t.chance(1, 4) {
            rename = Some(*t.pick(&["my_prog", "prog-cli", "app"]));
        }
        let via_file = t.chance(1, 4);
        if let Some(n) = rename {
            spec.name = n.to_owned();
        }
        ScriptCase { spec, bin, queries, parsed_first, via_file }
    }
    fn run(&self, case: &ScriptCase, ctx: &mut Ctx) -> Verdict {
        if case.bin.is_empty() || case.bin.contains(' ') {
            return Verdict::Discard("bin-name-not-well-formed");
        }
        let cmd = match build_checked(&case.spec) {
            Built::Ok(c) => c,
            Built::Invalid(_) => return Verdict::Discard("invalid-config"),
            Built::Panic(p) => return Verdict::Fail(Failure::from_panic(&p)),
        };
        let cmd = match &case.parsed_first {
            Some(line) => {
                let mut used = cmd.clone();
                // (the outcome of the parse is C01's business; the definition must still generate afterwards)
                let _ = catch(|| used.try_get_matches_from_mut(line.iter()).map(|_| ()).map_err(|_| ()));
                ctx.label("generated-after-a-parse");
                used
            }
            None => cmd,
        };
        let mut built = cmd.clone();
        built.build();
        // the expectations below are read from the built tree: make sure it holds what the description says it must
        // (every global argument of an ancestor, unless the level or one in between declares that id itself)
        fn globals_reach(level: &CmdSpec, built: &clap::Command, carry: &[&ArgSpec], path: &mut Vec<String>) -> Result<(), String> {
            let own: Vec<&str> = level.args.iter().map(|a| a.id.as_str()).collect();
            let mut down: Vec<&ArgSpec> = carry.iter().copied().filter(|g| !own.contains(&g.id.as_str())).collect();
            for g in &down {
                if !built.get_arguments().any(|a| a.get_id().as_str() == g.id) {
                    return Err(format!("level {:?} lacks the global argument {:?} declared above it", path, g.id));
                }
            }
            down.extend(level.args.iter().filter(|a| a.global));
            for sc in &level.subs {
                if let Some(b) = built.find_subcommand(&sc.name) {
                    path.push(sc.name.clone());
                    globals_reach(sc, b, &down, path)?;
                    path.pop();
                }
            }
            Ok(())
        }
        if let Err(why) = globals_reach(&case.spec, &built, &[], &mut Vec::new()) {
            return Verdict::fail("scripts:global-argument-not-propagated", format!("the built command tree the scripts are generated from: {why}"));
        }
        let mut levels = Vec::new();
        collect_levels(&built, &mut Vec::new(), &mut levels);
        let has_dbl = levels.iter().any(|l| l.path.iter().any(|p| p.contains("__")));
        let mut scripts: BTreeMap<&str, String> = BTreeMap::new();
        for shell in SHELLS {
            let s1 = match if case.via_file { gen_script_to_file(shell, &cmd, &case.bin) } else { gen_script(shell, &cmd, &case.bin) } {
                Ok(s) => s,
                Err(p) => {
                    let mut f = Failure::from_panic(&p);
                    if *shell == "bash" && has_dbl {
                        f.signature = format!("{}:subcommand-name-contains-double-underscore", f.signature);
                    }
                    f.message = format!("{shell} generator: {}", f.message);
                    if *shell == "bash" && has_dbl {
                        // known finding: go on with the other shells
                        if let Verdict::Pass = ctx_known(ctx, &f) {
                            continue;
                        }
                    }
                    return Verdict::Fail(f);
                }
            };
            let s2 = gen_script(shell, &cmd, &case.bin).unwrap_or_default();
            ensure!(s1 == s2, format!("scripts:{shell}:non-deterministic"), "two generations of the {} script differ", shell);
            scripts.insert(shell, s1);
        }
        // bash mangles both '-' and the path separator to "__": two paths may share one label
        let collide = {
            let mut labels: BTreeMap<String, usize> = BTreeMap::new();
            for li in &levels {
                let mut label = case.bin.replace('-', "__");
                for p in &li.path {
                    label.push_str("__");
                    label.push_str(&p.replace('-', "__"));
                }
                *labels.entry(label).or_default() += 1;
            }
            labels.values().any(|n| *n > 1)
        };
        // ---- coverage
        for li in &levels {
            // the generated help subtree is not part of the definition
            if li.path.iter().any(|p| p == "help") {
                continue;
            }
            for shell in SHELLS {
                let Some(script) = scripts.get(shell) else { continue };
                if *shell == "fish" && li.path.len() > 2 {
                    continue;
                }
                let block = level_block(shell, script, &case.bin, &li.path);
                let (text, where_): (&str, String) = match &block {
                    Some(b) => (b.as_str(), format!("the block of level {:?}", li.path)),
                    None => {
                        // a level without any entry legitimately has no block
                        let empty = li.required_opts.is_empty() && li.required_subs.is_empty() && li.values.is_empty();
                        if empty {
                            continue;
                        }
                        if *shell == "zsh" || *shell == "fish" || *shell == "bash" {
                            // labels may be alias-mangled / collide; fall back to the whole script
                            (script.as_str(), "the script".to_owned())
                        } else {
                            return Verdict::fail(
                                format!("scripts:{shell}:level-block-missing"),
                                format!("{shell}: no block for level {:?} of bin {:?}\n{}", li.path, case.bin, script),
                            );
                        }
                    }
                };
                for o in &li.required_opts {
                    let forms = opt_forms(shell, o);
                    if !forms.iter().any(|f| mentions(text, f)) {
                        let f = Failure::new(
                            if *shell == "bash" && collide {
                                "scripts:bash:mangled-path-collision".to_owned()
                            } else {
                                format!("scripts:{shell}:option-not-mentioned")
                            },
                            format!("{shell}: option {o:?} of level {:?} is not mentioned in {where_}\n{}", li.path, text),
                        );
                        if let Verdict::Fail(f) = ctx.note_known(&f) {
                            return Verdict::Fail(f);
                        }
                    }
                }
                for s in &li.required_subs {
                    let ok = match *shell {
                        // nushell lists subcommands as extern blocks of their own
                        "nushell" => {
                            let mut p = li.path.clone();
                            p.push(s.clone());
                            script.contains(&format!("export extern \"{} {}\"", case.bin, p.join(" ")))
                        }
                        _ => mentions(text, s),
                    };
                    if !ok {
                        let is_alias = !levels.iter().any(|l| l.path.len() == li.path.len() + 1 && l.path.starts_with(&li.path) && l.path.last() == Some(s));
                        let f = Failure::new(
                            if is_alias {
                                format!("scripts:{shell}:subcommand-not-mentioned:visible-alias")
                            } else if *shell == "bash" && collide {
                                "scripts:bash:mangled-path-collision".to_owned()
                            } else {
                                format!("scripts:{shell}:subcommand-not-mentioned")
                            },
                            format!("{shell}: subcommand spelling {s:?} of level {:?} is not mentioned in {where_}\n{}", li.path, text),
                        );
                        // a listed known finding must not stop the remaining checks of this case
                        if let Verdict::Fail(f) = ctx.note_known(&f) {
                            return Verdict::Fail(f);
                        }
                    }
                }
                if matches!(*shell, "bash" | "zsh" | "fish" | "nushell") {
                    for (positional, v) in &li.values {
                        // nushell keeps value lists in separate `def "nu-complete ..."` blocks, bash keeps
                        // option values in the `case "${prev}"` part of the level block
                        let hay = if *shell == "nushell" { script.as_str() } else { text };
                        // (the fish generator documents that it does not support positional arguments)
                        if *shell == "fish" && *positional {
                            continue;
                        }
                        if !mentions(hay, v) {
                            let f = Failure::new(
                                if *shell == "bash" && collide {
                                    "scripts:bash:mangled-path-collision".to_owned()
                                } else {
                                    format!("scripts:{shell}:possible-value-not-mentioned")
                                },
                                format!("{shell}: possible value {v:?} of level {:?} is not mentioned in {where_}\n{}", li.path, hay),
                            );
                            if let Verdict::Fail(f) = ctx.note_known(&f) {
                                return Verdict::Fail(f);
                            }
                        }
                    }
                }
            }
            if li.alias_without_primary > 0 {
                ctx.exclude("visible-alias-of-an-argument-without-primary-flag");
            }
        }
        // ---- bash in bash
        let mut deep_query = false;
        if let Some(bash) = scripts.get("bash") {
            if let Err(e) = bash_syntax_ok(bash) {
                return Verdict::fail("scripts:bash:syntax", format!("bash -n rejects the script: {e}\n{bash}"));
            }
            let replies = match run_bash(bash, &case.bin, &case.queries) {
                Ok(r) => r,
                Err(e) => return Verdict::fail("scripts:bash:driver", e),
            };
            for ((path, word), reply) in case.queries.iter().zip(replies.iter()) {
                // the level addressed by the path
                let mut canon: Vec<String> = Vec::new();
                let mut c = &built;
                let mut ok_path = true;
                for p in path {
                    match c.find_subcommand(p) {
                        Some(s) => {
                            canon.push(s.get_name().to_owned());
                            c = s;
                        }
                        None => {
                            ok_path = false;
                            break;
                        }
                    }
                }
                if !ok_path {
                    continue;
                }
                let Some(li) = levels.iter().find(|l| l.path == canon) else { continue };
                // a word that is a complete subcommand name moves the script's own state machine
                if li.all_subs.iter().any(|s| s == word) {
                    ctx.exclude("bash-query-word-is-a-complete-subcommand-name");
                    continue;
                }
                let sig = |what: &str| {
                    if collide {
                        // one root cause whatever the symptom: two levels share a case label
                        let _ = what;
                        "scripts:bash:mangled-path-collision".to_owned()
                    } else {
                        format!("scripts:bash:{what}")
                    }
                };
                let show = || format!("bin {:?} path {:?} word {:?}: reply {:?}", case.bin, path, word, reply);
                let positional_values: Vec<&String> = li.all_values.iter().collect();
                for r in reply {
                    if !r.starts_with(word.as_str()) {
                        if let Verdict::Fail(f) = ctx.note_known(&Failure::new(sig("reply-does-not-extend-word"), show())) {
                            return Verdict::Fail(f);
                        }
                    }
                    let known = li.all_opts.iter().any(|o| o == r)
                        || li.all_subs.iter().any(|s| s == r)
                        || li.positionals.iter().any(|p| p == r || p.split(' ').any(|w| w == r))
                        || positional_values.iter().any(|v| *v == r);
                    if !known {
                        let f = Failure::new(
                            sig("reply-from-another-level"),
                            format!("{}: {:?} is neither an option, subcommand, positional placeholder nor value of level {:?}", show(), r, canon),
                        );
                        if let Verdict::Fail(f) = ctx.note_known(&f) {
                            return Verdict::Fail(f);
                        }
                    }
                    if word.starts_with('-') && !li.all_opts.iter().any(|o| o == r) {
                        if let Verdict::Fail(f) = ctx.note_known(&Failure::new(sig("non-option-reply-for-dash-word"), show())) {
                            return Verdict::Fail(f);
                        }
                    }
                }
                let must: Vec<&String> = if word.starts_with('-') {
                    li.required_opts.iter().filter(|o| o.starts_with(word.as_str())).collect()
                } else {
                    li.required_subs.iter().filter(|s| s.starts_with(word.as_str())).collect()
                };
                for m in &must {
                    if !reply.iter().any(|r| r == *m) {
                        let f = Failure::new(sig("visible-entry-not-offered"), format!("{}: {:?} of level {:?} is missing", show(), m, canon));
                        if let Verdict::Fail(f) = ctx.note_known(&f) {
                            return Verdict::Fail(f);
                        }
                    }
                }
                if path.len() >= 2 && !must.is_empty() && must.len() < li.required_opts.len() + li.required_subs.len() {
                    deep_query = true;
                }
            }
        }
        if deep_query {
            ctx.label("bash-query-depth>=2");
            ctx.nontrivial();
        }
        if case.bin.contains('-') {
            ctx.label("bin-name-with-hyphen");
        }
        if levels.len() >= 3 {
            ctx.nontrivial();
        }
        Verdict::Pass
    }
    fn json_shrinkable(&self) -> bool {
        true
    }
}

/// Is this failure a listed known finding? (counts it)
fn ctx_known(ctx: &mut Ctx, f: &Failure) -> Verdict {
    ctx.note_known(f)
}

pub fn check() -> Check {
    Check {
        id: "C16",
        parts: vec![Box::new(Gen(Scripts))],
        assumptions: vec![
            "only bash is installed: behaviour in the shell is checked for bash, the other five scripts are judged textually".into(),
            "names, aliases and value names are innocuous here (alphanumeric, '-', '_'); hostile text is C17's subject".into(),
            "PowerShell and elvish scripts do not complete values at all (by design), so possible values are not demanded there".into(),
            "a bash query whose word is itself a complete subcommand name is not judged (the script walks all words, including the one \
             under the cursor)"
                .into(),
        ],
    }
}
