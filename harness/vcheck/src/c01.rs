//! C01 — Parsing is total: any argv against any valid command returns, never panics.

use crate::util::os;
use serde::{Deserialize, Serialize};
use vcore::*;
use vmodel::argv::{gen_argv_broad, gen_argv_hybrid};
use vmodel::gen::{gen_broad, GenOpts};
use vmodel::observe::{exit_contract_violation, observe, observe_err};
use vmodel::{build_checked, Built, CmdSpec};

#[derive(Serialize, Deserialize, Hash, Clone, Debug)]
pub struct ParseCase {
    pub spec: CmdSpec,
    #[serde(with = "crate::util::argv_hex")]
    pub argv: Vec<Vec<u8>>,
}

pub struct Total;

pub fn run_parse_total(case: &ParseCase, ctx: &mut Ctx) -> Verdict {
    let cmd = match build_checked(&case.spec) {
        Built::Ok(c) => c,
        Built::Invalid(p) => {
            ctx.label_owned(format!("invalid-config:{}", p.class()));
            return Verdict::Discard("invalid-config");
        }
        Built::Panic(p) => {
            return Verdict::fail(
                format!("build-{}", p.signature()),
                format!("Command::build panicked outside the configuration checks at {}:{}: {}", p.file, p.line, p.message),
            )
        }
    };
    let argv: Vec<std::ffi::OsString> = case.argv.iter().map(|b| os(b)).collect();
    let ignore_errors = case.spec.settings.ignore_errors;
    let result = match catch(|| cmd.try_get_matches_from(argv)) {
        Ok(r) => r,
        Err(p) => {
            return Verdict::fail(
                p.signature(),
                format!("try_get_matches_from panicked at {}:{}: {}", p.file, p.line, p.message),
            )
        }
    };
    match &result {
        Ok(m) => {
            ctx.label("ok");
            let obs = match catch(|| observe(m)) {
                Ok(o) => o,
                Err(p) => {
                    return Verdict::fail(
                        format!("observe-{}", p.signature()),
                        format!("walking the matches panicked at {}:{}: {}", p.file, p.line, p.message),
                    )
                }
            };
            let depth = obs.chain().len();
            if depth >= 1 {
                ctx.label("subcommand-reached");
            }
            if depth >= 2 {
                ctx.label("subcommand-depth>=2");
            }
            if case.argv.len() >= 3 {
                ctx.nontrivial();
            }
        }
        Err(e) => {
            let eo = match catch(|| observe_err(e)) {
                Ok(o) => o,
                Err(p) => {
                    return Verdict::fail(
                        format!("render-{}", p.signature()),
                        format!("rendering the error panicked at {}:{}: {}", p.file, p.line, p.message),
                    )
                }
            };
            ctx.label_owned(format!("err:{}", eo.kind));
            if let Some(v) = exit_contract_violation(&eo) {
                return Verdict::fail("exit-contract", v);
            }
            if ignore_errors {
                ensure!(
                    eo.kind == "DisplayHelp" || eo.kind == "DisplayVersion",
                    "ignore-errors-returned-error",
                    "ignore_errors(true) but parsing returned {}: {}",
                    eo.kind,
                    eo.rendered
                );
            }
            // non-trivial: the parse got past the first user token
            if case.argv.len() >= 3 {
                let first = case.argv.get(1).map(|b| String::from_utf8_lossy(b).into_owned()).unwrap_or_default();
                if first.is_empty() || !eo.rendered.contains(&first) {
                    ctx.nontrivial();
                }
            }
        }
    }
    if ignore_errors {
        ctx.label("ignore_errors");
    }
    if case.spec.settings.multicall {
        ctx.label("multicall");
    }
    if !case.spec.subs.is_empty() {
        ctx.label("spec-has-subcommands");
        let names: Vec<String> = case.spec.subs.iter().flat_map(|s| s.all_names()).collect();
        if case.argv.iter().skip(1).any(|a| names.iter().any(|n| n.as_bytes() == a.as_slice())) {
            ctx.label("argv-names-a-subcommand");
        }
    }
    if case.argv.len() > 100 {
        ctx.label("argv>100");
    }
    Verdict::Pass
}

impl Property for Total {
    type Case = ParseCase;
    fn name(&self) -> &'static str {
        "parse-total"
    }
    fn rule(&self) -> String {
        "broad command trees (depth <= 3, <= 7 args/level: flags, options, positional layouts, groups and relation graphs, \
         settings cross product incl. ignore_errors, multicall, no_binary_name, external and flag subcommands, hyphen values, \
         terminators, env, defaults) accepted by clap's own configuration checks (Command::build under catch_unwind; a panic in \
         the builder assertion files is a discard) x argv of 0-40 tokens built from the spec's own spellings (longs, aliases, \
         prefixes, clusters, =-forms, subcommand names/flags), structural tokens (--, -, help/version requests, terminators), \
         negative numbers, unknown flags, raw bytes incl. invalid UTF-8, empty and 3000-byte tokens, a token repeated up to 300 \
         times, drop/duplicate/swap mutations; two fifths of the lines are instead well-formed lines (required arguments supplied, \
         walking down the subcommand tree) damaged by 0-4 edits (insert a spec-derived or hostile token, drop, duplicate, swap, truncate). Oracle: no panic; Err: kind/render/Display/Debug/context evaluate and obey the \
         exit contract; ignore_errors => Ok or DisplayHelp/DisplayVersion; Ok: walking ids/raw occurrences/indices/sources at every \
         level does not panic. Non-trivial: argv has >= 2 user tokens and the outcome is Ok or an error that is not about the first \
         token; distinct = distinct (spec, argv)."
            .into()
    }
    fn budget(&self, tier: Tier) -> Budget {
        Budget {
            cases: tier.pick(1_500_000, 40_000_000),
            tape_len: 4000,
        }
    }
    fn decode(&self, t: &mut Tape<'_>) -> ParseCase {
        let spec = gen_broad(t, &GenOpts::default());
        // 3/5 free-form lines, 2/5 well-formed lines with a few edits (deep states)
        let argv = if t.chance(2, 5) { gen_argv_hybrid(t, &spec) } else { gen_argv_broad(t, &spec) };
        ParseCase { spec, argv }
    }
    fn run(&self, case: &ParseCase, ctx: &mut Ctx) -> Verdict {
        run_parse_total(case, ctx)
    }
    fn json_shrinkable(&self) -> bool {
        true
    }
}

pub fn check() -> Check {
    Check {
        id: "C01",
        parts: vec![Box::new(Gen(Total))],
        assumptions: vec![
            "valid command = Command::build() does not hit one of clap's configuration assertions (debug assertions on)".into(),
            "termination is only observed as 'every generated case finished' (watchdog in ./check => exit 2, not a violation)".into(),
        ],
    }
}
