//! vcheck: one sub-command per property.

fn main() {
    vcore::main_for(vcheck::lookup)
}
