//! vcheck: one sub-command per property.

mod util;
mod c01;
mod c02;
mod c03;
mod c04;
mod c05;
mod c06;
mod c07;
mod c08;
mod c09;
mod c10;
mod c11;
mod c12;
mod c13;
mod c14;
mod c16;
mod c17;
mod c18;
mod c19;
mod c20;

fn main() {
    vcore::main_for(|id| match id {
        "C01" => Some(c01::check()),
        "C02" => Some(c02::check()),
        "C03" => Some(c03::check()),
        "C04" => Some(c04::check()),
        "C05" => Some(c05::check()),
        "C06" => Some(c06::check()),
        "C07" => Some(c07::check()),
        "C08" => Some(c08::check()),
        "C09" => Some(c09::check()),
        "C10" => Some(c10::check()),
        "C11" => Some(c11::check()),
        "C12" => Some(c12::check()),
        "C13" => Some(c13::check()),
        "C14" => Some(c14::check()),
        "C16" => Some(c16::check()),
        "C17" => Some(c17::check()),
        "C18" => Some(c18::check()),
        "C19" => Some(c19::check()),
        "C20" => Some(c20::check()),
        _ => None,
    })
}
