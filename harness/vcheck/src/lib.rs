//! vcheck: one module per property (C15 lives in vderive).

pub mod util;
pub mod hyph;
pub mod c01;
pub mod c02;
pub mod c03;
pub mod c04;
pub mod c05;
pub mod c06;
pub mod c07;
pub mod c08;
pub mod c09;
pub mod c10;
pub mod c11;
pub mod c12;
pub mod c13;
pub mod c14;
pub mod c16;
pub mod c17;
pub mod c18;
pub mod c19;
pub mod c20;

/// The check registered for a property id.
pub fn lookup(id: &str) -> Option<vcore::Check> {
    match id {
        "C01" => Some(c01::check()),
        "C02" => Some(c02::check()),
        "C03" => Some(c03::check()),
        "C04" => Some(c04::check()),
        "C05" => Some(c05::check()),
        "C06" => Some(c06::check()),
        "C07" => Some(c07::check()),
        "C08" => Some(c08::check()),
        "C09" => Some(c09::check()),
        "C10" => Some(c10::check()),
        "C11" => Some(c11::check()),
        "C12" => Some(c12::check()),
        "C13" => Some(c13::check()),
        "C14" => Some(c14::check()),
        "C16" => Some(c16::check()),
        "C17" => Some(c17::check()),
        "C18" => Some(c18::check()),
        "C19" => Some(c19::check()),
        "C20" => Some(c20::check()),
        _ => None,
    }
}
