//! C19 — Man pages always render, cover every visible item, and keep user text as text.

use crate::c12::has_token;
use serde::{Deserialize, Serialize};
use vcore::*;
use vmodel::gen::{gen_broad, GenOpts};
use vmodel::{build_checked, Built, CmdSpec, ParserSpec};

#[derive(Serialize, Deserialize, Hash, Clone, Debug)]
pub struct ManCase {
    /// base definition with innocuous texts (coverage is judged here)
    pub spec: CmdSpec,
    /// (slot path, adversarial text) substitutions applied on top of `spec`
    pub subst: Vec<(String, String)>,
    /// subcommand names of a line (`prog sub ...`) that the same `Command` value parses before the pages are rendered
    #[serde(default)]
    pub parsed_first: Option<Vec<String>>,
}

pub const ADVERSARIAL: &[&str] = &[
    ".SH INJECTED",
    "'br",
    ".",
    "'",
    "text\n.SH INJECTED\nmore",
    "text\n'sp\nmore",
    "a\\fBb",
    "\\",
    "trailing\\",
    "\\n",
    "\n.TH x",
    "line1\n\nline3",
    "",
    " ",
    "   \n  ",
    "-h --help -- -",
    "\"quoted\" 'single'",
    "...",
    ". leading dot space",
    "\r\n.PP",
    "tab\there",
    "\u{e9}\u{4e2d}\u{1f600}",
    "x\n",
    "\n",
    ".\n.\n.",
    "a\n'b",
];

/// Text slots that can be substituted, addressed by a path string.
fn slots(spec: &CmdSpec, prefix: &str, out: &mut Vec<String>) {
    for s in [
        "about", "long_about", "before_help", "after_help", "after_long_help", "author", "version", "long_version", "name",
        "display_name", "bin_name", "subcommand_help_heading", "subcommand_value_name",
    ] {
        out.push(format!("{prefix}{s}"));
    }
    if prefix.is_empty() {
        // metadata of the page itself, set on the `Man` value
        for s in ["man.title", "man.section", "man.date", "man.source", "man.manual"] {
            out.push(s.to_owned());
        }
    }
    for (i, a) in spec.args.iter().enumerate() {
        for s in ["help", "long_help", "value_name", "help_heading", "default", "env_name"] {
            out.push(format!("{prefix}arg{i}.{s}"));
        }
        if let ParserSpec::Possible(pvs) = &a.parser {
            for (j, _) in pvs.iter().enumerate() {
                out.push(format!("{prefix}arg{i}.pv{j}.help"));
                out.push(format!("{prefix}arg{i}.pv{j}.name"));
            }
        }
    }
    for (i, sc) in spec.subs.iter().enumerate() {
        out.push(format!("{prefix}sub{i}.about"));
        out.push(format!("{prefix}sub{i}.name"));
        let _ = sc;
    }
}

fn apply(spec: &mut CmdSpec, path: &str, text: &str) {
    let set = |o: &mut Option<String>| *o = Some(text.to_owned());
    if let Some(rest) = path.strip_prefix("arg") {
        let (idx, field) = rest.split_once('.').unwrap_or((rest, ""));
        let Ok(i) = idx.parse::<usize>() else { return };
        let Some(a) = spec.args.get_mut(i) else { return };
        if let Some(pv) = field.strip_prefix("pv") {
            let (j, f) = pv.split_once('.').unwrap_or((pv, ""));
            if let (Ok(j), ParserSpec::Possible(pvs)) = (j.parse::<usize>(), &mut a.parser) {
                if let Some(p) = pvs.get_mut(j) {
                    match f {
                        "help" => p.help = Some(text.to_owned()),
                        "name" => {
                            // keep defaults valid
                            if a.default_values.is_empty() && a.default_missing_values.is_empty() && a.default_value_ifs.is_empty() && a.env.is_none() {
                                p.name = text.to_owned()
                            }
                        }
                        _ => {}
                    }
                }
            }
            return;
        }
        match field {
            "help" => set(&mut a.help),
            "long_help" => set(&mut a.long_help),
            "value_name" => {
                if a.action.takes_values() {
                    a.value_names = vec![text.to_owned()]
                }
            }
            "help_heading" => a.help_heading = Some(Some(text.to_owned())),
            "default" => {
                if a.action.takes_values() && matches!(a.parser, ParserSpec::Str) && a.value_range().1 >= 1 {
                    a.default_values = vec![text.to_owned()]
                }
            }
            "env_name" => {
                if a.action.takes_values() && !text.is_empty() && !text.contains('=') && !text.contains('\0') {
                    a.env = Some((text.to_owned(), None))
                }
            }
            _ => {}
        }
        return;
    }
    if let Some(rest) = path.strip_prefix("sub") {
        let (idx, field) = rest.split_once('.').unwrap_or((rest, ""));
        let Ok(i) = idx.parse::<usize>() else { return };
        let Some(sc) = spec.subs.get_mut(i) else { return };
        match field {
            "about" => sc.about = Some(text.to_owned()),
            "name" => {
                if !text.is_empty() {
                    sc.name = text.to_owned()
                }
            }
            _ => {}
        }
        return;
    }
    match path {
        "about" => set(&mut spec.about),
        "long_about" => set(&mut spec.long_about),
        "before_help" => set(&mut spec.before_help),
        "after_help" => set(&mut spec.after_help),
        "after_long_help" => set(&mut spec.after_long_help),
        "author" => set(&mut spec.author),
        "version" => set(&mut spec.version),
        "long_version" => set(&mut spec.long_version),
        "name" => {
            if !text.is_empty() {
                spec.name = text.to_owned()
            }
        }
        "display_name" => set(&mut spec.display_name),
        "bin_name" => set(&mut spec.bin_name),
        "subcommand_help_heading" => set(&mut spec.subcommand_help_heading),
        "subcommand_value_name" => set(&mut spec.subcommand_value_name),
        _ => {}
    }
}

/// Innocuous text with the same line shape: non-blank lines become `x`, blank
/// lines and all line terminators are kept.
pub fn same_shape(text: &str) -> String {
    // distinct texts stay distinct (headings with equal text merge into one section)
    let tag = format!("x{:x}", vcore::fnv64(text.as_bytes()) & 0xffff);
    let mut out = String::new();
    for piece in text.split_inclusive('\n') {
        let (line, nl) = match piece.strip_suffix('\n') {
            Some(l) => (l, "\n"),
            None => (piece, ""),
        };
        let (line, cr) = match line.strip_suffix('\r') {
            Some(l) if !nl.is_empty() => (l, "\r"),
            _ => (line, ""),
        };
        if line.trim().is_empty() {
            out.push_str(line);
        } else {
            out.push_str(&tag);
        }
        out.push_str(cr);
        out.push_str(nl);
    }
    out
}

fn control_requests(page: &str) -> Vec<String> {
    page.lines()
        .filter(|l| l.starts_with('.') || l.starts_with('\''))
        .map(|l| l[1..].split_whitespace().next().unwrap_or("").to_owned())
        .collect()
}

fn render(cmd: &clap::Command) -> Result<String, PanicInfo> {
    render_meta(cmd, &[])
}

/// `meta`: page metadata set through the builder methods of `Man` after construction (`man.title`, `man.section`,
/// `man.date`, `man.source`, `man.manual`)
fn render_meta(cmd: &clap::Command, meta: &[(String, String)]) -> Result<String, PanicInfo> {
    catch(|| {
        let mut man = clap_mangen::Man::new(cmd.clone());
        for (k, v) in meta {
            man = match k.as_str() {
                "man.title" => man.title(v.clone()),
                "man.section" => man.section(v.clone()),
                "man.date" => man.date(v.clone()),
                "man.source" => man.source(v.clone()),
                "man.manual" => man.manual(v.clone()),
                _ => man,
            };
        }
        let mut buf = Vec::new();
        man.render(&mut buf).expect("writing to a Vec cannot fail");
        // individual sections must render too
        let mut sink = Vec::new();
        let _ = man.render_title(&mut sink);
        let _ = man.render_name_section(&mut sink);
        let _ = man.render_synopsis_section(&mut sink);
        let _ = man.render_description_section(&mut sink);
        let _ = man.render_options_section(&mut sink);
        let _ = man.render_subcommands_section(&mut sink);
        let _ = man.render_extra_section(&mut sink);
        let _ = man.render_authors_section(&mut sink);
        let _ = man.get_filename();
        String::from_utf8_lossy(&buf).into_owned()
    })
}

fn plain(page: &str) -> String {
    page.replace("\\fB", " ").replace("\\fI", " ").replace("\\fR", " ").replace("\\-", "-")
}

/// The page without its NAME / SYNOPSIS / DESCRIPTION sections: the listings.
fn listings(page: &str) -> String {
    let mut out = String::new();
    let mut keep = false;
    for line in page.lines() {
        if let Some(title) = line.strip_prefix(".SH ") {
            keep = !matches!(title.trim_matches('"'), "NAME" | "SYNOPSIS" | "DESCRIPTION");
        }
        if keep {
            out.push_str(line);
            out.push('\n');
        }
    }
    out
}

fn coverage(level: &CmdSpec, cmd: &clap::Command, page: &str, ctx: &mut Ctx) -> Verdict {
    let p = plain(page);
    // every visible argument has an entry in a listing section, not just a mention in the synopsis
    let lst = plain(&listings(page));
    let display = level.display_name.clone().unwrap_or_else(|| {
        cmd.get_display_name().map(|s| s.to_owned()).unwrap_or_else(|| level.name.clone())
    });
    // the SYNOPSIS section alone (hidden positionals have no dash to tell them from ordinary words elsewhere)
    let synopsis = {
        let mut out = String::new();
        let mut keep = false;
        for line in page.lines() {
            if let Some(title) = line.strip_prefix(".SH ") {
                keep = title.trim_matches('"') == "SYNOPSIS";
                continue;
            }
            if keep {
                out.push_str(line);
                out.push('\n');
            }
        }
        plain(&out)
    };
    for a in &level.args {
        if a.hide && a.is_positional() {
            let name = a.value_names.first().cloned().unwrap_or_else(|| a.id.clone());
            // words that the synopsis holds for other reasons
            let mut legit: Vec<String> = vec![level.name.clone(), display.clone()];
            legit.extend(cmd.get_bin_name().map(|s| s.to_owned()));
            legit.extend(level.subcommand_value_name.clone());
            legit.extend(level.subcommand_help_heading.clone());
            for o in level.args.iter().filter(|o| !o.hide) {
                legit.extend(o.long.clone());
                legit.push(o.id.clone());
                legit.extend(o.value_names.iter().cloned());
            }
            let clash = legit.iter().any(|l| l.split(|c: char| !(c.is_alphanumeric() || c == '_' || c == '-')).any(|w| w == name) || has_token(l, &name));
            if !clash && !name.is_empty() {
                ensure!(
                    !has_token(&synopsis, &name),
                    "man:hidden-positional-shown",
                    "hidden positional {:?} appears in the synopsis of {:?}\n{}",
                    name,
                    level.name,
                    page
                );
                ctx.label("man:hidden-positional-checked");
            }
        }
        if a.hide {
            if let Some(l) = &a.long {
                let visible_same = level.args.iter().any(|o| !o.hide && (o.long.as_ref() == Some(l)));
                if !visible_same {
                    ensure!(
                        !has_token(&p, &format!("--{l}")),
                        "man:hidden-arg-shown",
                        "hidden argument --{} appears in the page of {:?}\n{}",
                        l,
                        level.name,
                        page
                    );
                    ctx.label("man:hidden-arg-checked");
                }
            }
            continue;
        }
        if let Some(l) = &a.long {
            ensure!(
                has_token(&p, &format!("--{l}")),
                "man:option-missing",
                "--{} does not appear in the page of {:?}\n{}",
                l,
                level.name,
                page
            );
            ensure!(
                has_token(&lst, &format!("--{l}")),
                "man:option-not-listed",
                "--{} is named in the synopsis only, it has no entry in the option listings of {:?}\n{}",
                l,
                level.name,
                page
            );
        }
        if let Some(s) = a.short {
            ensure!(
                has_token(&p, &format!("-{s}")),
                "man:option-missing",
                "-{} does not appear in the page of {:?}\n{}",
                s,
                level.name,
                page
            );
            ensure!(
                has_token(&lst, &format!("-{s}")),
                "man:option-not-listed",
                "-{} is named in the synopsis only, it has no entry in the option listings of {:?}\n{}",
                s,
                level.name,
                page
            );
        }
        if a.is_positional() {
            let name = a.value_names.first().cloned().unwrap_or_else(|| a.id.clone());
            ensure!(
                has_token(&p, &name),
                "man:positional-missing",
                "positional {:?} does not appear in the page of {:?}\n{}",
                name,
                level.name,
                page
            );
        }
    }
    for sc in &level.subs {
        let entry = format!("{}-{}(1)", display, sc.name);
        if sc.hide {
            ensure!(
                !contains_entry(&p, &entry),
                "man:hidden-subcommand-shown",
                "hidden subcommand entry {:?} appears in the page of {:?}\n{}",
                entry,
                level.name,
                page
            );
            ctx.label("man:hidden-subcommand-checked");
        } else {
            ensure!(
                contains_entry(&p, &entry),
                "man:subcommand-missing",
                "subcommand entry {:?} does not appear in the page of {:?}\n{}",
                entry,
                level.name,
                page
            );
        }
    }
    Verdict::Pass
}

/// `entry` ("prog-sub(1)") occurs as a whole word: not as the tail of a longer name ("prog-x-sub(1)" / "su[b-one(1)]")
fn contains_entry(page: &str, entry: &str) -> bool {
    let mut from = 0;
    while let Some(i) = page[from..].find(entry) {
        let at = from + i;
        let before = page[..at].chars().next_back();
        if !before.map(|c| c.is_alphanumeric() || c == '-' || c == '_').unwrap_or(false) {
            return true;
        }
        from = at + entry.len().max(1);
        if from >= page.len() {
            break;
        }
    }
    false
}

fn twin_of(spec: &CmdSpec, subst: &[(String, String)]) -> (CmdSpec, CmdSpec) {
    let mut adv = spec.clone();
    let mut twin = spec.clone();
    for (path, text) in subst {
        apply(&mut adv, path, text);
        let mut t = same_shape(text);
        // identifiers must stay non-empty when the adversarial one is
        if t.is_empty() && !text.is_empty() {
            t = "x".into();
        }
        apply(&mut twin, path, &t);
    }
    (adv, twin)
}

pub struct Man;

pub fn run_man(case: &ManCase, ctx: &mut Ctx) -> Verdict {
    match build_checked(&case.spec) {
        Built::Ok(_) => {}
        Built::Invalid(_) => return Verdict::Discard("invalid-config"),
        Built::Panic(p) => return Verdict::Fail(Failure::from_panic(&p)),
    }
    // ---- base: no panic, deterministic, coverage at every level
    let mut root = case.spec.to_clap();
    // (a multicall command renames itself when it parses: what its pages are called afterwards is not this property's business)
    if let Some(line) = case.parsed_first.as_ref().filter(|_| !case.spec.settings.multicall) {
        // (the outcome of the parse is C01's business; the definition must still render afterwards)
        let argv: Vec<String> = if case.spec.settings.no_binary_name { line.clone() } else { std::iter::once("prog".to_owned()).chain(line.iter().cloned()).collect() };
        let _ = catch(std::panic::AssertUnwindSafe(|| root.try_get_matches_from_mut(argv).map(|_| ()).map_err(|_| ())));
        ctx.label("rendered-after-a-parse");
    }
    root.build();
    fn walk(level: &CmdSpec, cmd: &clap::Command, ctx: &mut Ctx) -> Verdict {
        let page = match render(cmd) {
            Ok(p) => p,
            Err(p) => {
                return Verdict::fail(
                    p.signature(),
                    format!("Man::render for {:?} panicked at {}:{}: {}", level.name, p.file, p.line, p.message),
                )
            }
        };
        let again = render(cmd).unwrap_or_default();
        ensure!(page == again, "man:non-deterministic", "two renders of {:?} differ", level.name);
        if let Verdict::Fail(f) = coverage(level, cmd, &page, ctx) {
            return Verdict::Fail(f);
        }
        for sc in &level.subs {
            if let Some(sub) = cmd.find_subcommand(&sc.name) {
                if let Verdict::Fail(f) = walk(sc, sub, ctx) {
                    return Verdict::Fail(f);
                }
            }
        }
        Verdict::Pass
    }
    if let Verdict::Fail(f) = walk(&case.spec, &root, ctx) {
        return Verdict::Fail(f);
    }
    // ---- adversarial text: same control lines as the innocuous twin
    if !case.subst.is_empty() {
        let (adv, twin) = twin_of(&case.spec, &case.subst);
        let (a_cmd, t_cmd) = match (build_checked(&adv), build_checked(&twin)) {
            (Built::Ok(a), Built::Ok(t)) => (a, t),
            (Built::Panic(p), _) | (_, Built::Panic(p)) => return Verdict::Fail(Failure::from_panic(&p)),
            _ => return Verdict::Discard("invalid-config-after-substitution"),
        };
        let meta = |subst: &[(String, String)], twin: bool| -> Vec<(String, String)> {
            subst
                .iter()
                .filter(|(k, _)| k.starts_with("man."))
                .map(|(k, v)| (k.clone(), if twin { same_shape(v) } else { v.clone() }))
                .collect()
        };
        let pa = match render_meta(&a_cmd, &meta(&case.subst, false)) {
            Ok(p) => p,
            Err(p) => {
                return Verdict::fail(
                    p.signature(),
                    format!("Man::render with adversarial text panicked at {}:{}: {}", p.file, p.line, p.message),
                )
            }
        };
        let pt = match render_meta(&t_cmd, &meta(&case.subst, true)) {
            Ok(p) => p,
            Err(p) => return Verdict::Fail(Failure::from_panic(&p)),
        };
        let (ca, ct) = (control_requests(&pa), control_requests(&pt));
        if ca != ct {
            // which slots can be blamed: re-render with each substitution alone
            let mut culprits = Vec::new();
            for s in &case.subst {
                let (a1, t1) = twin_of(&case.spec, std::slice::from_ref(s));
                if let (Built::Ok(a1), Built::Ok(t1)) = (build_checked(&a1), build_checked(&t1)) {
                    let one = std::slice::from_ref(s);
                    if let (Ok(x), Ok(y)) = (render_meta(&a1, &meta(one, false)), render_meta(&t1, &meta(one, true))) {
                        if control_requests(&x) != control_requests(&y) {
                            culprits.push(slot_class(&s.0));
                        }
                    }
                }
            }
            culprits.sort();
            culprits.dedup();
            let sig = if culprits.is_empty() {
                "man:control-lines-differ".to_owned()
            } else {
                format!("man:control-lines-differ:{}", culprits.join("+"))
            };
            return Verdict::fail(
                sig,
                format!(
                    "substitutions {:?}: control requests {:?} but with innocuous text of the same shape {:?}\n--- page ---\n{}",
                    case.subst, ca, ct, pa
                ),
            );
        }
        for (path, text) in &case.subst {
            let special = text.contains("\n.") || text.contains("\n'") || text.starts_with('.') || text.starts_with('\'') || text.contains('\\');
            if special {
                ctx.label_owned(format!("adv-slot:{}", slot_class(path)));
                ctx.nontrivial();
            }
        }
    }
    if case.spec.subs.iter().any(|s| !s.hide) && case.spec.args.iter().any(|a| !a.hide) {
        ctx.label("page-with-options-and-subcommands");
    }
    Verdict::Pass
}

fn slot_class(path: &str) -> String {
    // arg3.help -> arg.help, sub1.name -> sub.name
    let mut out = String::new();
    for c in path.chars() {
        if !c.is_ascii_digit() {
            out.push(c);
        }
    }
    out
}

impl Property for Man {
    type Case = ManCase;
    fn name(&self) -> &'static str {
        "man"
    }
    fn rule(&self) -> String {
        "broad command trees (hidden args/subcommands, headings, possible values with help, defaults, env, versions, authors) with plain \
         texts; plus 0-4 substitutions of adversarial strings (leading . or ', lines starting with . or ' after a newline, backslashes \
         incl. trailing, \\fB, empty, blank, CRLF, quotes, non-ASCII) into any text slot: about, long_about, before/after help, author, \
         version, long_version, command/display/bin names, subcommand heading/value name, arg help/long_help/value name/heading/default/\
         env name, possible-value name/help, subcommand name/about. Oracle: Man::render and every render_*_section return without panic at \
         every level, two renders are identical, every visible --long/-s/positional name/`name-sub(1)` entry occurs and hidden ones do \
         not (judged on the plain-text base); with substitutions the sequence of request names of lines starting with . or ' equals that \
         of the page rendered with innocuous text of the same line shape. Non-trivial: a substituted text has a line starting with . or ' \
         (also after a newline) or a backslash; distinct = distinct (spec, substitutions)."
            .into()
    }
    fn budget(&self, tier: Tier) -> Budget {
        Budget {
            cases: tier.pick(300_000, 10_000_000),
            tape_len: 5000,
        }
    }
    fn decode(&self, t: &mut Tape<'_>) -> ManCase {
        let opts = GenOpts {
            help_surface: true,
            ignore_errors: false,
            max_depth: 3,
            ..GenOpts::default()
        };
        let mut spec = gen_broad(t, &opts);
        spec.help_template = None;
        if spec.version.is_none() && t.bool() {
            spec.version = Some("1.2.3".into());
        }
        if t.bool() {
            spec.author = Some("An Author <a@b.c>".into());
        }
        let mut all = Vec::new();
        slots(&spec, "", &mut all);
        let n = t.weighted(&[1, 4, 4, 3, 2]);
        let mut subst = Vec::new();
        for _ in 0..n {
            let path = t.pick(&all).clone();
            let text = (*t.pick(ADVERSARIAL)).to_owned();
            subst.push((path, text));
        }
        // a quarter of the cases render from a definition that has already parsed a line walking down the tree
        let parsed_first = if t.chance(1, 4) {
            let mut line = Vec::new();
            let mut level = &spec;
            while !level.subs.is_empty() && !t.chance(1, 4) {
                let sc = &level.subs[t.choose(level.subs.len())];
                line.push(sc.name.clone());
                level = sc;
            }
            Some(line)
        } else {
            None
        };
        ManCase { spec, subst, parsed_first }
    }
    fn run(&self, case: &ManCase, ctx: &mut Ctx) -> Verdict {
        run_man(case, ctx)
    }
    fn json_shrinkable(&self) -> bool {
        true
    }
}

pub fn check() -> Check {
    Check {
        id: "C19",
        parts: vec![Box::new(Gen(Man))],
        assumptions: vec![
            "control line = output line starting with '.' or the apostrophe; only the request names are compared (arguments of .TH/.SH \
             legitimately contain author text)"
                .into(),
            "coverage is judged on pages rendered from plain pool texts so that names are unambiguous tokens".into(),
            "the twin keeps every line terminator and every blank line, which is what decides the generator's own .PP / per-line structure".into(),
        ],
    }
}
