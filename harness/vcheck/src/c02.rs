//! C02 — Every argv token is attributed exactly once, per the documented grammar.

use crate::util::os;
use serde::{Deserialize, Serialize};
use vcore::*;
use vmodel::conv::*;
use vmodel::observe::observe;
use vmodel::{build_checked, Built, CmdSpec};

#[derive(Serialize, Deserialize, Hash, Clone, Debug)]
pub struct AttrCase {
    pub spec: CmdSpec,
    pub inv: Invocation,
    /// None: the invocation had no unambiguous spelling
    #[serde(with = "opt_argv")]
    pub argv: Option<Vec<Vec<u8>>>,
    pub cluster_entry: Vec<bool>,
    /// spelling features used (for the class histogram)
    pub features: Vec<String>,
}

pub mod opt_argv {
    use serde::{Deserialize, Deserializer, Serialize, Serializer};
    pub fn serialize<S: Serializer>(v: &Option<Vec<Vec<u8>>>, s: S) -> Result<S::Ok, S::Error> {
        v.as_ref()
            .map(|a| a.iter().map(|b| vcore::show_bytes(b)).collect::<Vec<_>>())
            .serialize(s)
    }
    pub fn deserialize<'de, D: Deserializer<'de>>(d: D) -> Result<Option<Vec<Vec<u8>>>, D::Error> {
        let v = Option::<Vec<String>>::deserialize(d)?;
        match v {
            None => Ok(None),
            Some(v) => v
                .iter()
                .map(|s| vmodel::conv::vals_hex::decode(s).map_err(serde::de::Error::custom))
                .collect::<Result<Vec<_>, _>>()
                .map(Some),
        }
    }
}

pub fn features_of(st: &SpellStats) -> Vec<String> {
    let mut f = Vec::new();
    for (on, name) in [
        (st.cluster, "cluster"),
        (st.attached, "attached-value"),
        (st.delim_joined, "delimiter-joined"),
        (st.terminator, "terminator"),
        (st.alias, "alias"),
        (st.prefix, "inferred-prefix"),
        (st.flag_subcommand, "flag-subcommand"),
        (st.equals_form, "equals-form"),
        (st.variable_opt_before_pos, "variable-count-option-then-positional"),
    ] {
        if on {
            f.push(name.to_owned());
        }
    }
    f
}

pub fn decode_case(t: &mut Tape<'_>, co: &ConvOpts, io: &InvOpts) -> AttrCase {
    let spec = gen_conv_spec(t, co);
    let inv = gen_invocation(t, &spec, io);
    let mut st = SpellStats::default();
    let sp = spell(t, &spec, &inv, &mut st);
    let (argv, cluster_entry) = match sp {
        Some(s) => (Some(s.argv), s.cluster_entry),
        None => (None, vec![]),
    };
    AttrCase {
        spec,
        inv,
        argv,
        cluster_entry,
        features: features_of(&st),
    }
}

pub struct Attribution;

pub fn run_attr(case: &AttrCase, ctx: &mut Ctx) -> Verdict {
    let Some(argv) = &case.argv else {
        return Verdict::Discard("no-unambiguous-spelling");
    };
    let cmd = match build_checked(&case.spec) {
        Built::Ok(c) => c,
        // conventional trees are valid by construction: the library's configuration check refusing one is a failure
        Built::Invalid(p) => {
            return Verdict::fail(
                "attribution:valid-definition-refused",
                format!("a definition that is valid by construction is refused by the configuration check at {}:{}: {}", p.file, p.line, p.message),
            )
        }
        Built::Panic(p) => return Verdict::Fail(Failure::from_panic(&p)),
    };
    let Some(exp) = expect(&case.spec, &case.inv, &case.cluster_entry) else {
        return Verdict::Discard("invocation-outside-model");
    };
    let shown: Vec<String> = argv.iter().map(|a| show_bytes(a)).collect();
    let m = match catch(|| cmd.try_get_matches_from(argv.iter().map(|b| os(b)))) {
        Err(p) => return Verdict::Fail(Failure::from_panic(&p)),
        Ok(Err(e)) => {
            return Verdict::fail(
                format!("attribution:valid-line-rejected:{:?}", e.kind()),
                format!("argv {:?} spells the invocation {:?} and breaks no rule, but clap says: {}", shown, case.inv, e),
            )
        }
        Ok(Ok(m)) => m,
    };
    let obs = observe(&m);
    if let Err((sig, msg)) = compare_explicit(&case.spec, &exp, &obs, true) {
        return Verdict::fail(sig, format!("argv {:?}: {}\ninvocation {:?}", shown, msg, case.inv));
    }
    let nocc: usize = case.inv.levels.iter().map(|l| l.occs.len()).sum();
    for f in &case.features {
        ctx.label_owned(format!("spelling:{f}"));
    }
    if case.inv.levels.len() > 1 {
        ctx.label("with-subcommand");
    }
    if case.inv.levels.iter().any(|l| l.occs.iter().any(|o| matches!(o, Occ::Escape))) {
        ctx.label("with-escape");
    }
    if nocc >= 3 && !case.features.is_empty() {
        ctx.nontrivial();
    }
    Verdict::Pass
}

impl Property for Attribution {
    type Case = AttrCase;
    fn name(&self) -> &'static str {
        "attribution"
    }
    fn rule(&self) -> String {
        "conventional command trees (flags SetTrue/SetFalse/Count, Set/Append options with num_args 1, 0..=1, 1.., 0.., 2, 1..=3, \
         delimiters, terminators, require_equals, default_missing, aliases and short aliases, string and OS-string values, positionals \
         in index order with an optional trailing multi / `last` positional (Set or Append), subcommands with aliases and long/short flag \
         forms, optional inference; no hyphen-value settings, no globals) x intended invocations (sequences of flag / option / positional \
         occurrences, optional `--`, optional subcommand chain) x one spelling chosen among the equivalent documented forms \
         (--long, alias, unambiguous prefix, -s, cluster, cluster ending in an option, --l=v, --l v, -sv, -s=v, -s v, delimiter-joined \
         token, terminator, subcommand by name/alias/prefix/long flag/short flag/-Sab). Oracle: the parse succeeds and, per level, the \
         ids reported with source CommandLine are exactly the supplied ones, their raw values grouped per occurrence equal the intended \
         values (flattened for interleaved Append positionals), the logical indices equal the documented ones (every switch and value \
         consumes one), and the subcommand chain is the intended one. Non-trivial: >= 3 occurrences and at least one of {cluster, \
         attached value, delimiter join, terminator, alias, prefix, flag subcommand}; distinct = distinct (spec, invocation, argv)."
            .into()
    }
    fn budget(&self, tier: Tier) -> Budget {
        Budget {
            cases: tier.pick(2_000_000, 30_000_000),
            tape_len: 2000,
        }
    }
    fn decode(&self, t: &mut Tape<'_>) -> AttrCase {
        let co = ConvOpts {
            typed_parsers: true,
            positional_terminators: true,
            ..ConvOpts::default()
        };
        decode_case(t, &co, &InvOpts::default())
    }
    fn run(&self, case: &AttrCase, ctx: &mut Ctx) -> Verdict {
        run_attr(case, ctx)
    }
}

pub fn check() -> Check {
    Check {
        id: "C02",
        parts: vec![Box::new(Gen(Attribution)), Box::new(Gen(crate::hyph::HyphenLines { name: "hyphen-positional-attribution" }))],
        assumptions: vec![
            "the expected observation is computed from the intended invocation by the rules documented on Arg / ArgMatches \
             (index_of/indices_of, ArgAction, value_delimiter, value_terminator, default_missing_value), never by parsing argv"
                .into(),
            "spellings are only generated where the documented grammar is unambiguous: separated values never start with '-' (except \
             '-'), an option left open is followed by something that closes it, positional values before `--` never look like flags \
             or subcommands"
                .into(),
            "split counts stay inside num_args (the library checks num_args before splitting, the model does not rely on a rejection)".into(),
        ],
    }
}
