//! Small helpers shared by the property modules.

use std::ffi::OsString;

pub const BOUNDARY_ALPHABET: &[u8] = &[b'-', b'=', b'a', b'1', b'.', b'e', b' ', 0xC3, 0xA9, 0xE4, 0xFF, 0x80];

#[cfg(unix)]
pub fn os(b: &[u8]) -> OsString {
    use std::os::unix::ffi::OsStringExt;
    OsString::from_vec(b.to_vec())
}

/// All strings of length 0..=maxlen over `alphabet`, those whose running index
/// is congruent to `shard` modulo `nshards`.
pub fn enumerate_strings(
    alphabet: &[u8],
    maxlen: usize,
    shard: usize,
    nshards: usize,
    visit: &mut dyn FnMut(&[u8]) -> bool,
) {
    let k = alphabet.len() as u64;
    let mut global: u64 = 0;
    let mut buf = Vec::with_capacity(maxlen);
    for len in 0..=maxlen {
        let count = k.pow(len as u32);
        // first index of this length that belongs to the shard
        let mut i = {
            let r = (global % nshards as u64) as usize;
            ((shard + nshards - r) % nshards) as u64
        };
        while i < count {
            buf.clear();
            let mut x = i;
            for _ in 0..len {
                buf.push(alphabet[(x % k) as usize]);
                x /= k;
            }
            if !visit(&buf) {
                return;
            }
            i += nshards as u64;
        }
        global += count;
    }
}

/// serde adaptor: bytes as a readable escaped string (printable ASCII kept,
/// everything else `\xNN`, backslash doubled).
pub mod bytes_hex {
    use serde::{Deserialize, Deserializer, Serializer};
    pub fn encode(b: &[u8]) -> String {
        vcore::show_bytes(b)
    }
    pub fn decode(s: &str) -> Result<Vec<u8>, String> {
        let b = s.as_bytes();
        let mut out = Vec::new();
        let mut i = 0;
        while i < b.len() {
            if b[i] == b'\\' {
                if i + 1 < b.len() && b[i + 1] == b'\\' {
                    out.push(b'\\');
                    i += 2;
                } else if i + 3 < b.len() && b[i + 1] == b'x' {
                    let h = std::str::from_utf8(&b[i + 2..i + 4]).map_err(|e| e.to_string())?;
                    out.push(u8::from_str_radix(h, 16).map_err(|e| e.to_string())?);
                    i += 4;
                } else {
                    return Err(format!("bad escape at {i} in {s:?}"));
                }
            } else {
                out.push(b[i]);
                i += 1;
            }
        }
        Ok(out)
    }
    pub fn serialize<S: Serializer>(b: &Vec<u8>, s: S) -> Result<S::Ok, S::Error> {
        s.serialize_str(&encode(b))
    }
    pub fn deserialize<'de, D: Deserializer<'de>>(d: D) -> Result<Vec<u8>, D::Error> {
        let s = String::deserialize(d)?;
        decode(&s).map_err(serde::de::Error::custom)
    }
}

/// serde adaptor for Vec<Vec<u8>> (argv)
pub mod argv_hex {
    use serde::ser::SerializeSeq;
    use serde::{Deserialize, Deserializer, Serializer};
    pub fn serialize<S: Serializer>(v: &Vec<Vec<u8>>, s: S) -> Result<S::Ok, S::Error> {
        let mut seq = s.serialize_seq(Some(v.len()))?;
        for b in v {
            seq.serialize_element(&super::bytes_hex::encode(b))?;
        }
        seq.end()
    }
    pub fn deserialize<'de, D: Deserializer<'de>>(d: D) -> Result<Vec<Vec<u8>>, D::Error> {
        let v = Vec::<String>::deserialize(d)?;
        v.iter()
            .map(|s| super::bytes_hex::decode(s).map_err(serde::de::Error::custom))
            .collect()
    }
}
