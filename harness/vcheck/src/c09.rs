//! C09 — Subcommand dispatch follows argv, and global arguments agree at every level.

use crate::util::os;
use serde::{Deserialize, Serialize};
use vcore::*;
use vmodel::conv::*;
use vmodel::observe::{observe, LevelObs, Source};
use vmodel::{build_checked, Action, ArgSpec, Built, CmdSpec, ParserSpec};

#[derive(Serialize, Deserialize, Hash, Clone, Debug)]
pub struct DispatchCase {
    /// what clap is given (globals only where they are defined)
    pub spec: CmdSpec,
    pub inv: Invocation,
    pub argv: Vec<String>,
    pub cluster_entry: Vec<bool>,
    /// external subcommand appended after the spelled invocation: name + raw tokens
    pub external: Option<Vec<String>>,
}

pub struct Dispatch;

fn dec(v: &[String]) -> Vec<Vec<u8>> {
    v.iter().map(|s| vals_hex::decode(s).unwrap_or_else(|_| s.as_bytes().to_vec())).collect()
}

const G_LONGS: &[&str] = &["glob-a", "glob-b", "gverb", "gcolor"];
const G_SHORTS: &[char] = &['G', 'H', 'J', 'K'];

fn add_globals(t: &mut Tape<'_>, c: &mut CmdSpec, next: &mut usize) {
    while *next < G_LONGS.len() && t.chance(1, 2) {
        let k = *next;
        *next += 1;
        let mut a = ArgSpec {
            id: format!("g{k}"),
            long: Some(G_LONGS[k].to_owned()),
            short: if t.bool() { Some(G_SHORTS[k]) } else { None },
            global: true,
            ..Default::default()
        };
        a.action = *t.pick(&[Action::Set, Action::Append, Action::Count, Action::SetTrue]);
        if a.action.takes_values() {
            if t.chance(1, 2) {
                a.default_values = vec![format!("gd{k}")];
            }
            if t.chance(1, 4) {
                a.env = Some((format!("VERIF_C09_G{k}"), if t.chance(2, 3) { Some(format!("ge{k}")) } else { None }));
            }
            if a.action == Action::Append && t.chance(1, 3) {
                a.num_args = Some((1, usize::MAX));
            }
        }
        c.args.insert(0, a);
    }
    for s in &mut c.subs {
        add_globals(t, s, next);
    }
}

fn add_flag_aliases(t: &mut Tape<'_>, c: &mut CmdSpec) {
    let mut shorts = vec!['T', 'U', 'W', 'Y'];
    let mut longs = vec!["lf-one", "lf-two", "lf-three"];
    for sc in &mut c.subs {
        if t.chance(1, 3) && !longs.is_empty() {
            let l = longs.remove(0);
            sc.long_flag_aliases.push((l.to_owned(), t.bool()));
            // sometimes an alias without a primary long flag
            if t.chance(1, 3) {
                sc.long_flag = None;
            }
        }
        if t.chance(1, 3) && !shorts.is_empty() {
            let s = shorts.remove(0);
            sc.short_flag_aliases.push((s, t.bool()));
            if t.chance(1, 3) {
                sc.short_flag = None;
            }
        }
        add_flag_aliases(t, sc);
    }
}

/// The definition with every global copied into all descendants (what each level accepts).
fn effective(spec: &CmdSpec) -> CmdSpec {
    fn rec(c: &CmdSpec, inherited: &[ArgSpec]) -> CmdSpec {
        let mut out = c.clone();
        let mut down: Vec<ArgSpec> = inherited.to_vec();
        down.extend(c.args.iter().filter(|a| a.global).cloned());
        for g in inherited {
            out.args.insert(0, g.clone());
        }
        out.subs = c.subs.iter().map(|s| rec(s, &down)).collect();
        out
    }
    rec(spec, &[])
}

#[derive(PartialEq, Eq, PartialOrd, Ord, Clone, Copy, Debug)]
enum Strength {
    Default,
    Env,
    CommandLine,
}

fn split(vals: &[String], d: Option<char>) -> Vec<Vec<u8>> {
    let mut out = Vec::new();
    for v in vals {
        match d {
            Some(d) if v.contains(d) => out.extend(v.split(d).map(|p| p.as_bytes().to_vec())),
            _ => out.push(v.as_bytes().to_vec()),
        }
    }
    out
}

impl Property for Dispatch {
    type Case = DispatchCase;
    fn name(&self) -> &'static str {
        "dispatch-and-globals"
    }
    fn rule(&self) -> String {
        "conventional command trees of depth <= 3 with subcommand aliases, long/short flag subcommands and flag aliases (also aliases \
         without a primary flag), an external-subcommand level with string or OS-string values, up to 4 global arguments (Set, \
         Append, Count, SetTrue; with/without defaults and env) defined at any level with tree-wide unique ids, and ordinary arguments \
         whose ids repeat across levels x intended invocations that may give each global at any subset of the levels at or below its \
         definition (repeats for Append/Count), spelled freely incl. -Sab clusters x optionally an external subcommand with arbitrary \
         following tokens. Oracle: the reported subcommand chain equals the intended chain in canonical names; an external subcommand \
         reports its name and every following token verbatim; every level's non-global command-line arguments equal the expectation \
         computed against that level's own definition; each global, at every level of the chain at or below its definition, has the \
         values and the source of the occurrence of the deepest level among those with the strongest origin (command line > env > \
         default); indices of propagated values are not compared. Non-trivial: depth >= 2 and a global given at a level other than \
         where it is read, or a flag-subcommand spelling, or an external subcommand; distinct = distinct (spec, invocation, argv)."
            .into()
    }
    fn budget(&self, tier: Tier) -> Budget {
        Budget {
            cases: tier.pick(1_000_000, 15_000_000),
            tape_len: 2500,
        }
    }
    fn decode(&self, t: &mut Tape<'_>) -> DispatchCase {
        let co = ConvOpts {
            max_depth: 3,
            low_index_multi: true,
            ..ConvOpts::default()
        };
        let mut spec = gen_conv_spec(t, &co);
        if !spec.subs.is_empty() && t.chance(1, 8) {
            // a user-defined subcommand called `help` (the generated one switched off): an ordinary subcommand,
            // globals reach it like any other
            fn no_help(c: &mut CmdSpec) {
                c.settings.disable_help_subcommand = true;
                for s in &mut c.subs {
                    no_help(s);
                }
            }
            no_help(&mut spec);
            let k = t.choose(spec.subs.len());
            spec.subs[k].name = "help".to_owned();
        }
        let mut next = 0;
        add_globals(t, &mut spec, &mut next);
        add_flag_aliases(t, &mut spec);
        let eff = effective(&spec);
        let inv = gen_invocation(t, &eff, &InvOpts::default());
        let mut st = SpellStats::default();
        let (mut argv, cluster_entry): (Vec<String>, Vec<bool>) = match spell(t, &eff, &inv, &mut st) {
            Some(sp) => (sp.argv.iter().map(|b| show_bytes(b)).collect(), sp.cluster_entry),
            None => (Vec::new(), Vec::new()),
        };
        // an external subcommand at the deepest level reached, if nothing positional can take its name
        let mut external = None;
        if !argv.is_empty() && t.chance(1, 4) {
            let mut path: Vec<String> = Vec::new();
            for lv in &inv.levels {
                if let Some(n) = &lv.sub {
                    path.push(n.clone());
                }
            }
            fn at<'a>(c: &'a mut CmdSpec, path: &[String]) -> Option<&'a mut CmdSpec> {
                match path.split_first() {
                    None => Some(c),
                    Some((h, rest)) => at(c.subs.iter_mut().find(|s| s.name == *h)?, rest),
                }
            }
            let last = inv.levels.last();
            let escaped = last.map(|l| l.occs.iter().any(|o| matches!(o, Occ::Escape))).unwrap_or(false);
            let open_opt = last
                .and_then(|l| l.occs.last())
                .map(|o| matches!(o, Occ::Opt { .. }))
                .unwrap_or(false);
            if let Some(level) = at(&mut spec, &path) {
                let no_pos = !level.args.iter().any(|a| a.is_positional());
                if no_pos && !escaped && !open_opt {
                    level.settings.allow_external_subcommands = true;
                    level.settings.external_os = t.bool();
                    let os_vals = level.settings.external_os;
                    let mut toks: Vec<String> = vec![t.pick_s(&["ext-cmd", "zz", "x.y", "\u{e9}xt"]).to_owned()];
                    for _ in 0..t.range(0, 5) {
                        let mut pool: Vec<Vec<u8>> = vec![
                            b"--help".to_vec(),
                            b"-h".to_vec(),
                            b"--".to_vec(),
                            b"".to_vec(),
                            b"v".to_vec(),
                            b"--glob-a=1".to_vec(),
                            b"-G".to_vec(),
                            b"sub".to_vec(),
                            b"a b".to_vec(),
                        ];
                        if os_vals {
                            pool.push(vec![0xff, b'x']);
                        }
                        let v: &Vec<u8> = t.pick(&pool[..]);
                        toks.push(show_bytes(v));
                    }
                    argv.extend(toks.iter().cloned());
                    external = Some(toks);
                }
            }
        }
        DispatchCase {
            spec,
            inv,
            argv,
            cluster_entry,
            external,
        }
    }
    fn run(&self, case: &DispatchCase, ctx: &mut Ctx) -> Verdict {
        if case.argv.is_empty() {
            return Verdict::Discard("no-unambiguous-spelling");
        }
        let cmd = match build_checked(&case.spec) {
            Built::Ok(c) => c,
            Built::Invalid(_) => return Verdict::Discard("invalid-config"),
            Built::Panic(p) => return Verdict::Fail(Failure::from_panic(&p)),
        };
        let eff = effective(&case.spec);
        let Some(Expected::Ok(exp)) = expect_seq(&eff, &case.inv, &case.cluster_entry) else {
            return Verdict::Discard("invocation-outside-model");
        };
        let argv = dec(&case.argv);
        let m = match catch(|| cmd.try_get_matches_from(argv.iter().map(|b| os(b)))) {
            Err(p) => return Verdict::Fail(Failure::from_panic(&p)),
            Ok(Err(e)) => {
                return Verdict::fail(
                    format!("dispatch:valid-line-rejected:{:?}", e.kind()),
                    format!("argv {:?} spells {:?} (external: {:?}) but clap says: {}", case.argv, case.inv, case.external, e),
                )
            }
            Ok(Ok(m)) => m,
        };
        let obs = observe(&m);
        // ---- chain (+ external at the end)
        let mut want_chain: Vec<String> = case.inv.levels.iter().filter_map(|l| l.sub.clone()).collect();
        if let Some(ext) = &case.external {
            want_chain.push(String::from_utf8_lossy(&dec(&ext[..1])[0]).into_owned());
        }
        let got_chain = obs.chain();
        ensure!(
            got_chain == want_chain,
            "dispatch:wrong-chain",
            "argv {:?}: intended subcommand chain {:?}, clap reports {:?}",
            case.argv,
            want_chain,
            got_chain
        );
        if let Some(ext) = &case.external {
            let lvl = obs.level(want_chain.len()).unwrap();
            let rest = dec(&ext[1..]);
            let got = lvl.arg("").map(|a| a.flat()).unwrap_or_default();
            ensure!(
                got == rest,
                "dispatch:external-args-not-verbatim",
                "argv {:?}: external subcommand arguments {:?}, clap reports {:?}",
                case.argv,
                ext[1..].to_vec(),
                got.iter().map(|v| show_bytes(v)).collect::<Vec<_>>()
            );
            ctx.label("external-subcommand");
        }
        // ---- non-global arguments per level, against that level's definition
        // (compare_explicit also checks the chain of the defined subcommands)
        let mut exp_defined = exp.clone();
        if case.external.is_some() {
            // the external level is not part of the model's levels: cut the observation there
        }
        let obs_cut = cut_external(&obs, exp_defined.len());
        if let Some(last) = exp_defined.last_mut() {
            last.sub = None;
        }
        if let Err((sig, msg)) = compare_explicit_opts(&case.spec, &exp_defined, &obs_cut, true, true) {
            return Verdict::fail(sig.replace("attribution:", "dispatch:level-"), format!("argv {:?}: {}\ninvocation {:?}", case.argv, msg, case.inv));
        }
        // ---- globals
        let mut def_level_spec: Vec<&CmdSpec> = vec![&case.spec];
        {
            let mut c = &case.spec;
            for lv in &case.inv.levels {
                if let Some(n) = &lv.sub {
                    match c.subs.iter().find(|s| s.name == *n) {
                        Some(s) => {
                            c = s;
                            def_level_spec.push(s);
                        }
                        None => break,
                    }
                }
            }
        }
        let mut global_elsewhere = false;
        for (d, lvspec) in def_level_spec.iter().enumerate() {
            for g in lvspec.args.iter().filter(|a| a.global) {
                // local origin at every level at or below d
                let mut best: Option<(Strength, Vec<Vec<u8>>, usize)> = None;
                for l in d..exp.len() {
                    let local: Option<(Strength, Vec<Vec<u8>>)> = if let Some(e) = exp[l].args.get(&g.id) {
                        Some((Strength::CommandLine, e.occurrences.iter().flatten().cloned().collect()))
                    } else if let Some((_, Some(v))) = &g.env {
                        Some((Strength::Env, if g.action.takes_values() { split(&[v.clone()], g.value_delimiter) } else { vec![v.as_bytes().to_vec()] }))
                    } else if !g.default_values.is_empty() {
                        Some((Strength::Default, split(&g.default_values, g.value_delimiter)))
                    } else {
                        match g.action {
                            Action::SetTrue => Some((Strength::Default, vec![b"false".to_vec()])),
                            Action::Count => Some((Strength::Default, vec![b"0".to_vec()])),
                            _ => None,
                        }
                    };
                    if let Some((s, v)) = local {
                        if best.as_ref().map(|b| s >= b.0).unwrap_or(true) {
                            best = Some((s, v, l));
                        }
                    }
                }
                for l in d..exp.len() {
                    let lo = obs.level(l);
                    let got = lo.and_then(|o| o.arg(&g.id));
                    match (&best, got) {
                        (None, None) => {}
                        (None, Some(a)) => {
                            if a.source.is_some() {
                                return Verdict::fail(
                                    "globals:invented",
                                    format!("argv {:?}: global {:?} was never given and has no default, level {l} reports {:?}", case.argv, g.id, a),
                                );
                            }
                        }
                        (Some((s, v, from)), got) => {
                            let want_src = match s {
                                Strength::CommandLine => Source::CommandLine,
                                Strength::Env => Source::Env,
                                Strength::Default => Source::Default,
                            };
                            let ok = got.map(|a| a.source == Some(want_src.clone()) && a.flat() == *v).unwrap_or(false);
                            if !ok {
                                return Verdict::fail(
                                    "globals:level-disagrees",
                                    format!(
                                        "argv {:?}: global {:?} (defined at level {d}) should everywhere be {:?} from {:?} (level {from}); level {l} reports {:?}",
                                        case.argv,
                                        g.id,
                                        v.iter().map(|x| show_bytes(x)).collect::<Vec<_>>(),
                                        s,
                                        got.map(|a| (a.source.clone(), show_occ(&a.occurrences)))
                                    ),
                                );
                            }
                            if *s == Strength::CommandLine && *from != l {
                                global_elsewhere = true;
                            }
                        }
                    }
                }
            }
        }
        let _ = ParserSpec::Str;
        let depth = want_chain.len();
        let flag_sub = case.argv.iter().skip(1).any(|t| {
            // a token that is a flag spelling of a subcommand on the path
            fn flags(c: &CmdSpec, out: &mut Vec<String>) {
                for s in &c.subs {
                    if let Some(l) = &s.long_flag {
                        out.push(format!("--{l}"));
                    }
                    out.extend(s.long_flag_aliases.iter().map(|x| format!("--{}", x.0)));
                    if let Some(f) = s.short_flag {
                        out.push(format!("-{f}"));
                    }
                    out.extend(s.short_flag_aliases.iter().map(|x| format!("-{}", x.0)));
                    flags(s, out);
                }
            }
            let mut fl = Vec::new();
            flags(&case.spec, &mut fl);
            fl.iter().any(|f| t == f || (f.len() == 2 && t.starts_with(f.as_str()) && !t.starts_with("--")))
        });
        if global_elsewhere {
            ctx.label("global-read-at-another-level");
        }
        if flag_sub {
            ctx.label("flag-subcommand-spelling");
        }
        if depth >= 2 {
            ctx.label("depth>=2");
        }
        if (depth >= 1 && global_elsewhere) || flag_sub || case.external.is_some() {
            ctx.nontrivial();
        }
        Verdict::Pass
    }
}

/// The observation limited to the first `n` levels (an external subcommand below is judged separately).
fn cut_external(obs: &LevelObs, n: usize) -> LevelObs {
    fn rec(o: &LevelObs, left: usize) -> LevelObs {
        let mut c = o.clone();
        if left <= 1 {
            c.sub = None;
        } else if let Some((name, s)) = &o.sub {
            c.sub = Some((name.clone(), Box::new(rec(s, left - 1))));
        }
        c
    }
    rec(obs, n)
}

// ---------------------------------------------------------------------------
// long flag subcommands next to a hyphen-accepting positional

/// "Known flags get precedence over the next possible positional argument with allow_hyphen_values(true)"
/// (Arg::allow_hyphen_values): a long flag subcommand (or its alias) is dispatched, it is not taken as the value of
/// a positional that is still unfilled and accepts hyphen values.
#[derive(Serialize, Deserialize, Hash, Clone, Debug)]
pub struct HyphenCase {
    pub spec: CmdSpec,
    pub argv: Vec<String>,
    /// the chain the line names
    pub chain: Vec<String>,
    /// value given to the root positional before the flags, if any
    pub positional: Option<String>,
}

pub struct FlagSubVsHyphenPositional;

impl Property for FlagSubVsHyphenPositional {
    type Case = HyphenCase;
    fn name(&self) -> &'static str {
        "long-flag-subcommand-vs-hyphen-positional"
    }
    fn rule(&self) -> String {
        "small trees whose root (and sometimes the first subcommand) has an optional positional with allow_hyphen_values(true) (single, or \
         multi-value and then left unfilled; never `last`), 0-2 plain long flags and 1-3 subcommands that have a long flag and sometimes a \
         long-flag alias, one of them with a nested long-flag subcommand x lines written only in `--long` forms: optional positional \
         value, some of the level's flags, then the subcommand by `--<long flag>` or `--<alias>`, its flags, optionally the nested one. \
         Oracle: the parse succeeds, the reported chain is the named chain, the flags of every level are as given and the positional \
         holds exactly what was written for it (nothing when it was left out). non-trivial = the positional is unfilled when the flag \
         subcommand is named; distinct = distinct (spec, argv)"
            .into()
    }
    fn budget(&self, tier: Tier) -> Budget {
        Budget { cases: tier.pick(150_000, 3_000_000), tape_len: 200 }
    }
    fn decode(&self, t: &mut Tape<'_>) -> HyphenCase {
        let flag = |id: &str, long: &str| ArgSpec { id: id.to_owned(), long: Some(long.to_owned()), action: Action::SetTrue, ..Default::default() };
        let hyphen_pos = |t: &mut Tape<'_>| {
            let multi = t.bool();
            ArgSpec {
                id: "input".to_owned(),
                allow_hyphen_values: true,
                num_args: Some(if multi { (1, usize::MAX) } else { (1, 1) }),
                ..Default::default()
            }
        };
        let mut root = CmdSpec { name: "prog".to_owned(), term_width: Some(80), ..Default::default() };
        let root_pos = hyphen_pos(t);
        let root_multi = root_pos.value_range().1 > 1;
        root.args.push(root_pos);
        let all_flags = [("f0", "alpha"), ("f1", "beta")];
        let nflags = t.range(0, 2);
        for (id, l) in all_flags.iter().take(nflags) {
            root.args.push(flag(id, l));
        }
        let names = [("sync", "sync", "synchronize"), ("query", "query", "ask"), ("remove", "rm-all", "erase")];
        let nsubs = t.range(1, 3);
        for (i, (n, lf, al)) in names.iter().take(nsubs).enumerate() {
            let mut sc = CmdSpec { name: (*n).to_owned(), long_flag: Some((*lf).to_owned()), ..Default::default() };
            if t.bool() {
                sc.long_flag_aliases.push(((*al).to_owned(), t.bool()));
            }
            sc.args.push(flag("deep", "deep"));
            if i == 0 && t.bool() {
                if t.bool() {
                    sc.args.push(hyphen_pos(t));
                }
                let mut leaf = CmdSpec { name: "leaf".to_owned(), long_flag: Some("leaf-flag".to_owned()), ..Default::default() };
                leaf.args.push(flag("tip", "tip"));
                sc.subs.push(leaf);
            }
            root.subs.push(sc);
        }
        // the line
        let mut argv = vec!["prog".to_owned()];
        let positional = if !root_multi && t.chance(1, 3) {
            let v = t.pick_s(&["v", "-x", "--unknown-word", "-"]).to_owned();
            argv.push(v.clone());
            Some(v)
        } else {
            None
        };
        for (_, l) in all_flags.iter().take(nflags) {
            if t.bool() {
                argv.push(format!("--{l}"));
            }
        }
        let k = t.choose(root.subs.len());
        let sc = &root.subs[k];
        let mut chain = vec![sc.name.clone()];
        let mut forms = vec![sc.long_flag.clone().unwrap()];
        forms.extend(sc.long_flag_aliases.iter().map(|a| a.0.clone()));
        argv.push(format!("--{}", t.pick(&forms)));
        if t.bool() {
            argv.push("--deep".to_owned());
        }
        if let Some(leaf) = sc.subs.first() {
            if t.bool() {
                argv.push("--leaf-flag".to_owned());
                chain.push(leaf.name.clone());
                if t.bool() {
                    argv.push("--tip".to_owned());
                }
            }
        }
        HyphenCase { spec: root, argv, chain, positional }
    }
    fn run(&self, case: &HyphenCase, ctx: &mut Ctx) -> Verdict {
        let cmd = match build_checked(&case.spec) {
            Built::Ok(c) => c,
            Built::Invalid(_) => return Verdict::Discard("invalid-config"),
            Built::Panic(p) => return Verdict::Fail(Failure::from_panic(&p)),
        };
        let m = match catch(|| cmd.try_get_matches_from(case.argv.iter())) {
            Err(p) => return Verdict::Fail(Failure::from_panic(&p)),
            Ok(Err(e)) => {
                return Verdict::fail(
                    format!("dispatch:hyphen-positional:valid-line-rejected:{:?}", e.kind()),
                    format!("argv {:?} names the chain {:?} by long flags: {}", case.argv, case.chain, e.to_string().lines().next().unwrap_or("")),
                )
            }
            Ok(Ok(m)) => m,
        };
        let obs = observe(&m);
        let chain: Vec<String> = obs.chain().iter().map(|s| s.to_string()).collect();
        ensure!(
            chain == case.chain,
            "dispatch:hyphen-positional:chain-differs",
            "argv {:?}: named chain {:?}, reported chain {:?} (root positional: {:?})",
            case.argv,
            case.chain,
            chain,
            m.get_raw("input").map(|v| v.map(|x| x.to_string_lossy().into_owned()).collect::<Vec<_>>())
        );
        let got: Option<Vec<String>> = m.get_raw("input").map(|v| v.map(|x| x.to_string_lossy().into_owned()).collect());
        let want: Option<Vec<String>> = case.positional.clone().map(|v| vec![v]);
        ensure!(
            got == want,
            "dispatch:hyphen-positional:positional-differs",
            "argv {:?}: the root positional holds {:?}, written for it: {:?}",
            case.argv,
            got,
            want
        );
        if case.positional.is_none() {
            ctx.nontrivial();
        }
        ctx.label(if case.chain.len() > 1 { "nested-long-flag-subcommand" } else { "long-flag-subcommand" });
        Verdict::Pass
    }
}

// ------------------------------------------------------------ what follows a short flag subcommand inside its group

/// `-S<rest>`: the rest of the group belongs to the subcommand's level, all of it.
#[derive(Serialize, Deserialize, Hash, Clone, Debug)]
pub struct TailCase {
    /// the subcommand is named through its short flag alias
    pub via_alias: bool,
    /// flags of the sub level written after the letter (indices into y, v, q)
    pub flags: Vec<u8>,
    /// bytes after the flags: nothing, an undefined letter, or bytes that are not UTF-8
    #[serde(with = "crate::util::bytes_hex")]
    pub tail: Vec<u8>,
    /// further tokens of the sub level
    pub more: Vec<String>,
}

pub struct FlagClusterTail;

impl Property for FlagClusterTail {
    type Case = TailCase;
    fn name(&self) -> &'static str {
        "flag-subcommand-group-tail"
    }
    fn rule(&self) -> String {
        "prog with a subcommand `sync` (short flag -S, short flag alias -Y) whose level defines the flags -y, -v (Count), -q x lines \
         `prog -S<flags><tail> [more flags]` where <flags> are 0-3 letters of the sub level and <tail> is empty, an undefined letter, or \
         1-2 bytes that are not UTF-8. Oracle: the chain is [sync] and the flags are exactly the written ones when the tail is empty; \
         with any other tail the line is rejected (the rest of the group is parsed against the subcommand's level, every byte of it): \
         never accepted with the tail dropped. Non-trivial: a non-empty tail, or flags after the letter."
            .into()
    }
    fn budget(&self, tier: Tier) -> Budget {
        Budget { cases: tier.pick(50_000, 500_000), tape_len: 32 }
    }
    fn decode(&self, t: &mut Tape<'_>) -> TailCase {
        let via_alias = t.chance(1, 3);
        let flags = (0..t.range(0, 3)).map(|_| t.choose(3) as u8).collect();
        let tail = match t.weighted(&[3, 2, 2, 1]) {
            0 => vec![],
            1 => vec![*t.pick(&[b'z', b'Z', b'0'])],
            2 => vec![*t.pick(&[0xff, 0x80, 0xc3])],
            _ => vec![0xff, 0xfe],
        };
        let more = (0..t.range(0, 2)).map(|_| (*t.pick(&["-y", "-v", "-q", "-vv"])).to_owned()).collect();
        TailCase { via_alias, flags, tail, more }
    }
    fn run(&self, case: &TailCase, ctx: &mut Ctx) -> Verdict {
        use clap::{Arg, ArgAction, Command};
        let cmd = Command::new("prog").subcommand(
            Command::new("sync")
                .short_flag('S')
                .short_flag_alias('Y')
                .arg(Arg::new("y").short('y').action(ArgAction::Count))
                .arg(Arg::new("v").short('v').action(ArgAction::Count))
                .arg(Arg::new("q").short('q').action(ArgAction::Count)),
        );
        let letters = [b'y', b'v', b'q'];
        let mut group = vec![b'-', if case.via_alias { b'Y' } else { b'S' }];
        group.extend(case.flags.iter().map(|i| letters[*i as usize % 3]));
        group.extend(case.tail.iter().copied());
        let mut argv = vec![os(b"prog"), os(&group)];
        argv.extend(case.more.iter().map(|s| os(s.as_bytes())));
        let mut shown: Vec<String> = vec!["prog".to_owned(), show_bytes(&group)];
        shown.extend(case.more.iter().cloned());
        let res = match catch(|| cmd.try_get_matches_from(argv.clone())) {
            Err(p) => return Verdict::Fail(Failure::from_panic(&p)),
            Ok(r) => r,
        };
        let mut want = [0u64; 3];
        for i in &case.flags {
            want[*i as usize % 3] += 1;
        }
        for tok in &case.more {
            for c in tok.bytes().skip(1) {
                if let Some(i) = letters.iter().position(|l| *l == c) {
                    want[i] += 1;
                }
            }
        }
        match res {
            Ok(m) => {
                ensure!(
                    case.tail.is_empty(),
                    "dispatch:group-tail-dropped",
                    "argv {:?}: the group holds {:?} after the sub level's flags, which that level does not define, yet the line is accepted (chain {:?})",
                    shown,
                    show_bytes(&case.tail),
                    m.subcommand_name()
                );
                let Some(("sync", sm)) = m.subcommand() else {
                    return Verdict::fail("dispatch:wrong-chain", format!("argv {:?}: chain {:?}, expected [sync]", shown, m.subcommand_name()));
                };
                for (i, id) in ["y", "v", "q"].iter().enumerate() {
                    let got = sm.get_count(id) as u64;
                    ensure!(
                        got == want[i],
                        "dispatch:group-flag-count",
                        "argv {:?}: -{} counted {} times at the sync level, written {} times",
                        shown,
                        id,
                        got,
                        want[i]
                    );
                }
            }
            Err(e) => {
                ensure!(
                    !case.tail.is_empty(),
                    "dispatch:valid-group-rejected",
                    "argv {:?}: every letter after the flag subcommand is a flag of its level, but clap says: {}",
                    shown,
                    e.to_string().lines().next().unwrap_or("")
                );
                ctx.label("tail-rejected");
            }
        }
        if !case.tail.is_empty() || !case.flags.is_empty() {
            ctx.nontrivial();
        }
        Verdict::Pass
    }
}

pub fn check() -> Check {
    Check {
        id: "C09",
        parts: vec![Box::new(Gen(Dispatch)), Box::new(Gen(FlagSubVsHyphenPositional)), Box::new(Gen(FlagClusterTail))],
        assumptions: vec![
            "global ids are unique in the tree (a descendant defining its own argument under a global's id is a configuration the \
             documentation does not describe)"
                .into(),
            "the level that allows external subcommands has no positionals (otherwise the unknown word is a positional value first)".into(),
            "indices of global values are not compared: they belong to the level that parsed them".into(),
        ],
    }
}
