//! C17 — Descriptive text can never change the structure of a generated script.

use crate::c16::{completion_spec, gen_script, SHELLS};
use serde::{Deserialize, Serialize};
use vcore::*;
use vmodel::{build_checked, Built, CmdSpec, ParserSpec};

#[derive(Serialize, Deserialize, Hash, Clone, Debug)]
pub struct TextCase {
    pub spec: CmdSpec,
    pub bin: String,
    /// (slot path, adversarial text)
    pub subst: Vec<(String, String)>,
}

pub const HOSTILE: &[&str] = &[
    "it's",
    "say \"hi\"",
    "a'b\"c",
    "back\\slash",
    "trailing\\",
    "\\'",
    "$(touch /tmp/verif-canary)",
    "`touch /tmp/verif-canary`",
    "${HOME}",
    "$HOME",
    "[x] (y) {z} <w>",
    "a:b:c,d",
    "# not a comment",
    "; rm -rf x",
    "| pipe & amp",
    "line1\nline2",
    "line1\n'; echo x; '",
    "cr\rlf",
    "tab\there",
    "\u{2018}left \u{2019}right",
    "\u{201a}low \u{201b}rev",
    "\u{201c}dq\u{201d} \u{201e}low",
    "'\u{2019}",
    "-leading-dash",
    "--help",
    "\u{e9}\u{4e2d}\u{1f600}",
    "'",
    "\"",
    "''",
    "\"\"",
    "')",
    "\")",
    "]",
    "\\n",
    "%s %d",
    "!history",
    "<#",
    "#>",
    "`",
    "$",
    "$(",
    "x\n# y",
    "x\n]\n",
];

/// Single special characters / sequences (for composed hostile texts).
pub const ATOMS: &[&str] = &[
    "'", "\"", "\\", "`", "$", "$(", ")", "${", "}", "[", "]", "(", "<", ">", ":", ",", ";", "|", "&", "#", "!", "%", "*", "?", "~", "=", "\n", "\r",
    "\t", "\u{2018}", "\u{2019}", "\u{201a}", "\u{201b}", "\u{201c}", "\u{201d}", "\u{201e}", "\u{201f}", "\u{ab}", "\u{bb}", "\u{2032}", "--", "<#",
    "#>", "@", "^",
];

/// Descriptive text slots, addressed by path.
fn slots(c: &CmdSpec, prefix: &str, out: &mut Vec<String>) {
    out.push(format!("{prefix}about"));
    out.push(format!("{prefix}long_about"));
    for (i, a) in c.args.iter().enumerate() {
        out.push(format!("{prefix}arg{i}.help"));
        out.push(format!("{prefix}arg{i}.long_help"));
        if let ParserSpec::Possible(pvs) = &a.parser {
            for j in 0..pvs.len() {
                out.push(format!("{prefix}arg{i}.pv{j}.help"));
            }
        }
    }
    for (i, s) in c.subs.iter().enumerate() {
        slots(s, &format!("{prefix}sub{i}/"), out);
    }
}

fn apply(c: &mut CmdSpec, path: &str, text: &str) {
    if let Some(rest) = path.strip_prefix("sub") {
        if let Some((idx, tail)) = rest.split_once('/') {
            if let Ok(i) = idx.parse::<usize>() {
                if let Some(s) = c.subs.get_mut(i) {
                    apply(s, tail, text);
                }
            }
            return;
        }
    }
    let val = if text.is_empty() { None } else { Some(text.to_owned()) };
    match path {
        "about" => c.about = val,
        "long_about" => c.long_about = val,
        _ => {
            if let Some(rest) = path.strip_prefix("arg") {
                let (idx, field) = rest.split_once('.').unwrap_or((rest, ""));
                let Ok(i) = idx.parse::<usize>() else { return };
                let Some(a) = c.args.get_mut(i) else { return };
                if let Some(pv) = field.strip_prefix("pv") {
                    let (j, _) = pv.split_once('.').unwrap_or((pv, ""));
                    if let (Ok(j), ParserSpec::Possible(pvs)) = (j.parse::<usize>(), &mut a.parser) {
                        if let Some(p) = pvs.get_mut(j) {
                            p.help = val;
                        }
                    }
                } else if field == "help" {
                    a.help = val;
                } else if field == "long_help" {
                    a.long_help = val;
                }
            }
        }
    }
}

fn slot_class(path: &str) -> String {
    let last = path.rsplit('/').next().unwrap_or(path);
    last.chars().filter(|c| !c.is_ascii_digit()).collect()
}

const LIT: char = '\u{1}';

fn collapse(s: &str) -> String {
    let mut out = String::new();
    let mut prev_lit = false;
    for c in s.chars() {
        if c == LIT {
            if !prev_lit {
                out.push('\u{a7}');
            }
            prev_lit = true;
        } else {
            prev_lit = false;
            out.push(c);
        }
    }
    out
}

/// bash / zsh: single quotes (no escapes), double quotes (backslash escapes, `$`/backtick expansion
/// points kept), `$'..'`, backslash escapes, comments; everything else verbatim.
fn posix_skeleton(src: &str) -> Result<String, String> {
    let cs: Vec<char> = src.chars().collect();
    let mut out = String::new();
    let mut i = 0;
    let mut at_token_start = true;
    while i < cs.len() {
        let c = cs[i];
        match c {
            '\'' => {
                let mut j = i + 1;
                while j < cs.len() && cs[j] != '\'' {
                    j += 1;
                }
                if j >= cs.len() {
                    return Err(format!("unterminated single quote at char {i}"));
                }
                out.push(LIT);
                i = j + 1;
                at_token_start = false;
            }
            '"' => {
                let mut j = i + 1;
                let mut closed = false;
                out.push(LIT);
                while j < cs.len() {
                    match cs[j] {
                        '\\' => j += 2,
                        '"' => {
                            closed = true;
                            j += 1;
                            break;
                        }
                        '$' | '`' => {
                            // an expansion point inside the string is structure
                            out.push(cs[j]);
                            let mut k = j + 1;
                            while k < cs.len() && (cs[k].is_alphanumeric() || "_{}[]@(#?!*-".contains(cs[k])) {
                                out.push(cs[k]);
                                k += 1;
                            }
                            out.push(LIT);
                            j = k;
                        }
                        _ => j += 1,
                    }
                }
                if !closed {
                    return Err(format!("unterminated double quote at char {i}"));
                }
                i = j;
                at_token_start = false;
            }
            '$' if i + 1 < cs.len() && cs[i + 1] == '\'' => {
                let mut j = i + 2;
                while j < cs.len() && cs[j] != '\'' {
                    if cs[j] == '\\' {
                        j += 1;
                    }
                    j += 1;
                }
                if j >= cs.len() {
                    return Err(format!("unterminated $'..' at char {i}"));
                }
                out.push(LIT);
                i = j + 1;
                at_token_start = false;
            }
            '\\' => {
                if i + 1 < cs.len() && cs[i + 1] == '\n' {
                    out.push(' ');
                } else {
                    out.push(LIT);
                }
                i += 2;
                at_token_start = false;
            }
            '#' if at_token_start => {
                while i < cs.len() && cs[i] != '\n' {
                    i += 1;
                }
                out.push('#');
            }
            _ => {
                out.push(c);
                at_token_start = c.is_whitespace() || c == ';' || c == '(' || c == '|' || c == '&';
                i += 1;
            }
        }
    }
    Ok(collapse(&out))
}

fn fish_skeleton(src: &str) -> Result<String, String> {
    let cs: Vec<char> = src.chars().collect();
    let mut out = String::new();
    let mut i = 0;
    let mut at_token_start = true;
    while i < cs.len() {
        let c = cs[i];
        match c {
            '\'' => {
                let mut j = i + 1;
                let mut closed = false;
                while j < cs.len() {
                    if cs[j] == '\\' && j + 1 < cs.len() && (cs[j + 1] == '\'' || cs[j + 1] == '\\') {
                        j += 2;
                    } else if cs[j] == '\'' {
                        closed = true;
                        j += 1;
                        break;
                    } else {
                        j += 1;
                    }
                }
                if !closed {
                    return Err(format!("unterminated single quote at char {i}"));
                }
                out.push(LIT);
                i = j;
                at_token_start = false;
            }
            '"' => {
                let mut j = i + 1;
                let mut closed = false;
                out.push(LIT);
                while j < cs.len() {
                    match cs[j] {
                        '\\' if j + 1 < cs.len() && "\"$\\\n".contains(cs[j + 1]) => j += 2,
                        '"' => {
                            closed = true;
                            j += 1;
                            break;
                        }
                        '$' => {
                            // variable or command substitution: structure
                            out.push('$');
                            let mut k = j + 1;
                            while k < cs.len() && (cs[k].is_alphanumeric() || cs[k] == '_' || cs[k] == '(') {
                                out.push(cs[k]);
                                k += 1;
                            }
                            out.push(LIT);
                            j = k;
                        }
                        _ => j += 1,
                    }
                }
                if !closed {
                    return Err(format!("unterminated double quote at char {i}"));
                }
                i = j;
                at_token_start = false;
            }
            '\\' => {
                if i + 1 < cs.len() && cs[i + 1] == '\n' {
                    out.push(' ');
                } else {
                    out.push(LIT);
                }
                i += 2;
                at_token_start = false;
            }
            '#' if at_token_start => {
                while i < cs.len() && cs[i] != '\n' {
                    i += 1;
                }
                out.push('#');
            }
            _ => {
                out.push(c);
                at_token_start = c.is_whitespace() || c == ';' || c == '(' || c == '|' || c == '&';
                i += 1;
            }
        }
    }
    Ok(collapse(&out))
}

fn is_ps_sq(c: char) -> bool {
    matches!(c, '\'' | '\u{2018}' | '\u{2019}' | '\u{201a}' | '\u{201b}')
}
fn is_ps_dq(c: char) -> bool {
    matches!(c, '"' | '\u{201c}' | '\u{201d}' | '\u{201e}')
}

fn powershell_skeleton(src: &str) -> Result<String, String> {
    let cs: Vec<char> = src.chars().collect();
    let mut out = String::new();
    let mut i = 0;
    let mut at_token_start = true;
    while i < cs.len() {
        let c = cs[i];
        if is_ps_sq(c) {
            let mut j = i + 1;
            let mut closed = false;
            while j < cs.len() {
                if is_ps_sq(cs[j]) {
                    if j + 1 < cs.len() && is_ps_sq(cs[j + 1]) {
                        j += 2;
                        continue;
                    }
                    closed = true;
                    j += 1;
                    break;
                }
                j += 1;
            }
            if !closed {
                return Err(format!("unterminated single-quoted string at char {i}"));
            }
            out.push(LIT);
            i = j;
            at_token_start = false;
        } else if is_ps_dq(c) {
            let mut j = i + 1;
            let mut closed = false;
            out.push(LIT);
            while j < cs.len() {
                if cs[j] == '`' {
                    j += 2;
                } else if is_ps_dq(cs[j]) {
                    if j + 1 < cs.len() && is_ps_dq(cs[j + 1]) {
                        j += 2;
                        continue;
                    }
                    closed = true;
                    j += 1;
                    break;
                } else if cs[j] == '$' {
                    out.push('$');
                    let mut k = j + 1;
                    while k < cs.len() && (cs[k].is_alphanumeric() || "_({:".contains(cs[k])) {
                        out.push(cs[k]);
                        k += 1;
                    }
                    out.push(LIT);
                    j = k;
                } else {
                    j += 1;
                }
            }
            if !closed {
                return Err(format!("unterminated double-quoted string at char {i}"));
            }
            i = j;
            at_token_start = false;
        } else if c == '<' && i + 1 < cs.len() && cs[i + 1] == '#' {
            let mut j = i + 2;
            while j + 1 < cs.len() && !(cs[j] == '#' && cs[j + 1] == '>') {
                j += 1;
            }
            out.push('#');
            i = j + 2;
        } else if c == '#' && at_token_start {
            while i < cs.len() && cs[i] != '\n' {
                i += 1;
            }
            out.push('#');
        } else if c == '`' {
            out.push(LIT);
            i += 2;
            at_token_start = false;
        } else {
            out.push(c);
            at_token_start = c.is_whitespace() || "({;|,=".contains(c);
            i += 1;
        }
    }
    Ok(collapse(&out))
}

fn elvish_skeleton(src: &str) -> Result<String, String> {
    let cs: Vec<char> = src.chars().collect();
    let mut out = String::new();
    let mut i = 0;
    let mut at_token_start = true;
    while i < cs.len() {
        let c = cs[i];
        match c {
            '\'' => {
                let mut j = i + 1;
                let mut closed = false;
                while j < cs.len() {
                    if cs[j] == '\'' {
                        if j + 1 < cs.len() && cs[j + 1] == '\'' {
                            j += 2;
                            continue;
                        }
                        closed = true;
                        j += 1;
                        break;
                    }
                    j += 1;
                }
                if !closed {
                    return Err(format!("unterminated single quote at char {i}"));
                }
                out.push(LIT);
                i = j;
                at_token_start = false;
            }
            '"' => {
                let mut j = i + 1;
                let mut closed = false;
                while j < cs.len() {
                    if cs[j] == '\\' {
                        j += 2;
                    } else if cs[j] == '"' {
                        closed = true;
                        j += 1;
                        break;
                    } else {
                        j += 1;
                    }
                }
                if !closed {
                    return Err(format!("unterminated double quote at char {i}"));
                }
                out.push(LIT);
                i = j;
                at_token_start = false;
            }
            '#' if at_token_start => {
                while i < cs.len() && cs[i] != '\n' {
                    i += 1;
                }
                out.push('#');
            }
            _ => {
                out.push(c);
                at_token_start = c.is_whitespace() || "({[;|".contains(c);
                i += 1;
            }
        }
    }
    Ok(collapse(&out))
}

fn nushell_skeleton(src: &str) -> Result<String, String> {
    let cs: Vec<char> = src.chars().collect();
    let mut out = String::new();
    let mut i = 0;
    let mut at_token_start = true;
    while i < cs.len() {
        let c = cs[i];
        match c {
            '\'' | '`' => {
                let mut j = i + 1;
                while j < cs.len() && cs[j] != c {
                    j += 1;
                }
                if j >= cs.len() {
                    return Err(format!("unterminated {c} string at char {i}"));
                }
                out.push(LIT);
                i = j + 1;
                at_token_start = false;
            }
            '"' => {
                let mut j = i + 1;
                let mut closed = false;
                while j < cs.len() {
                    if cs[j] == '\\' {
                        j += 2;
                    } else if cs[j] == '"' {
                        closed = true;
                        j += 1;
                        break;
                    } else {
                        j += 1;
                    }
                }
                if !closed {
                    return Err(format!("unterminated double quote at char {i}"));
                }
                out.push(LIT);
                i = j;
                at_token_start = false;
            }
            '#' if at_token_start => {
                while i < cs.len() && cs[i] != '\n' {
                    i += 1;
                }
                out.push('#');
            }
            _ => {
                out.push(c);
                at_token_start = c.is_whitespace() || "([{;|".contains(c);
                i += 1;
            }
        }
    }
    Ok(collapse(&out))
}

pub fn skeleton(shell: &str, script: &str) -> Result<String, String> {
    match shell {
        "bash" | "zsh" => posix_skeleton(script),
        "fish" => fish_skeleton(script),
        "powershell" => powershell_skeleton(script),
        "elvish" => elvish_skeleton(script),
        _ => nushell_skeleton(script),
    }
}

fn variants(spec: &CmdSpec, subst: &[(String, String)]) -> (CmdSpec, CmdSpec) {
    let mut adv = spec.clone();
    let mut twin = spec.clone();
    for (path, text) in subst {
        apply(&mut adv, path, text);
        apply(&mut twin, path, if text.is_empty() { "" } else { "x" });
    }
    (adv, twin)
}

/// None = same structure; Some(description) = differs
fn differs(shell: &str, cmd_adv: &clap::Command, cmd_twin: &clap::Command, bin: &str) -> Result<Option<String>, PanicInfo> {
    let s1 = gen_script(shell, cmd_adv, bin)?;
    let s0 = gen_script(shell, cmd_twin, bin)?;
    if shell == "bash" {
        // bash emits no descriptive text at all
        return Ok(if s0 == s1 { None } else { Some("the bash script changes with the descriptive text".into()) });
    }
    let k0 = match skeleton(shell, &s0) {
        Ok(k) => k,
        Err(e) => return Ok(Some(format!("the script with innocuous text does not lex: {e}"))),
    };
    match skeleton(shell, &s1) {
        Err(e) => Ok(Some(format!("with the hostile text the script no longer lexes: {e}"))),
        Ok(k1) => {
            if k0 == k1 {
                Ok(None)
            } else {
                // first differing line for the message
                let (a, b): (Vec<&str>, Vec<&str>) = (k0.lines().collect(), k1.lines().collect());
                let at = a.iter().zip(b.iter()).position(|(x, y)| x != y).unwrap_or(a.len().min(b.len()));
                Ok(Some(format!(
                    "token structure differs at skeleton line {}:\n  innocuous: {:?}\n  hostile:   {:?}",
                    at + 1,
                    a.get(at),
                    b.get(at)
                )))
            }
        }
    }
}

pub struct Text;

impl Property for Text {
    type Case = TextCase;
    fn name(&self) -> &'static str {
        "script-structure"
    }
    fn rule(&self) -> String {
        "command trees for completion (as C16; names, aliases and value names innocuous) x 1-4 substitutions of hostile strings (both \
         quote kinds, typographic quotes U+2018-201E, backslashes incl. trailing, $(..), ${x}, backticks, brackets, parens, colons, commas, \
         #, ;, |, &, newlines, CR, tabs, leading dashes, non-ASCII, PowerShell comment markers) into the descriptive slots of any level \
         (command about / long_about, argument help / long_help, possible-value help) x six generators. Oracle (metamorphic): the script \
         generated with the hostile text and the one generated with innocuous text of the same emptiness are reduced to skeletons by a \
         lexer written from each shell's quoting rules (bash/zsh: '..', \"..\" with expansion points, $'..', backslash escapes, comments; \
         fish: '..' with \\' \\\\, \"..\" with \\\" \\$ \\\\ and $ expansion points; PowerShell: '..' with '' where U+2018/2019/201A/201B \
         also quote, \"..\" incl. U+201C-201E with backtick escapes and $ points, # and <# #>; elvish: '..' with '', \"..\" with \\ \
         escapes; nushell: '..', \"..\", backtick strings, # comments) in which runs of literal segments collapse to one marker; the \
         skeletons must be equal (bash: the scripts byte-identical) and both must lex. Non-trivial: a substituted text contains a \
         character that is special in some shell; distinct = distinct (spec, substitutions)."
            .into()
    }
    fn budget(&self, tier: Tier) -> Budget {
        Budget {
            cases: tier.pick(300_000, 10_000_000),
            tape_len: 4500,
        }
    }
    fn decode(&self, t: &mut Tape<'_>) -> TextCase {
        let mut spec = completion_spec(t);
        let bin = (*t.pick(&["prog", "my-prog"])).to_owned();
        spec.name = bin.clone();
        spec.bin_name = None;
        let mut all = Vec::new();
        slots(&spec, "", &mut all);
        let n = t.range(1, 4);
        let subst = (0..n)
            .map(|_| {
                let slot = t.pick(&all).clone();
                // a listed hostile text, or one composed of 1-3 special atoms between innocuous words: every special
                // character also occurs alone, so that no other special character can mask its handling
                let text = if t.bool() {
                    (*t.pick(HOSTILE)).to_owned()
                } else {
                    let mut s = String::new();
                    for k in 0..t.range(1, 3) {
                        if k > 0 || t.bool() {
                            s.push_str(t.pick_s(&["w", "x y", "Z9"]));
                        }
                        s.push_str(t.pick_s(ATOMS));
                    }
                    if t.bool() {
                        s.push_str("tail");
                    }
                    s
                };
                (slot, text)
            })
            .collect();
        TextCase { spec, bin, subst }
    }
    fn run(&self, case: &TextCase, ctx: &mut Ctx) -> Verdict {
        if case.bin.is_empty() || case.bin.contains(' ') {
            return Verdict::Discard("bin-name-not-well-formed");
        }
        let (adv, twin) = variants(&case.spec, &case.subst);
        let (c_adv, c_twin) = match (build_checked(&adv), build_checked(&twin)) {
            (Built::Ok(a), Built::Ok(t)) => (a, t),
            (Built::Panic(p), _) | (_, Built::Panic(p)) => return Verdict::Fail(Failure::from_panic(&p)),
            _ => return Verdict::Discard("invalid-config"),
        };
        for shell in SHELLS {
            match differs(shell, &c_adv, &c_twin, &case.bin) {
                Err(p) => {
                    // generator panics are C16's subject (known findings there); not judged here
                    let _ = p;
                    ctx.exclude("generator-panicked");
                    continue;
                }
                Ok(None) => {}
                Ok(Some(desc)) => {
                    // blame: which single substitutions are enough
                    let mut culprits: Vec<String> = Vec::new();
                    for s in &case.subst {
                        let (a1, t1) = variants(&case.spec, std::slice::from_ref(s));
                        if let (Built::Ok(a1), Built::Ok(t1)) = (build_checked(&a1), build_checked(&t1)) {
                            if let Ok(Some(_)) = differs(shell, &a1, &t1, &case.bin) {
                                culprits.push(slot_class(&s.0));
                            }
                        }
                    }
                    culprits.sort();
                    culprits.dedup();
                    let f = Failure::new(
                        format!("structure:{shell}:{}", if culprits.is_empty() { "combination".to_owned() } else { culprits.join("+") }),
                        format!("{shell}: substitutions {:?}: {desc}", case.subst),
                    );
                    if let Verdict::Fail(f) = ctx.note_known(&f) {
                        return Verdict::Fail(f);
                    }
                }
            }
        }
        let special = case.subst.iter().any(|(_, t)| t.chars().any(|c| "'\"\\$`[](){}<>:;|&#\n\r\t\u{2018}\u{2019}\u{201a}\u{201b}\u{201c}\u{201d}\u{201e}".contains(c)));
        if special {
            ctx.nontrivial();
        }
        for (p, _) in &case.subst {
            ctx.label_owned(format!("slot:{}", slot_class(p)));
        }
        Verdict::Pass
    }
    fn json_shrinkable(&self) -> bool {
        true
    }
}

pub fn check() -> Check {
    Check {
        id: "C17",
        parts: vec![Box::new(Gen(Text))],
        assumptions: vec![
            "only bash is installed; for the other five shells the lexers written from their documented quoting rules are the trusted base"
                .into(),
            "the lexers model shell-level lexing, not second-level mini-languages such as zsh _arguments specs".into(),
            "the statement is about descriptive text: names, aliases and value names stay innocuous".into(),
        ],
    }
}
