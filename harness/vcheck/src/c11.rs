//! C11 — Parsing is deterministic, re-entrant and independent of build timing.

use crate::util::os;
use serde::{Deserialize, Serialize};
use vcore::*;
use vmodel::argv::{gen_argv_broad, gen_argv_subset};
use vmodel::gen::{gen_broad, GenOpts};
use vmodel::{build_checked, Built, CmdSpec};

#[derive(Serialize, Deserialize, Hash, Clone, Debug)]
pub enum Op {
    ParseMut(usize),
    Build,
    RenderHelp,
    RenderLongHelp,
    RenderUsage,
    CloneThenParse(usize),
    DebugFormat,
}

#[derive(Serialize, Deserialize, Hash, Clone, Debug)]
pub struct HistCase {
    pub spec: CmdSpec,
    /// all share argv[0]
    pub argvs: Vec<Vec<String>>,
    pub ops: Vec<Op>,
}

pub struct History;

enum Outcome {
    Ok(clap::ArgMatches),
    Err { kind: String, message: String },
}

fn outcome(r: Result<clap::ArgMatches, clap::Error>) -> Outcome {
    match r {
        Ok(m) => Outcome::Ok(m),
        Err(e) => Outcome::Err {
            kind: format!("{:?}", e.kind()),
            message: e.render().to_string(),
        },
    }
}

fn to_os(argv: &[String]) -> Vec<std::ffi::OsString> {
    argv.iter().map(|s| os(&crate::util::bytes_hex::decode(s).unwrap_or_else(|_| s.as_bytes().to_vec()))).collect()
}

/// compare a result with the fresh reference
fn agree(fresh: &Outcome, got: &Outcome, compare_message: bool, what: &str, argv: &[String]) -> Result<(), Failure> {
    match (fresh, got) {
        (Outcome::Ok(a), Outcome::Ok(b)) => {
            if a != b {
                return Err(Failure::new(
                    format!("history:{what}:matches-differ"),
                    format!("argv {argv:?}: fresh definition gives\n{a:?}\nbut the {what} definition gives\n{b:?}"),
                ));
            }
        }
        (Outcome::Err { kind: k1, message: m1 }, Outcome::Err { kind: k2, message: m2 }) => {
            if k1 != k2 {
                return Err(Failure::new(
                    format!("history:{what}:error-kind-differs"),
                    format!("argv {argv:?}: fresh definition fails with {k1}, the {what} definition with {k2}\n--- fresh\n{m1}\n--- {what}\n{m2}"),
                ));
            }
            if compare_message && m1 != m2 {
                // the generated `help` subcommand is built lazily ("help [COMMAND]...") or expanded
                // ("help [COMMAND]") depending on what touched the subcommand first (known finding)
                let norm = |m: &str| {
                    // layout-insensitive: the lazily built help subcommand has a `[COMMAND]...`
                    // positional with its own help line, the expanded one has neither
                    let compact: String = m.chars().filter(|c| !c.is_whitespace()).collect();
                    compact
                        .replace("[COMMAND]...", "[COMMAND]")
                        .replace("[COMMAND]Printhelpforthesubcommand(s)", "")
                };
                if norm(m1) == norm(m2) {
                    return Err(Failure::new(
                        format!("history:{what}:message-differs:lazy-vs-expanded-help-subcommand-usage"),
                        format!("argv {argv:?}: same kind {k1}, messages differ only in the usage of a generated help subcommand\n--- fresh\n{m1}\n--- {what}\n{m2}"),
                    ));
                }
                return Err(Failure::new(
                    format!("history:{what}:message-differs"),
                    format!("argv {argv:?}: same kind {k1} but different messages\n--- fresh\n{m1}\n--- {what}\n{m2}"),
                ));
            }
        }
        (Outcome::Ok(_), Outcome::Err { kind, message }) => {
            return Err(Failure::new(
                format!("history:{what}:ok-became-error"),
                format!("argv {argv:?}: fresh definition parses, the {what} definition fails with {kind}\n{message}"),
            ))
        }
        (Outcome::Err { kind, .. }, Outcome::Ok(m)) => {
            return Err(Failure::new(
                format!("history:{what}:error-became-ok"),
                format!("argv {argv:?}: fresh definition fails with {kind}, the {what} definition parses: {m:?}"),
            ))
        }
    }
    Ok(())
}

pub fn run_history(case: &HistCase, ctx: &mut Ctx) -> Verdict {
    match build_checked(&case.spec) {
        Built::Ok(_) => {}
        Built::Invalid(_) => return Verdict::Discard("invalid-config"),
        Built::Panic(p) => return Verdict::Fail(Failure::from_panic(&p)),
    }
    if case.argvs.is_empty() {
        return Verdict::Discard("no-argv");
    }
    if !case.spec.settings.no_binary_name {
        // the statement speaks about one program name
        let first = case.argvs[0].first();
        if first.is_none() || case.argvs.iter().any(|a| a.first() != first) {
            return Verdict::Discard("argv0-not-shared");
        }
    }
    // fresh references, computed twice (determinism)
    let mut fresh: Vec<Outcome> = Vec::new();
    for argv in &case.argvs {
        let a = match catch(|| outcome(case.spec.to_clap().try_get_matches_from(to_os(argv)))) {
            Ok(o) => o,
            Err(p) => return Verdict::Fail(Failure::from_panic(&p)),
        };
        let b = match catch(|| outcome(case.spec.to_clap().try_get_matches_from(to_os(argv)))) {
            Ok(o) => o,
            Err(p) => return Verdict::Fail(Failure::from_panic(&p)),
        };
        if let Err(f) = agree(&a, &b, true, "second-fresh", argv) {
            return Verdict::Fail(f);
        }
        if let (Outcome::Ok(x), Outcome::Ok(y)) = (&a, &b) {
            ensure!(
                format!("{x:?}") == format!("{y:?}"),
                "history:non-deterministic-debug",
                "argv {:?}: two fresh parses have different Debug renderings",
                argv
            );
        }
        fresh.push(a);
    }
    let mut reused = case.spec.to_clap();
    let mut prebuilt = false;
    let mut parses = 0usize;
    let mut interesting_before = false; // an earlier parse failed or entered a subcommand
    let mut last_parsed: Option<usize> = None;
    let mut nontrivial = false;
    for (k, op) in case.ops.iter().enumerate() {
        let step = |f: Failure| Failure::new(f.signature, format!("step {k} {op:?} (prebuilt={prebuilt}): {}", f.message));
        match op {
            Op::ParseMut(i) | Op::CloneThenParse(i) => {
                let i = *i % case.argvs.len();
                let argv = &case.argvs[i];
                let is_clone = matches!(op, Op::CloneThenParse(_));
                let got = match catch(|| {
                    if is_clone {
                        outcome(reused.clone().try_get_matches_from(to_os(argv)))
                    } else {
                        outcome(reused.try_get_matches_from_mut(to_os(argv)))
                    }
                }) {
                    Ok(o) => o,
                    Err(p) => return Verdict::Fail(step(Failure::from_panic(&p))),
                };
                let what = if is_clone { "cloned" } else { "reused" };
                if let Err(mut f) = agree(&fresh[i], &got, !prebuilt, what, argv) {
                    fn any_flatten(c: &CmdSpec) -> bool {
                        c.settings.flatten_help || c.subs.iter().any(any_flatten)
                    }
                    let help_help = argv.windows(2).any(|w| w[0] == "help" && w[1] == "help");
                    if prebuilt && help_help && (f.signature.ends_with("error-kind-differs") || f.signature.ends_with("ok-became-error") || f.signature.ends_with("error-became-ok")) {
                        // `prog help help <x>`: the expanded help tree of a built definition knows
                        // `<x>` below `help`, the lazily built one does not (known finding)
                        f.signature.push_str(":prebuilt-help-help-path");
                    }
                    if f.signature.ends_with("message-differs") && case.spec.settings.no_binary_name && any_flatten(&case.spec) {
                        // usage names of subcommands: "sub" once visited by a parse, "<name> sub" when
                        // first named by the flatten-help rendering (known finding)
                        f.signature.push_str(":no_binary_name+flatten_help-usage-names");
                    }
                    return Verdict::Fail(step(f));
                }
                if parses >= 1 && interesting_before && last_parsed != Some(i) {
                    nontrivial = true;
                }
                if !is_clone {
                    parses += 1;
                    last_parsed = Some(i);
                    match &got {
                        Outcome::Err { .. } => {
                            interesting_before = true;
                            ctx.label("history-with-failing-parse");
                        }
                        Outcome::Ok(m) => {
                            if m.subcommand_name().is_some() {
                                interesting_before = true;
                                ctx.label("history-entering-subcommand");
                            }
                        }
                    }
                }
            }
            Op::Build => {
                let r = catch(|| {
                    reused.build();
                    let d1 = format!("{reused:?}");
                    reused.build();
                    let d2 = format!("{reused:?}");
                    d1 == d2
                });
                match r {
                    Ok(true) => {}
                    Ok(false) => {
                        return Verdict::Fail(step(Failure::new(
                            "history:build-not-idempotent",
                            "a second build() changed the Debug rendering of the definition",
                        )))
                    }
                    Err(p) => return Verdict::Fail(step(Failure::from_panic(&p))),
                }
                prebuilt = true;
                ctx.label("explicit-build");
            }
            Op::RenderHelp | Op::RenderLongHelp | Op::RenderUsage | Op::DebugFormat => {
                let r = catch(|| match op {
                    Op::RenderHelp => reused.render_help().to_string().len(),
                    Op::RenderLongHelp => reused.render_long_help().to_string().len(),
                    Op::RenderUsage => reused.render_usage().to_string().len(),
                    _ => format!("{reused:?}").len(),
                });
                if let Err(p) = r {
                    return Verdict::Fail(step(Failure::from_panic(&p)));
                }
            }
        }
    }
    if nontrivial {
        ctx.nontrivial();
    }
    if prebuilt {
        ctx.label("history-with-build");
    }
    Verdict::Pass
}

impl Property for History {
    type Case = HistCase;
    fn name(&self) -> &'static str {
        "history"
    }
    fn rule(&self) -> String {
        "broad command trees (half of them with the help surface: flatten_help, templates, headings) x a pool of 2-5 argv sharing argv[0] \
         (well-formed subsets, failing lines, unknown long flags that trigger suggestions, help requests, subcommand paths) x histories \
         of up to 12 steps on ONE Command value: ParseMut(i), Build (twice, comparing Debug), RenderHelp, RenderLongHelp, RenderUsage, \
         CloneThenParse(i), DebugFormat. Oracle: every parse on the reused or cloned value agrees with a FRESH definition parsing the \
         same argv (Ok: ArgMatches ==; Err: same kind; identical rendered message unless the value was explicitly built earlier in the \
         history); build(); build() leaves the Debug rendering unchanged; two fresh parses are identical. Non-trivial: a later parse of \
         a different argv is compared after an earlier parse failed or entered a subcommand; distinct = distinct (spec, argvs, ops)."
            .into()
    }
    fn budget(&self, tier: Tier) -> Budget {
        Budget {
            cases: tier.pick(600_000, 20_000_000),
            tape_len: 6000,
        }
    }
    fn decode(&self, t: &mut Tape<'_>) -> HistCase {
        let opts = GenOpts {
            help_surface: t.bool(),
            ..GenOpts::default()
        };
        let spec = gen_broad(t, &opts);
        let n = t.range(2, 5);
        let mut argvs: Vec<Vec<String>> = Vec::new();
        let argv0: Option<String> = if spec.settings.no_binary_name {
            None
        } else if spec.settings.multicall {
            Some(spec.subs.first().map(|s| s.name.clone()).unwrap_or_else(|| "prog".into()))
        } else {
            Some("prog".to_owned())
        };
        for _ in 0..n {
            let mut a = match t.weighted(&[4, 3, 1]) {
                0 => gen_argv_subset(t, &spec),
                1 => gen_argv_broad(t, &spec),
                _ => {
                    // help / suggestion triggers below a subcommand path
                    let mut v: Vec<Vec<u8>> = vec![b"prog".to_vec()];
                    let mut level = &spec;
                    while !level.subs.is_empty() && t.bool() {
                        let sc = &level.subs[t.choose(level.subs.len())];
                        v.push(sc.name.as_bytes().to_vec());
                        level = sc;
                    }
                    v.push(t.pick_s(&["--help", "-h", "--alph", "--hel", "help", "--version", "nope"]).as_bytes().to_vec());
                    v
                }
            };
            a.truncate(20);
            // normalise argv[0]
            if spec.settings.no_binary_name {
                // generators only add argv[0] when the spec wants one
            } else if a.is_empty() {
                a.push(Vec::new());
            }
            if let Some(a0) = &argv0 {
                if a.is_empty() {
                    a.push(a0.as_bytes().to_vec());
                } else {
                    a[0] = a0.as_bytes().to_vec();
                }
            }
            argvs.push(a.iter().map(|b| crate::util::bytes_hex::encode(b)).collect());
        }
        let nops = t.range(1, 12);
        let ops = (0..nops)
            .map(|_| match t.weighted(&[8, 1, 1, 1, 1, 3, 1]) {
                0 => Op::ParseMut(t.choose(n)),
                1 => Op::Build,
                2 => Op::RenderHelp,
                3 => Op::RenderLongHelp,
                4 => Op::RenderUsage,
                5 => Op::CloneThenParse(t.choose(n)),
                _ => Op::DebugFormat,
            })
            .collect();
        HistCase { spec, argvs, ops }
    }
    fn run(&self, case: &HistCase, ctx: &mut Ctx) -> Verdict {
        run_history(case, ctx)
    }
    fn json_shrinkable(&self) -> bool {
        true
    }
}

pub fn check() -> Check {
    Check {
        id: "C11",
        parts: vec![Box::new(Gen(History))],
        assumptions: vec![
            "all argv of one history share argv[0] (the statement's 'same program name')".into(),
            "after an explicit build() in the history only matches equality / kind equality is demanded, as the statement says".into(),
            "env variables are snapshotted when the definition is created, so fresh and reused definitions see the same environment".into(),
        ],
    }
}
