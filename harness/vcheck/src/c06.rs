//! C06 — Command line beats environment beats default, and sources are reported honestly.

use crate::util::os;
use clap::error::ErrorKind;
use serde::{Deserialize, Serialize};
use std::collections::BTreeMap;
use vcore::*;
use vmodel::conv::*;
use vmodel::observe::{observe, LevelObs, Source};
use vmodel::{build_checked, Action, ArgSpec, Built, CmdSpec, ParserSpec, Pred};

#[derive(Serialize, Deserialize, Hash, Clone, Debug)]
pub struct SrcCase {
    pub spec: CmdSpec,
    pub inv: Invocation,
    pub argv: Vec<String>,
    pub cluster_entry: Vec<bool>,
    /// ignore_errors(true) and an unknown flag appended: the recovery path must resolve sources the same way
    #[serde(default)]
    pub ignore_errors_probe: bool,
}

pub struct Sources;

fn dec(v: &[String]) -> Vec<std::ffi::OsString> {
    v.iter().map(|s| os(&vals_hex::decode(s).unwrap_or_else(|_| s.as_bytes().to_vec()))).collect()
}

fn split(vals: &[String], d: Option<char>) -> Vec<Vec<u8>> {
    let mut out = Vec::new();
    for v in vals {
        match d {
            // (U+E000 in a described value stands for the byte 0xFF)
            Some(d) if v.contains(d) => out.extend(v.split(d).map(vmodel::env_bytes)),
            _ => out.push(vmodel::env_bytes(v)),
        }
    }
    out
}

fn parses(p: &ParserSpec, v: &[u8]) -> bool {
    let s = String::from_utf8_lossy(v);
    match p {
        ParserSpec::I64 { lo, hi } => s.parse::<i64>().map(|x| x >= *lo && x <= *hi).unwrap_or(false),
        ParserSpec::Bool => s == "true" || s == "false",
        _ => true,
    }
}

#[derive(Debug, Clone, PartialEq)]
enum Origin {
    CommandLine,
    Env(Vec<Vec<u8>>),
    /// the environment value is outside the parser's language: the parse has to fail
    EnvInvalid,
    Default(Vec<Vec<u8>>),
    /// a conditional default hinges on an argument that is itself only present by default
    /// (definition-order dependent, not documented): source must be Default or absent
    DefaultUnknown,
    Absent,
}

fn flag_parser(a: &ArgSpec) -> ParserSpec {
    match a.action {
        Action::SetTrue | Action::SetFalse => ParserSpec::Bool,
        _ => a.parser.clone(),
    }
}

fn origin_of(level: &CmdSpec, a: &ArgSpec, exp: &ExpLevel) -> Origin {
    if exp.args.contains_key(&a.id) {
        return Origin::CommandLine;
    }
    if let Some((_, Some(v))) = &a.env {
        let vals = if a.action.takes_values() { split(&[v.clone()], a.value_delimiter) } else { vec![v.as_bytes().to_vec()] };
        let p = flag_parser(a);
        if vals.iter().all(|x| parses(&p, x)) {
            return Origin::Env(vals);
        }
        return Origin::EnvInvalid;
    }
    // conditional defaults, in declaration order
    for (cid, pred, val) in &a.default_value_ifs {
        let Some(c) = level.arg(cid) else { continue };
        // state of the condition argument
        let c_vals: Option<Vec<Vec<u8>>> = if let Some(e) = exp.args.get(cid) {
            Some(e.occurrences.iter().flatten().cloned().collect())
        } else if let Some((_, Some(v))) = &c.env {
            Some(if c.action.takes_values() { split(&[v.clone()], c.value_delimiter) } else { vec![v.as_bytes().to_vec()] })
        } else if !c.default_values.is_empty() || !c.default_value_ifs.is_empty() || !c.action.takes_values() {
            return Origin::DefaultUnknown;
        } else {
            None
        };
        let holds = match (&c_vals, pred) {
            (None, _) => false,
            (Some(_), Pred::IsPresent) => true,
            (Some(vs), Pred::Equals(x)) => vs.iter().any(|v| v.as_slice() == x.as_bytes()),
        };
        if holds {
            return match val {
                Some(v) => Origin::Default(split(&[v.clone()], a.value_delimiter)),
                None => Origin::Absent,
            };
        }
    }
    if !a.default_values.is_empty() {
        return Origin::Default(split(&a.default_values, a.value_delimiter));
    }
    match a.action {
        Action::SetTrue => Origin::Default(vec![b"false".to_vec()]),
        Action::SetFalse => Origin::Default(vec![b"true".to_vec()]),
        Action::Count => Origin::Default(vec![b"0".to_vec()]),
        _ => Origin::Absent,
    }
}

fn add_sources(t: &mut Tape<'_>, c: &mut CmdSpec, depth: usize) {
    let ids: Vec<String> = c.args.iter().map(|a| a.id.clone()).collect();
    let n = c.args.len();
    for i in 0..n {
        let takes = c.args[i].action.takes_values();
        let positional = c.args[i].is_positional();
        let id = c.args[i].id.clone();
        let a = &mut c.args[i];
        if takes && !positional && t.chance(1, 6) {
            a.parser = ParserSpec::I64 { lo: -10, hi: 10 };
            a.default_values = if a.default_values.is_empty() { vec![] } else { vec!["7".into()] };
            a.default_missing_values = if a.default_missing_values.is_empty() { vec![] } else { vec!["3".into()] };
        }
        let typed = matches!(a.parser, ParserSpec::I64 { .. });
        if takes && !positional && !typed && a.parser == ParserSpec::OsStr && t.chance(1, 6) {
            // an environment value that is not UTF-8, for an argument that takes OS strings
            a.env = Some((format!("VERIF_C06_{}_{}", depth, id.to_uppercase()), Some("e\u{e000}x".to_owned())));
        } else if takes && !positional && t.chance(2, 5) {
            let val = match t.weighted(&[2, 5, 1, 1, 1]) {
                0 => None,
                1 => Some(if typed { "5".to_owned() } else { "envv".to_owned() }),
                2 => Some(if typed { "0".to_owned() } else { String::new() }),
                3 => Some(if typed { "-10".to_owned() } else { "e1,e2".to_owned() }),
                _ => Some(if typed { "zz".to_owned() } else { "e:x".to_owned() }),
            };
            a.env = Some((format!("VERIF_C06_{}_{}", depth, id.to_uppercase()), val));
        }
        if !takes && a.action != Action::Count && t.chance(1, 10) {
            // a flag whose declared missing-value default differs from the implicit one of its action
            a.default_missing_values = vec![if a.action == Action::SetTrue { "false".to_owned() } else { "true".to_owned() }];
        }
        if !takes && a.action != Action::Count && t.chance(1, 5) {
            let val = match t.weighted(&[2, 3, 3, 1]) {
                0 => None,
                1 => Some("true".to_owned()),
                2 => Some("false".to_owned()),
                _ => Some("yes".to_owned()),
            };
            a.env = Some((format!("VERIF_C06_{}_{}", depth, id.to_uppercase()), val));
        }
        if takes && !typed && t.chance(1, 4) {
            let others: Vec<&String> = ids.iter().filter(|x| **x != id).collect();
            if !others.is_empty() {
                for _ in 0..t.range(1, 2) {
                    let other = (*t.pick(&others)).clone();
                    let pred = if t.bool() {
                        Pred::IsPresent
                    } else {
                        Pred::Equals(t.pick_s(&["v", "val", "true", "envv", "1", "dflt"]).to_owned())
                    };
                    let val = if t.chance(1, 5) { None } else { Some(t.pick_s(&["cond1", "cond2", "c,d"]).to_owned()) };
                    c.args[i].default_value_ifs.push((other, pred, val));
                }
            }
        }
    }
    for s in &mut c.subs {
        add_sources(t, s, depth + 1);
    }
}

/// Relations that the explicit (command line + environment) set satisfies literally; many of them
/// touch arguments that are present by default only.
fn add_relations(t: &mut Tape<'_>, c: &mut CmdSpec, exp: Option<&ExpLevel>) {
    let explicit = |a: &ArgSpec| -> bool {
        exp.map(|e| e.args.contains_key(&a.id)).unwrap_or(false) || matches!(&a.env, Some((_, Some(_))))
    };
    let flags: Vec<(String, bool)> = c.args.iter().map(|a| (a.id.clone(), explicit(a))).collect();
    let n = c.args.len();
    for i in 0..n {
        for j in 0..n {
            if i == j {
                continue;
            }
            let (xi, xe) = flags[i].clone();
            let (yi, ye) = flags[j].clone();
            let _ = xi;
            if !(xe && ye) && t.chance(1, 10) {
                c.args[i].conflicts_with.push(yi.clone());
            }
            if (!xe || ye) && t.chance(1, 12) {
                c.args[i].requires.push(yi.clone());
            }
        }
        if flags[i].1 && !c.args[i].is_positional() && t.chance(1, 6) {
            c.args[i].required = true;
        }
    }
    // an override relation between an argument given on the command line and one that is only set through its
    // environment variable: no occurrence overrides anything (the other one never occurs), so the two are simply both
    // explicit, which the library reports as the conflict that `overrides_with` implies
    let on_line = |a: &ArgSpec| exp.map(|e| e.args.contains_key(&a.id)).unwrap_or(false);
    let env_only: Vec<String> = c.args.iter().filter(|a| !on_line(a) && matches!(&a.env, Some((_, Some(_))))).map(|a| a.id.clone()).collect();
    let line: Vec<usize> = (0..n).filter(|i| on_line(&c.args[*i])).collect();
    if !env_only.is_empty() && !line.is_empty() && c.groups.is_empty() && t.chance(1, 8) {
        // a group whose only present member is set through the environment, and a command-line argument that
        // conflicts with the group: presence through env is explicit presence, also for the group
        let x = *t.pick(&line);
        let y = t.pick(&env_only).clone();
        if c.args[x].id != y {
            let gid = "envgrp".to_owned();
            c.groups.push(vmodel::GroupSpec { id: gid.clone(), args: vec![y], multiple: true, ..Default::default() });
            c.args[x].conflicts_with.push(gid);
            return;
        }
    }
    if !env_only.is_empty() && !line.is_empty() && c.groups.is_empty() && t.chance(1, 8) {
        // a group (members may occur together) with one member from the command line and one from the environment:
        // the group is as present as its most explicit member
        let x = c.args[*t.pick(&line)].id.clone();
        let y = t.pick(&env_only).clone();
        if x != y {
            c.groups.push(vmodel::GroupSpec { id: "mixgrp".to_owned(), args: vec![y, x], multiple: true, ..Default::default() });
            return;
        }
    }
    if !env_only.is_empty() && !line.is_empty() && t.chance(1, 6) {
        let x = *t.pick(&line);
        let y = t.pick(&env_only).clone();
        if t.bool() {
            c.args[x].overrides_with.push(y);
        } else if let Some(j) = c.args.iter().position(|a| a.id == y) {
            let xid = c.args[x].id.clone();
            c.args[j].overrides_with.push(xid);
        }
    }
}

/// `(x, group)`: x comes from the command line, conflicts with `group`, and a member of `group` is set through its
/// environment variable only. An environment value makes the argument (and therefore its groups) explicitly present,
/// so the line has to be rejected with ArgumentConflict.
fn conflict_with_env_group(level: &CmdSpec, origins: &BTreeMap<String, Origin>) -> Option<(String, String)> {
    for a in &level.args {
        if origins.get(&a.id) != Some(&Origin::CommandLine) {
            continue;
        }
        for g in &level.groups {
            if a.conflicts_with.contains(&g.id) && g.args.iter().any(|m| matches!(origins.get(m), Some(Origin::Env(_)))) {
                return Some((a.id.clone(), g.id.clone()));
            }
        }
    }
    None
}

/// Is there an override relation between an argument that comes from the command line and one that comes from its
/// environment variable (see `add_relations`)?
fn override_across_origins(level: &CmdSpec, origins: &BTreeMap<String, Origin>) -> bool {
    let is = |id: &String, line: bool| match origins.get(id) {
        Some(Origin::CommandLine) => line,
        Some(Origin::Env(_)) | Some(Origin::EnvInvalid) => !line,
        _ => false,
    };
    level.args.iter().any(|a| a.overrides_with.iter().any(|b| (is(&a.id, true) && is(b, false)) || (is(&a.id, false) && is(b, true))))
}

impl Property for Sources {
    type Case = SrcCase;
    fn name(&self) -> &'static str {
        "value-sources"
    }
    fn rule(&self) -> String {
        "conventional command trees (depth <= 2) whose arguments carry any mix of default_value(s), default_value_if(s) (IsPresent / \
         Equals, Some / None), default_missing_value, env (unset, valid, empty, delimiter-containing, outside the parser's language; \
         also on SetTrue/SetFalse flags), ranged-integer parsers on some options, the implicit defaults of flag actions, plus conflicts / \
         requires / required placed so that the explicit arguments satisfy them literally while arguments present by default would \
         violate them if defaults counted, overrides_with between an argument on the command line and one set only through its \
         environment variable (outcome: the implied ArgumentConflict, or precedence intact; never a replaced command-line value), \
         and arg_required_else_help on some roots x intended invocations spelled freely; 1 in 8 cases use ignore_errors(true) with an unknown flag appended (the error-recovery path must resolve env and defaults the same way). Oracle: for \
         every argument of every level exactly one origin in the order command line > environment > conditional default (first \
         matching, None = no default at all) > plain default > implicit flag default > absent; value_source names it and the raw values \
         are that origin's (split at the delimiter); default_missing only for an occurrence without raw token (model of C02); an \
         environment value outside the parser's language makes the parse fail; otherwise the parse succeeds (defaults never trigger \
         conflicts/requirements), args_present() is true iff some argument of the level is explicit, arg_required_else_help fires iff \
         nothing is explicit at the root and no subcommand is used. Non-trivial: some argument has >= 2 available origins and two \
         arguments of the parse come from different origins; distinct = distinct (spec, invocation, argv)."
            .into()
    }
    fn budget(&self, tier: Tier) -> Budget {
        Budget {
            cases: tier.pick(1_000_000, 15_000_000),
            tape_len: 2500,
        }
    }
    fn decode(&self, t: &mut Tape<'_>) -> SrcCase {
        let co = ConvOpts {
            max_depth: 2,
            defaults: true,
            low_index_multi: false,
            ..ConvOpts::default()
        };
        let mut spec = gen_conv_spec(t, &co);
        add_sources(t, &mut spec, 0);
        if t.chance(1, 8) {
            spec.settings.arg_required_else_help = true;
        }
        let ignore_errors_probe = t.chance(1, 8);
        let mut inv = gen_invocation(t, &spec, &InvOpts { escape: !ignore_errors_probe, ..InvOpts::default() });
        if ignore_errors_probe {
            spec.settings.ignore_errors = true;
            spec.settings.arg_required_else_help = false;
            inv.levels.truncate(1);
            inv.levels[0].sub = None;
        }
        // relations, knowing what is explicit
        if let Some(Expected::Ok(exp)) = expect_seq(&spec, &inv, &vec![false; inv.levels.len()]) {
            add_relations(t, &mut spec, exp.first());
            if let (Some(n), Some(e1)) = (inv.levels.first().and_then(|l| l.sub.clone()), exp.get(1)) {
                if let Some(sc) = spec.subs.iter_mut().find(|s| s.name == n) {
                    add_relations(t, sc, Some(e1));
                }
            }
        }
        let mut st = SpellStats::default();
        let (argv, cluster_entry) = match spell(t, &spec, &inv, &mut st) {
            Some(sp) => (sp.argv.iter().map(|b| show_bytes(b)).collect(), sp.cluster_entry),
            None => (Vec::new(), Vec::new()),
        };
        let mut argv: Vec<String> = argv;
        if ignore_errors_probe && !argv.is_empty() {
            argv.push("--bogus-zz".to_owned());
        }
        SrcCase {
            spec,
            inv,
            argv,
            cluster_entry,
            ignore_errors_probe,
        }
    }
    fn run(&self, case: &SrcCase, ctx: &mut Ctx) -> Verdict {
        if case.argv.is_empty() {
            return Verdict::Discard("no-unambiguous-spelling");
        }
        let cmd = match build_checked(&case.spec) {
            Built::Ok(c) => c,
            Built::Invalid(_) => return Verdict::Discard("invalid-config"),
            Built::Panic(p) => return Verdict::Fail(Failure::from_panic(&p)),
        };
        let Some(Expected::Ok(exp)) = expect_seq(&case.spec, &case.inv, &case.cluster_entry) else {
            return Verdict::Discard("invocation-outside-model");
        };
        // origins per level
        let mut levels: Vec<(&CmdSpec, BTreeMap<String, Origin>)> = Vec::new();
        let mut lv: &CmdSpec = &case.spec;
        for el in &exp {
            let mut m = BTreeMap::new();
            for a in &lv.args {
                m.insert(a.id.clone(), origin_of(lv, a, el));
            }
            levels.push((lv, m));
            if let Some(n) = &el.sub {
                match lv.subs.iter().find(|s| s.name == *n) {
                    Some(s) => lv = s,
                    None => break,
                }
            }
        }
        let env_invalid = levels.iter().any(|(_, m)| m.values().any(|o| *o == Origin::EnvInvalid));
        if env_invalid && case.ignore_errors_probe {
            // with ignore_errors an unparsable environment value is itself an ignored error
            return Verdict::Discard("ignore_errors-probe-with-invalid-env");
        }
        let root_explicit = levels[0].1.values().any(|o| matches!(o, Origin::CommandLine | Origin::Env(_) | Origin::EnvInvalid));
        let expect_help = case.spec.settings.arg_required_else_help && !root_explicit && exp[0].sub.is_none();
        let res = match catch(|| cmd.try_get_matches_from(dec(&case.argv))) {
            Err(p) => return Verdict::Fail(Failure::from_panic(&p)),
            Ok(r) => r,
        };
        let group_conflict = levels.iter().find_map(|(lv, m)| conflict_with_env_group(lv, m));
        if let (Some((x, g)), false) = (&group_conflict, case.ignore_errors_probe) {
            return match &res {
                Err(e) if e.kind() == ErrorKind::ArgumentConflict => {
                    ctx.label("conflict-with-group-present-through-env");
                    ctx.nontrivial();
                    Verdict::Pass
                }
                Err(e) if env_invalid && matches!(e.kind(), ErrorKind::ValueValidation | ErrorKind::InvalidValue) => Verdict::Pass,
                other => Verdict::fail(
                    "sources:env-presence-not-honoured-for-group",
                    format!(
                        "argv {:?}: {x:?} (command line) conflicts with group {g:?}, whose member is set through its environment variable; expected ArgumentConflict, got {}",
                        case.argv,
                        match other {
                            Ok(_) => "Ok".to_owned(),
                            Err(e) => format!("{:?}", e.kind()),
                        }
                    ),
                ),
            };
        }
        let m = match res {
            Err(e) => {
                if env_invalid && matches!(e.kind(), ErrorKind::ValueValidation | ErrorKind::InvalidValue) {
                    ctx.label("invalid-env-value-rejected");
                    return Verdict::Pass;
                }
                if expect_help && e.kind() == ErrorKind::DisplayHelpOnMissingArgumentOrSubcommand {
                    ctx.label("arg_required_else_help-fired");
                    ctx.nontrivial();
                    return Verdict::Pass;
                }
                if e.kind() == ErrorKind::ArgumentConflict && levels.iter().any(|(lv, m)| override_across_origins(lv, m)) {
                    // both explicit, neither occurrence-overridden: the implied conflict. What must never happen is an
                    // accepted line on which the command-line value was replaced (checked on the Ok path).
                    ctx.label("override-between-command-line-and-env:conflict");
                    ctx.nontrivial();
                    return Verdict::Pass;
                }
                let caused_by_default = matches!(e.kind(), ErrorKind::ArgumentConflict | ErrorKind::MissingRequiredArgument);
                return Verdict::fail(
                    if caused_by_default {
                        format!("sources:default-triggered-{:?}", e.kind())
                    } else {
                        format!("sources:valid-line-rejected:{:?}", e.kind())
                    },
                    format!("argv {:?} (explicit arguments satisfy every relation literally): {}", case.argv, e),
                );
            }
            Ok(m) => m,
        };
        ensure!(
            !env_invalid,
            "sources:invalid-env-value-accepted",
            "argv {:?}: an environment value outside the parser's language was accepted or ignored",
            case.argv
        );
        ensure!(
            !expect_help,
            "sources:arg_required_else_help-did-not-fire",
            "argv {:?}: nothing explicit at the root, yet the parse succeeded",
            case.argv
        );
        let obs = observe(&m);
        if let Err((sig, msg)) = compare_explicit(&case.spec, &exp, &obs, true) {
            return Verdict::fail(sig.replace("attribution:", "sources:commandline-"), format!("argv {:?}: {}", case.argv, msg));
        }
        let mut o: &LevelObs = &obs;
        let mut kinds_seen = std::collections::BTreeSet::new();
        let mut multi_origin_arg = false;
        for (li, (lvspec, origins)) in levels.iter().enumerate() {
            let mut any_explicit = false;
            for a in &lvspec.args {
                let origin = &origins[&a.id];
                let got = o.arg(&a.id);
                let navail = [
                    true,
                    matches!(&a.env, Some((_, Some(_)))),
                    !a.default_values.is_empty() || !a.default_value_ifs.is_empty() || !a.action.takes_values(),
                ]
                .iter()
                .filter(|x| **x)
                .count();
                if navail >= 2 {
                    multi_origin_arg = true;
                }
                let bad = |what: &str, detail: String| {
                    Verdict::fail(
                        format!("sources:{what}"),
                        format!("argv {:?}: level {li} {:?} should come from {:?}: {}", case.argv, a.id, origin, detail),
                    )
                };
                match origin {
                    Origin::CommandLine => {
                        any_explicit = true;
                        kinds_seen.insert("commandline");
                        if got.and_then(|g| g.source.clone()) != Some(Source::CommandLine) {
                            return bad("wrong-source", format!("reported {:?}", got.map(|g| &g.source)));
                        }
                    }
                    Origin::Env(vals) => {
                        any_explicit = true;
                        kinds_seen.insert("env");
                        match got {
                            Some(g) if g.source == Some(Source::Env) => {
                                if g.flat() != *vals {
                                    return bad("wrong-env-values", format!("reported {:?}", show_occ(&g.occurrences)));
                                }
                            }
                            other => return bad("wrong-source", format!("reported {:?}", other.map(|g| (&g.source, show_occ(&g.occurrences))))),
                        }
                    }
                    Origin::Default(vals) => {
                        kinds_seen.insert("default");
                        match got {
                            Some(g) if g.source == Some(Source::Default) => {
                                if g.flat() != *vals {
                                    return bad("wrong-default-values", format!("reported {:?}", show_occ(&g.occurrences)));
                                }
                            }
                            other => return bad("wrong-source", format!("reported {:?}", other.map(|g| (&g.source, show_occ(&g.occurrences))))),
                        }
                    }
                    Origin::DefaultUnknown => {
                        ctx.label("conditional-default-on-defaulted-argument(not-compared)");
                        if let Some(g) = got {
                            if g.source != Some(Source::Default) {
                                return bad("wrong-source", format!("reported {:?}", g.source));
                            }
                        }
                    }
                    Origin::Absent => {
                        if let Some(g) = got {
                            if g.source.is_some() || !g.occurrences.is_empty() {
                                return bad("invented-value", format!("reported {:?} {:?}", g.source, show_occ(&g.occurrences)));
                            }
                        }
                    }
                    Origin::EnvInvalid => {}
                }
            }
            // a group is as present as its most explicit member (command line > environment; defaults are not presence)
            for g in &lvspec.groups {
                let strongest = g
                    .args
                    .iter()
                    .filter_map(|mid| match origins.get(mid) {
                        Some(Origin::CommandLine) => Some(2),
                        Some(Origin::Env(_)) => Some(1),
                        _ => None,
                    })
                    .max();
                let want = match strongest {
                    Some(2) => Some(clap::parser::ValueSource::CommandLine),
                    Some(_) => Some(clap::parser::ValueSource::EnvVariable),
                    None => None,
                };
                let mut lm = &m;
                for (lv, _) in levels.iter().take(li) {
                    let _ = lv;
                    match lm.subcommand() {
                        Some((_, sm)) => lm = sm,
                        None => break,
                    }
                }
                let got = lm.value_source(&g.id);
                ensure!(
                    got == want,
                    "sources:group-source",
                    "argv {:?}: level {li} group {:?} (members {:?}) should report source {:?}, reports {:?}",
                    case.argv,
                    g.id,
                    g.args,
                    want,
                    got
                );
                if g.args.iter().filter(|mid| matches!(origins.get(*mid), Some(Origin::CommandLine) | Some(Origin::Env(_)))).count() >= 2 {
                    ctx.label("group-with-members-of-two-origins");
                }
            }
            if o.args_present != any_explicit {
                return Verdict::fail(
                    "sources:args_present",
                    format!("argv {:?}: level {li} args_present() = {} but explicit arguments: {}", case.argv, o.args_present, any_explicit),
                );
            }
            if let Some((_, s)) = &o.sub {
                o = s;
            }
        }
        if multi_origin_arg && kinds_seen.len() >= 2 {
            ctx.nontrivial();
        }
        if case.ignore_errors_probe {
            ctx.label("ignore_errors-recovery-path");
        }
        for k in kinds_seen {
            ctx.label(k);
        }
        Verdict::Pass
    }
}

pub fn check() -> Check {
    Check {
        id: "C06",
        parts: vec![Box::new(Gen(Sources))],
        assumptions: vec![
            "Arg::env snapshots the variable when the definition is created; the harness sets it under a lock just for that moment".into(),
            "a conditional default whose condition argument is itself present only by default depends on definition order, which is not \
             documented: such arguments are only required to be default-sourced or absent"
                .into(),
            "relations are placed so that the explicit set satisfies them literally; the interesting ones touch default-present arguments".into(),
        ],
    }
}
