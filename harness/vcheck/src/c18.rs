//! C18 — The dynamic completion engine never fails and only offers valid continuations.

use crate::util::os;
use clap::error::ErrorKind;
use clap_complete::engine::complete;
use serde::{Deserialize, Serialize};
use std::collections::HashSet;
use vcore::*;
use vmodel::argv::gen_argv_broad;
use vmodel::gen::{gen_broad, GenOpts};
use vmodel::{build_checked, Built, CmdSpec};

// ------------------------------------------------------------------ part A

#[derive(Serialize, Deserialize, Hash, Clone, Debug)]
pub struct TotalCase {
    pub spec: CmdSpec,
    #[serde(with = "crate::util::argv_hex")]
    pub argv: Vec<Vec<u8>>,
    /// the same `Command` value has parsed the line once before it is handed to the engine
    #[serde(default)]
    pub used_first: bool,
}

pub struct Total;

/// The definition after it has been used for one parse (lazily built along the path the parse took).
fn used_once(cmd: &clap::Command, line: Vec<std::ffi::OsString>) -> clap::Command {
    let mut used = cmd.clone();
    let _ = catch(|| used.try_get_matches_from_mut(line).map(|_| ()).map_err(|_| ()));
    used
}

fn run_complete(cmd: &clap::Command, argv: &[Vec<u8>], index: usize) -> Result<Result<Vec<(String, bool, Option<String>)>, String>, PanicInfo> {
    let args: Vec<std::ffi::OsString> = argv.iter().map(|b| os(b)).collect();
    catch(|| {
        let mut cmd = cmd.clone();
        match complete(&mut cmd, args, index, None) {
            Ok(cands) => Ok(cands
                .iter()
                .map(|c| {
                    let _ = (c.get_help(), c.get_tag(), c.get_display_order());
                    (c.get_value().to_string_lossy().into_owned(), c.is_hide_set(), c.get_id().cloned())
                })
                .collect()),
            Err(e) => Err(e.to_string()),
        }
    })
}

impl Property for Total {
    type Case = TotalCase;
    fn name(&self) -> &'static str {
        "engine-total"
    }
    fn rule(&self) -> String {
        "broad command trees (as for C01, incl. hyphen-accepting options/positionals, multi-value options, external and flag \
         subcommands, no_binary_name) x argv built from the spec's spellings, dash-looking values, --, unknown flags, =-forms, clusters, \
         non-UTF-8 bytes x EVERY cursor index 0..=len+1 (each index is one engine call; current_dir = None so the file system is never \
         read). Oracle: the call returns Ok(candidates) or the plain 'no completion generated' io::Error; never a panic; candidate \
         accessors evaluate. Non-trivial: argv has >= 2 tokens after the binary name; distinct = distinct (spec, argv)."
            .into()
    }
    fn budget(&self, tier: Tier) -> Budget {
        Budget {
            cases: tier.pick(400_000, 10_000_000),
            tape_len: 4000,
        }
    }
    fn decode(&self, t: &mut Tape<'_>) -> TotalCase {
        let opts = GenOpts {
            ignore_errors: false,
            ..GenOpts::default()
        };
        let mut spec = gen_broad(t, &opts);
        spec.settings.multicall = false;
        let mut argv = gen_argv_broad(t, &spec);
        argv.truncate(24);
        let used_first = t.chance(1, 4);
        TotalCase { spec, argv, used_first }
    }
    fn run(&self, case: &TotalCase, ctx: &mut Ctx) -> Verdict {
        let cmd = match build_checked(&case.spec) {
            Built::Ok(c) => c,
            Built::Invalid(_) => return Verdict::Discard("invalid-config"),
            Built::Panic(p) => return Verdict::Fail(Failure::from_panic(&p)),
        };
        let cmd = if case.used_first {
            ctx.label("completed-after-a-parse");
            used_once(&cmd, case.argv.iter().map(|b| os(b)).collect())
        } else {
            cmd
        };
        let mut some_candidates = false;
        for index in 0..=case.argv.len() + 1 {
            // the word under the cursor may also be a fresh empty word appended at the end
            let mut argv = case.argv.clone();
            if index >= argv.len() {
                argv.push(Vec::new());
            }
            match run_complete(&cmd, &argv, index) {
                Err(p) => {
                    return Verdict::fail(
                        p.signature(),
                        format!(
                            "complete() panicked at {}:{} for cursor index {} of {:?}: {}",
                            p.file,
                            p.line,
                            index,
                            argv.iter().map(|a| show_bytes(a)).collect::<Vec<_>>(),
                            p.message
                        ),
                    )
                }
                Ok(Ok(c)) => {
                    // a cursor index past the last word points at no word: there is nothing to complete
                    ensure!(
                        index < argv.len() || c.is_empty(),
                        "engine:candidates-for-an-index-past-the-line",
                        "cursor index {index} of a line of {} words {:?}: candidates {:?}",
                        argv.len(),
                        argv.iter().map(|a| show_bytes(a)).collect::<Vec<_>>(),
                        c.iter().map(|x| &x.0).collect::<Vec<_>>()
                    );
                    if !c.is_empty() {
                        some_candidates = true;
                    }
                }
                Ok(Err(msg)) => {
                    ensure!(
                        msg == "no completion generated",
                        "engine:unexpected-error",
                        "cursor index {index}: engine returned error {msg:?}"
                    );
                    ctx.label("no-completion-generated");
                }
            }
        }
        if some_candidates {
            ctx.label("some-candidates");
        }
        if case.argv.len() >= 3 {
            ctx.nontrivial();
        }
        Verdict::Pass
    }
    fn json_shrinkable(&self) -> bool {
        true
    }
}

// ------------------------------------------------------------------ part B

#[derive(Serialize, Deserialize, Hash, Clone, Debug)]
pub struct ValidCase {
    pub spec: CmdSpec,
    /// subcommand spellings (names or aliases) leading to the level, interleaved with complete flag tokens
    pub prefix: Vec<String>,
    /// names along the path (canonical), to find the level
    pub path: Vec<String>,
    pub word: String,
    /// the same `Command` value has parsed `prog <path...>` once before it is handed to the engine
    #[serde(default)]
    pub used_first: bool,
}

pub struct Valid;

struct Item {
    id: String,
    hidden: bool,
    /// (spelling, visible)
    spellings: Vec<(String, bool)>,
}

fn level_items(cmd: &clap::Command) -> (Vec<Item>, Vec<Item>) {
    let mut opts = Vec::new();
    for a in cmd.get_arguments() {
        if a.is_positional() {
            continue;
        }
        let mut sp = Vec::new();
        if let Some(l) = a.get_long() {
            sp.push((format!("--{l}"), true));
        }
        let vis: HashSet<String> = a.get_visible_aliases().unwrap_or_default().iter().map(|s| s.to_string()).collect();
        for al in a.get_all_aliases().unwrap_or_default() {
            sp.push((format!("--{al}"), vis.contains(al)));
        }
        if let Some(s) = a.get_short() {
            sp.push((format!("-{s}"), true));
        }
        let vis_s: HashSet<char> = a.get_visible_short_aliases().unwrap_or_default().into_iter().collect();
        for al in a.get_all_short_aliases().unwrap_or_default() {
            sp.push((format!("-{al}"), vis_s.contains(&al)));
        }
        opts.push(Item {
            id: format!("arg::{}", a.get_id()),
            hidden: a.is_hide_set(),
            spellings: sp,
        });
    }
    let mut subs = Vec::new();
    for sc in cmd.get_subcommands() {
        let mut sp = vec![(sc.get_name().to_owned(), true)];
        let vis: HashSet<String> = sc.get_visible_aliases().map(|s| s.to_string()).collect();
        for al in sc.get_all_aliases() {
            sp.push((al.to_owned(), vis.contains(al)));
        }
        subs.push(Item {
            id: format!("command::{}", sc.get_name()),
            hidden: sc.is_hide_set(),
            spellings: sp,
        });
    }
    (opts, subs)
}

fn run_valid(case: &ValidCase, ctx: &mut Ctx) -> Verdict {
    let cmd = match build_checked(&case.spec) {
        Built::Ok(c) => c,
        Built::Invalid(_) => return Verdict::Discard("invalid-config"),
        Built::Panic(p) => return Verdict::Fail(Failure::from_panic(&p)),
    };
    let mut built = cmd.clone();
    built.build();
    let mut level: &clap::Command = &built;
    for name in &case.path {
        match level.find_subcommand(name) {
            Some(s) => level = s,
            None => return Verdict::Discard("path-not-in-tree"),
        }
    }
    let (opts, subs) = level_items(level);
    let nbn = case.spec.settings.no_binary_name;
    let mut argv: Vec<Vec<u8>> = if nbn { vec![] } else { vec![b"prog".to_vec()] };
    argv.extend(case.prefix.iter().map(|s| s.as_bytes().to_vec()));
    argv.push(case.word.as_bytes().to_vec());
    let index = argv.len() - 1;
    let cmd = if case.used_first {
        ctx.label("completed-after-a-parse");
        let mut line: Vec<std::ffi::OsString> = if nbn { vec![] } else { vec!["prog".into()] };
        // (walk part of the way only: the levels below the last one visited are still unbuilt)
        line.extend(case.path.iter().take(case.path.len().saturating_sub(1).max(1)).map(|s| s.into()));
        used_once(&cmd, line)
    } else {
        cmd
    };
    let cands = match run_complete(&cmd, &argv, index) {
        Err(p) => return Verdict::Fail(Failure::from_panic(&p)),
        Ok(Err(e)) => return Verdict::fail("engine:no-completion-at-cursor", format!("{case:?}: engine returned {e:?}")),
        Ok(Ok(c)) => c,
    };
    let w = case.word.as_str();
    let show = || format!("prefix {:?} word {:?} level {:?}", case.prefix, w, case.path);
    // real parser on the prefix alone: only judge points the real parser reaches without
    // an unknown-argument problem of its own
    let prefix_argv: Vec<String> = if nbn { None } else { Some("prog".to_owned()) }
        .into_iter()
        .chain(case.prefix.iter().cloned())
        .collect();
    if let Err(e) = cmd.clone().try_get_matches_from(prefix_argv.clone()) {
        if matches!(e.kind(), ErrorKind::UnknownArgument | ErrorKind::InvalidSubcommand) {
            return Verdict::Discard("prefix-not-accepted-by-parser");
        }
    }
    let word_is_cluster = w.starts_with('-') && !w.starts_with("--") && w.len() > 1;
    let mut offered_ids: HashSet<String> = HashSet::new();
    let mut any_visible_item_candidate = false;
    let mut hidden_candidates: Vec<String> = Vec::new();
    for (value, hide, id) in &cands {
        let is_opt = value.starts_with('-');
        let sub_item = subs.iter().find(|s| s.spellings.iter().any(|(sp, _)| sp == value));
        if is_opt {
            ensure!(value.starts_with(w), "engine:candidate-does-not-extend-word", "{}: candidate {:?}", show(), value);
            // which option does it spell?
            let item = if value.starts_with("--") {
                let name = value.split('=').next().unwrap_or(value);
                opts.iter().find(|o| o.spellings.iter().any(|(sp, _)| sp == name))
            } else {
                let last = value.chars().last().unwrap();
                opts.iter().find(|o| o.spellings.iter().any(|(sp, _)| *sp == format!("-{last}")))
            };
            let Some(item) = item else {
                return Verdict::fail(
                    "engine:candidate-names-nothing",
                    format!("{}: candidate {:?} is not a spelling of any option of the level", show(), value),
                );
            };
            if let Some(id) = id {
                offered_ids.insert(id.clone());
            }
            offered_ids.insert(item.id.clone());
            let spelled_hidden = item.hidden || {
                let name = if value.starts_with("--") { value.clone() } else { format!("-{}", value.chars().last().unwrap()) };
                item.spellings.iter().any(|(sp, vis)| *sp == name && !*vis)
            };
            if spelled_hidden || *hide {
                hidden_candidates.push(value.clone());
            } else {
                any_visible_item_candidate = true;
            }
            // accepted by the real parser as such
            let mut line = prefix_argv.clone();
            line.push(value.clone());
            if let Err(e) = cmd.clone().try_get_matches_from(line.clone()) {
                if matches!(e.kind(), ErrorKind::UnknownArgument | ErrorKind::InvalidSubcommand) {
                    let rendered = e.to_string();
                    return Verdict::fail(
                        "engine:candidate-rejected-by-parser",
                        format!("{}: candidate {:?} -> the real parser says {:?}: {}", show(), value, e.kind(), rendered),
                    );
                }
            }
        } else if let Some(item) = sub_item {
            ensure!(value.starts_with(w), "engine:candidate-does-not-extend-word", "{}: candidate {:?}", show(), value);
            offered_ids.insert(item.id.clone());
            let spelled_hidden = item.hidden || item.spellings.iter().any(|(sp, vis)| sp == value && !*vis);
            if spelled_hidden || *hide {
                hidden_candidates.push(value.clone());
            } else {
                any_visible_item_candidate = true;
            }
            let mut line = prefix_argv.clone();
            line.push(value.clone());
            if let Err(e) = cmd.clone().try_get_matches_from(line.clone()) {
                if matches!(e.kind(), ErrorKind::UnknownArgument | ErrorKind::InvalidSubcommand) {
                    return Verdict::fail(
                        "engine:candidate-rejected-by-parser",
                        format!("{}: subcommand candidate {:?} -> {:?}: {}", show(), value, e.kind(), e),
                    );
                }
            }
        } else {
            // a value candidate (possible value of a positional): not judged
            ctx.label("value-candidate");
            if !*hide {
                // visible value candidates also displace hidden ones; nothing to check
            }
        }
    }
    // completeness: every visible item with a visible spelling extending the word is represented
    let mut visible_matching = 0;
    // a word that looks like a negative number is deliberately left alone by the engine (it may be
    // a value); nothing is demanded for it
    let numberish = w.len() > 1 && w.starts_with('-') && crate::c13::ref_is_number(w[1..].as_bytes());
    if numberish {
        ctx.exclude("word-looks-like-a-negative-number");
    }
    for o in opts.iter().filter(|o| !o.hidden && !numberish) {
        let extends = o.spellings.iter().filter(|(_, vis)| *vis).any(|(sp, _)| {
            if word_is_cluster {
                // `-ab` + short: any short spelling extends a cluster word
                !sp.starts_with("--")
            } else {
                sp.starts_with(w)
            }
        });
        if extends {
            visible_matching += 1;
            ensure!(
                offered_ids.contains(&o.id),
                "engine:visible-option-not-offered",
                "{}: option {} has a visible spelling extending the word but no candidate names it; candidates {:?}",
                show(),
                o.id,
                cands.iter().map(|c| &c.0).collect::<Vec<_>>()
            );
        }
    }
    if !w.starts_with('-') {
        for s in subs.iter().filter(|s| !s.hidden) {
            if s.spellings.iter().filter(|(_, vis)| *vis).any(|(sp, _)| sp.starts_with(w)) {
                visible_matching += 1;
                ensure!(
                    offered_ids.contains(&s.id),
                    "engine:visible-subcommand-not-offered",
                    "{}: subcommand {} has a visible spelling extending the word but no candidate names it; candidates {:?}",
                    show(),
                    s.id,
                    cands.iter().map(|c| &c.0).collect::<Vec<_>>()
                );
            }
        }
    }
    // hidden ones only when nothing visible matches
    if visible_matching > 0 || any_visible_item_candidate {
        ensure!(
            hidden_candidates.is_empty(),
            "engine:hidden-offered-beside-visible",
            "{}: hidden candidates {:?} offered although visible items match; candidates {:?}",
            show(),
            hidden_candidates,
            cands.iter().map(|c| &c.0).collect::<Vec<_>>()
        );
    }
    if !hidden_candidates.is_empty() {
        ctx.label("only-hidden-items-match");
    }
    let total_items = opts.len() + subs.len();
    if (case.path.len() >= 1 || w.len() >= 2) && !cands.is_empty() && visible_matching < total_items {
        ctx.nontrivial();
    }
    if word_is_cluster {
        ctx.label("cluster-word");
    }
    if case.path.len() >= 1 {
        ctx.label("depth>=1");
    }
    Verdict::Pass
}

impl Property for Valid {
    type Case = ValidCase;
    fn name(&self) -> &'static str {
        "engine-valid-complete"
    }
    fn rule(&self) -> String {
        "conventional command trees (no hyphen-value settings, no exotic parser settings; visible/hidden aliases, short aliases, hidden \
         args and subcommands, possible values) x a prefix that ends where a new argument may start (subcommand path by name or alias, \
         interleaved with complete tokens: no-value flags and --opt=value) x a word under the cursor that is a prefix of a legal token \
         (empty, -, --, prefix of a long/alias, cluster of no-value shorts, prefix of a subcommand name/alias, or a non-matching word). \
         Oracle: every candidate starting with - or equal to a subcommand spelling of the level extends the word, spells an \
         option/alias/subcommand of that level (items read from the built Command's getters), and `prefix + candidate` is not \
         UnknownArgument/InvalidSubcommand for the real parser; every non-hidden option/subcommand with a visible spelling extending the \
         word is represented by a candidate of the same item; hidden items (hide(true) or hidden aliases) are offered only if no visible \
         item matches. Non-trivial: depth >= 1 or word of >= 2 chars, with >= 1 candidate and not all items matching."
            .into()
    }
    fn budget(&self, tier: Tier) -> Budget {
        Budget {
            cases: tier.pick(200_000, 5_000_000),
            tape_len: 3500,
        }
    }
    fn decode(&self, t: &mut Tape<'_>) -> ValidCase {
        let opts = GenOpts {
            relations: false,
            hyphen_values: false,
            exotic_settings: false,
            ignore_errors: false,
            external: false,
            flag_subcommands: false,
            globals: true,
            env: false,
            help_version_actions: false,
            ..GenOpts::default()
        };
        let mut spec = gen_broad(t, &opts);
        // hidden things
        fn sprinkle(c: &mut CmdSpec, t: &mut Tape<'_>) {
            // (a subcommand name after values of a still-collecting positional is only a subcommand with this setting)
            c.settings.subcommand_precedence_over_arg = t.chance(1, 5);
            for a in &mut c.args {
                a.hide = t.chance(1, 6);
                a.required = false;
            }
            for s in &mut c.subs {
                s.hide = t.chance(1, 6);
                sprinkle(s, t);
            }
        }
        sprinkle(&mut spec, t);
        spec.settings.no_binary_name = t.chance(1, 6);
        // walk down
        let mut prefix = Vec::new();
        let mut path = Vec::new();
        let mut level: &CmdSpec = &spec;
        loop {
            // complete tokens at this level
            for a in level.args.iter().filter(|a| !a.is_positional()) {
                if t.chance(1, 5) {
                    let name = match (&a.long, a.short) {
                        (Some(l), _) => format!("--{l}"),
                        (None, Some(s)) => format!("-{s}"),
                        _ => continue,
                    };
                    if !a.action.takes_values() {
                        prefix.push(name);
                    } else if a.long.is_some() && a.value_range().1 >= 1 {
                        prefix.push(format!("{name}={}", vmodel::gen::good_value(t, &a.parser)));
                    }
                }
            }
            let descend = !(level.subs.is_empty() || t.chance(1, 3));
            // values for the first positional: a single-value one is simply filled; a multi-value one keeps collecting,
            // so the line only goes on to a subcommand where subcommands take precedence
            if let Some(p0) = level.args.iter().find(|a| a.is_positional() && !a.last && a.index.is_none()) {
                let multi = p0.value_range().1 > 1 || p0.action == vmodel::Action::Append;
                let plain = |t: &mut Tape<'_>| {
                    let v = vmodel::gen::good_value(t, &p0.parser);
                    if v.starts_with('-') || level.subs.iter().any(|s| s.all_names().contains(&v)) || v == "help" {
                        "v9".to_owned()
                    } else {
                        v
                    }
                };
                let typed_ok = matches!(p0.parser, vmodel::ParserSpec::Str | vmodel::ParserSpec::OsStr | vmodel::ParserSpec::PathBuf);
                if typed_ok && p0.value_terminator.is_none() && p0.value_delimiter.is_none() {
                    if !multi && t.chance(1, 4) {
                        prefix.push(plain(t));
                    } else if multi && descend && level.settings.subcommand_precedence_over_arg && t.chance(1, 2) {
                        for _ in 0..t.range(1, 2) {
                            prefix.push(plain(t));
                        }
                    }
                }
            }
            if !descend {
                break;
            }
            let sc = &level.subs[t.choose(level.subs.len())];
            let names = sc.all_names();
            prefix.push(t.pick(&names).clone());
            path.push(sc.name.clone());
            level = sc;
        }
        // the word
        let mut spellings: Vec<String> = Vec::new();
        for a in &level.args {
            if let Some(l) = &a.long {
                spellings.push(format!("--{l}"));
            }
            spellings.extend(a.aliases.iter().map(|x| format!("--{}", x.0)));
        }
        for s in &level.subs {
            spellings.extend(s.all_names());
        }
        spellings.push("--help".into());
        spellings.push("help".into());
        let flags: Vec<char> = level
            .args
            .iter()
            .filter(|a| !a.action.takes_values() && !a.is_positional())
            // primary shorts and short aliases, visible or hidden (the real parser accepts them all in a cluster)
            .flat_map(|a| a.short.into_iter().chain(a.short_aliases.iter().map(|x| x.0)))
            .collect();
        let word = match t.weighted(&[3, 2, 2, 5, 2, 1]) {
            0 => String::new(),
            1 => "-".to_owned(),
            2 => "--".to_owned(),
            3 => {
                let s = t.pick(&spellings).clone();
                let n = s.chars().count();
                let k = t.range(1, n);
                s.chars().take(k).collect()
            }
            4 if !flags.is_empty() => {
                let n = t.range(1, 3);
                let mut w = String::from("-");
                for _ in 0..n {
                    w.push(*t.pick(&flags));
                }
                w
            }
            // garbage that is not a dash cluster (a cluster with an undefined letter is not a
            // prefix of any legal token, so nothing is claimed about extending it)
            _ => (*t.pick(&["zz", "--zz", "x", "q-"])).to_owned(),
        };
        let used_first = t.chance(1, 4);
        ValidCase { spec, prefix, path, word, used_first }
    }
    fn run(&self, case: &ValidCase, ctx: &mut Ctx) -> Verdict {
        run_valid(case, ctx)
    }
}

// ---------------------------------------------------------------------------
// below the generated `help` subcommand

/// `prog help [sub...] <TAB>`: the level reached is the name-only copy of the tree that hangs below the generated
/// `help` subcommand. Which subcommands are hidden is read from the description, not from that copy.
#[derive(Serialize, Deserialize, Hash, Clone, Debug)]
pub struct HelpTreeCase {
    pub spec: CmdSpec,
    /// real subcommand names after `help`
    pub path: Vec<String>,
    pub word: String,
}

pub struct HelpTree;

impl Property for HelpTree {
    type Case = HelpTreeCase;
    fn name(&self) -> &'static str {
        "engine-below-help"
    }
    fn rule(&self) -> String {
        "broad command trees that keep the generated help subcommand, hidden subcommands sprinkled in x a path of real subcommand \
         names after `help` x a word under the cursor (empty, or a prefix of a subcommand name of that level). Oracle: no panic; \
         every candidate is the name of a subcommand of the level the path names (or `help` directly below `help`) and extends \
         the word; every visible subcommand whose name extends the word is offered; hidden ones (per the description) only when \
         no visible one is. non-trivial = the level has a hidden and a visible subcommand extending the word; distinct = \
         distinct (spec, path, word)"
            .into()
    }
    fn budget(&self, tier: Tier) -> Budget {
        Budget { cases: tier.pick(100_000, 2_000_000), tape_len: 3500 }
    }
    fn decode(&self, t: &mut Tape<'_>) -> HelpTreeCase {
        let opts = GenOpts {
            relations: false,
            hyphen_values: false,
            exotic_settings: false,
            ignore_errors: false,
            external: false,
            flag_subcommands: false,
            globals: false,
            env: false,
            help_version_actions: false,
            ..GenOpts::default()
        };
        let mut spec = gen_broad(t, &opts);
        fn prep(c: &mut CmdSpec, t: &mut Tape<'_>) {
            c.settings.disable_help_subcommand = false;
            for s in &mut c.subs {
                s.hide = t.chance(1, 3);
                prep(s, t);
            }
        }
        prep(&mut spec, t);
        spec.settings.no_binary_name = false;
        spec.settings.multicall = false;
        let mut path = Vec::new();
        let mut level: &CmdSpec = &spec;
        while !level.subs.is_empty() && t.chance(1, 2) {
            let sc = &level.subs[t.choose(level.subs.len())];
            path.push(sc.name.clone());
            level = sc;
        }
        let word = if level.subs.is_empty() || t.chance(1, 2) {
            String::new()
        } else {
            let n = &level.subs[t.choose(level.subs.len())].name;
            let k = t.range(1, n.chars().count());
            n.chars().take(k).collect()
        };
        HelpTreeCase { spec, path, word }
    }
    fn run(&self, case: &HelpTreeCase, ctx: &mut Ctx) -> Verdict {
        let cmd = match build_checked(&case.spec) {
            Built::Ok(c) => c,
            Built::Invalid(_) => return Verdict::Discard("invalid-config"),
            Built::Panic(p) => return Verdict::Fail(Failure::from_panic(&p)),
        };
        if case.spec.subs.is_empty() || case.spec.subs.iter().any(|s| s.name == "help") {
            return Verdict::Discard("no-generated-help-subcommand");
        }
        let mut level: &CmdSpec = &case.spec;
        for n in &case.path {
            match level.subs.iter().find(|s| s.name == *n) {
                Some(s) => level = s,
                None => return Verdict::Discard("path-not-in-tree"),
            }
        }
        let mut argv: Vec<Vec<u8>> = vec![b"prog".to_vec(), b"help".to_vec()];
        argv.extend(case.path.iter().map(|s| s.as_bytes().to_vec()));
        argv.push(case.word.as_bytes().to_vec());
        let index = argv.len() - 1;
        let cands = match run_complete(&cmd, &argv, index) {
            Err(p) => return Verdict::Fail(Failure::from_panic(&p)),
            Ok(Err(e)) => return Verdict::fail("engine:below-help:no-completion", format!("{:?} {:?}: engine returned {e:?}", case.path, case.word)),
            Ok(Ok(c)) => c,
        };
        let w = case.word.as_str();
        let show = || format!("prog help {:?} word {:?}: candidates {:?}", case.path, w, cands.iter().map(|c| &c.0).collect::<Vec<_>>());
        let mut visible_offered = false;
        let mut hidden_offered: Vec<String> = Vec::new();
        for (value, hide, _) in &cands {
            ensure!(value.starts_with(w), "engine:below-help:candidate-does-not-extend-word", "{}: {:?}", show(), value);
            if case.path.is_empty() && value == "help" {
                visible_offered = true;
                continue;
            }
            let Some(sc) = level.subs.iter().find(|s| s.name == *value) else {
                return Verdict::fail("engine:below-help:candidate-names-nothing", format!("{}: {:?} is no subcommand of that level", show(), value));
            };
            if sc.hide || *hide {
                hidden_offered.push(value.clone());
            } else {
                visible_offered = true;
            }
        }
        let mut visible_match = false;
        for sc in level.subs.iter().filter(|s| !s.hide && s.name.starts_with(w)) {
            visible_match = true;
            ensure!(
                cands.iter().any(|c| c.0 == sc.name),
                "engine:below-help:visible-subcommand-not-offered",
                "{}: {:?} is visible and extends the word",
                show(),
                sc.name
            );
        }
        if visible_match || visible_offered {
            ensure!(
                hidden_offered.is_empty(),
                "engine:below-help:hidden-offered-beside-visible",
                "{}: hidden subcommands {:?} offered although visible ones match",
                show(),
                hidden_offered
            );
        }
        if visible_match && level.subs.iter().any(|s| s.hide && s.name.starts_with(w)) {
            ctx.nontrivial();
        }
        ctx.label(if case.path.is_empty() { "directly-below-help" } else { "deeper-below-help" });
        Verdict::Pass
    }
}

pub fn check() -> Check {
    Check {
        id: "C18",
        parts: vec![Box::new(Gen(Total)), Box::new(Gen(Valid)), Box::new(Gen(HelpTree))],
        assumptions: vec![
            "current_dir = None and no path value hints: the file system is never consulted".into(),
            "part B judges only points where a new argument may start (prefix of complete tokens, no pending option, no `--`); candidate \
             kinds are told apart by spelling (leading '-' = option, equal to a subcommand spelling = subcommand, anything else = value, \
             not judged)"
                .into(),
            "the shell adapters (env/shells.rs) are not covered".into(),
        ],
    }
}
