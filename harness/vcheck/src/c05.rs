//! C05 — Everything after `--` is delivered verbatim as positional values.

use crate::util::os;
use serde::{Deserialize, Serialize};
use vcore::*;
use vmodel::conv::*;
use vmodel::observe::{observe, LevelObs};
use vmodel::{build_checked, Action, ArgSpec, Built, CmdSpec, ParserSpec};

#[derive(Serialize, Deserialize, Hash, Clone, Debug)]
pub struct EscCase {
    pub spec: CmdSpec,
    /// what comes before the marker
    pub prefix: Invocation,
    /// spelled prefix, ending with the `--` token
    pub head: Vec<String>,
    /// tokens after the marker
    pub tail: Vec<String>,
    /// run the whole line one level down: `prog sub <line>`, the described command being `sub`; the global settings
    /// (dont_delimit_trailing_values, inference, ...) are declared on `prog` only and have to reach `sub`
    #[serde(default)]
    pub nested: bool,
    /// nested two levels deep (`prog mid sub <line>`): global settings have to travel through `mid`
    #[serde(default)]
    pub deep: bool,
}

/// `prog` with the described command as its only subcommand `sub` (see `EscCase::nested`)
fn nest(spec: &CmdSpec, deep: bool) -> CmdSpec {
    let mut inner = spec.clone();
    inner.name = "sub".to_owned();
    inner.term_width = None;
    inner.settings.inherit_globals = true;
    let mut outer = CmdSpec { name: "prog".to_owned(), term_width: Some(80), ..Default::default() };
    outer.settings.infer_long_args = spec.settings.infer_long_args;
    outer.settings.infer_subcommands = spec.settings.infer_subcommands;
    outer.settings.args_override_self = spec.settings.args_override_self;
    outer.settings.dont_delimit_trailing_values = spec.settings.dont_delimit_trailing_values;
    if deep {
        let mut mid = CmdSpec { name: "mid".to_owned(), ..Default::default() };
        mid.settings.inherit_globals = true;
        mid.settings.infer_long_args = spec.settings.infer_long_args;
        mid.settings.infer_subcommands = spec.settings.infer_subcommands;
        mid.settings.args_override_self = spec.settings.args_override_self;
        mid.settings.dont_delimit_trailing_values = spec.settings.dont_delimit_trailing_values;
        mid.subs.push(inner);
        outer.subs.push(mid);
    } else {
        outer.subs.push(inner);
    }
    outer
}

pub struct Escape;

fn dec(v: &[String]) -> Vec<Vec<u8>> {
    v.iter().map(|s| vals_hex::decode(s).unwrap_or_else(|_| s.as_bytes().to_vec())).collect()
}

fn positional_concat(spec: &CmdSpec, obs: &LevelObs) -> Vec<Vec<u8>> {
    let mut out = Vec::new();
    for a in spec.args.iter().filter(|a| a.is_positional()) {
        if let Some(o) = obs.arg(&a.id) {
            if o.source == Some(vmodel::observe::Source::CommandLine) {
                out.extend(o.flat());
            }
        }
    }
    out
}

impl Property for Escape {
    type Case = EscCase;
    fn name(&self) -> &'static str {
        "escape-tail"
    }
    fn rule(&self) -> String {
        "conventional commands whose final positional can absorb any number of values (num_args 0.. or 1.., OS-string or string \
         values, with/without last(true), sometimes trailing_var_arg or a delimiter together with \
         dont_delimit_trailing_values, optional earlier positionals, options of every count shape, flags, subcommands, inference \
         on/off) x a prefix = a complete valid invocation of the root level (spelled freely, never leaving the absorbing positional \
         collecting when it is a trailing_var_arg) x `--` x a tail of 0-8 tokens biased towards things that \
         mean something without the marker: --help, -h, --version, the command's own longs/shorts/=-forms/clusters, subcommand names \
         and aliases, another --, the empty string, dash-leading junk, non-UTF-8 (OS-string positionals only). Oracle: the parse is Ok, \
         reports no subcommand, and the command-line positional values in index order are exactly (prefix positionals ++ tail), byte \
         for byte; every flag/option has the same observation (values per occurrence, indices, source) as when the prefix is parsed \
         alone. Non-trivial: tail of >= 2 tokens with one that would be a flag, option, help/version request or subcommand without the \
         marker; distinct = distinct (spec, head, tail)."
            .into()
    }
    fn budget(&self, tier: Tier) -> Budget {
        Budget {
            cases: tier.pick(1_500_000, 20_000_000),
            tape_len: 1500,
        }
    }
    fn decode(&self, t: &mut Tape<'_>) -> EscCase {
        let co = ConvOpts {
            max_depth: 2,
            low_index_multi: false,
            ..ConvOpts::default()
        };
        let mut spec = gen_conv_spec(t, &co);
        // the absorbing positional: replace / add the final positional
        let os = t.chance(2, 3);
        let mut fin = ArgSpec {
            id: "tail".into(),
            action: if t.chance(1, 3) { Action::Append } else { Action::Set },
            num_args: Some(if t.bool() { (1, usize::MAX) } else { (0, usize::MAX) }),
            parser: if os { ParserSpec::OsStr } else { ParserSpec::Str },
            ..Default::default()
        };
        // drop an existing multi / last positional
        spec.args.retain(|a| !(a.is_positional() && (a.value_range().1 > 1 || a.last || a.action == Action::Append)));
        let mut hyphen_or_tva = false;
        // (a hyphen-accepting positional is left out: it makes `-o=v` style prefix tokens ambiguous)
        match t.weighted(&[6, 2, 1, 0, 2]) {
            0 => {}
            1 => fin.last = true,
            2 => {
                fin.trailing_var_arg = true;
                hyphen_or_tva = true;
            }
            3 => {
                fin.allow_hyphen_values = true;
                hyphen_or_tva = true;
            }
            _ => {
                fin.value_delimiter = Some(',');
                spec.settings.dont_delimit_trailing_values = true;
            }
        }
        if fin.last && t.chance(1, 2) {
            // a terminated multi-value positional in front of the `last` one: whether or not its run was closed
            // before the marker, the tail belongs to the `last` positional
            spec.args.push(ArgSpec {
                id: "mterm".to_owned(),
                action: if t.chance(1, 3) { Action::Append } else { Action::Set },
                num_args: Some((1, usize::MAX)),
                value_terminator: Some(";".to_owned()),
                parser: if os { ParserSpec::OsStr } else { ParserSpec::Str },
                ..Default::default()
            });
        }
        spec.args.push(fin.clone());
        if t.chance(1, 4) {
            spec.settings.positionals_declared_backwards = true;
        }
        if os {
            // tail tokens fill unfilled earlier positionals first
            for a in spec.args.iter_mut().filter(|a| a.is_positional()) {
                a.parser = ParserSpec::OsStr;
            }
        }
        let io = InvOpts { escape: false, ..InvOpts::default() };
        let mut prefix = gen_invocation(t, &spec, &io);
        prefix.levels.truncate(1);
        prefix.levels[0].sub = None;
        if hyphen_or_tva || fin.last {
            // `last` is only reachable after the marker; a collecting hyphen-accepting / trailing-var-arg
            // positional would take the marker itself as a value
            prefix.levels[0].occs.retain(|o| !matches!(o, Occ::Pos { arg, .. } if arg == "tail"));
        }
        if fin.action == Action::Set {
            // a Set positional takes one occurrence: its values before the marker have to be
            // adjacent to the tail (the marker itself does not end the occurrence)
            let occs = &mut prefix.levels[0].occs;
            if let Some(i) = occs.iter().position(|o| matches!(o, Occ::Pos { arg, .. } if arg == "tail")) {
                let p = occs.remove(i);
                occs.push(p);
            }
        }
        prefix.levels[0].occs.push(Occ::Escape);
        let mut st = SpellStats::default();
        let head: Vec<String> = match spell(t, &spec, &prefix, &mut st) {
            Some(sp) => sp.argv.iter().map(|b| show_bytes(b)).collect(),
            None => Vec::new(),
        };
        // the tail
        let mut pool: Vec<Vec<u8>> = vec![
            b"--help".to_vec(),
            b"-h".to_vec(),
            b"--version".to_vec(),
            b"-V".to_vec(),
            b"--".to_vec(),
            b"".to_vec(),
            b"-".to_vec(),
            b"-x".to_vec(),
            b"--nope=1".to_vec(),
            b"help".to_vec(),
            b"v".to_vec(),
            b"a,b".to_vec(),
            b"--=".to_vec(),
        ];
        for a in &spec.args {
            if let Some(l) = &a.long {
                pool.push(format!("--{l}").into_bytes());
                pool.push(format!("--{l}=v").into_bytes());
            }
            if let Some(s) = a.short {
                pool.push(format!("-{s}").into_bytes());
                pool.push(format!("-{s}{s}").into_bytes());
            }
            if let Some(term) = &a.value_terminator {
                pool.push(term.clone().into_bytes());
            }
        }
        for sc in &spec.subs {
            for n in sc.all_names() {
                pool.push(n.into_bytes());
            }
            if let Some(l) = &sc.long_flag {
                pool.push(format!("--{l}").into_bytes());
            }
        }
        if os {
            pool.push(vec![0xff]);
            pool.push(vec![b'-', 0xff]);
            pool.push(vec![b'-', b'-', 0x80, b'=']);
        }
        let n = t.weighted(&[1, 2, 3, 3, 2, 1, 1, 1, 1]);
        let tail: Vec<String> = (0..n).map(|_| { let v: &Vec<u8> = t.pick(&pool[..]); show_bytes(v) }).collect();
        let nested = t.chance(1, 4);
        let deep = nested && t.bool();
        EscCase { spec, prefix, head, tail, nested, deep }
    }
    fn run(&self, case: &EscCase, ctx: &mut Ctx) -> Verdict {
        if case.head.is_empty() {
            return Verdict::Discard("no-unambiguous-spelling");
        }
        let built = if case.nested { build_checked(&nest(&case.spec, case.deep)) } else { build_checked(&case.spec) };
        let cmd = match built {
            Built::Ok(c) => c,
            Built::Invalid(_) => return Verdict::Discard("invalid-config"),
            Built::Panic(p) => return Verdict::Fail(Failure::from_panic(&p)),
        };
        // (nested: the line is given to `prog sub`, everything is observed on the matches of `sub`)
        let line = |argv: &[Vec<u8>]| -> Vec<Vec<u8>> {
            if case.nested && !argv.is_empty() {
                let mut v = vec![argv[0].clone()];
                if case.deep {
                    v.push(b"mid".to_vec());
                }
                v.push(b"sub".to_vec());
                v.extend(argv[1..].iter().cloned());
                v
            } else {
                argv.to_vec()
            }
        };
        let inner = |m: &clap::ArgMatches| -> Option<clap::ArgMatches> {
            if case.nested && case.deep {
                m.subcommand_matches("mid").and_then(|m| m.subcommand_matches("sub")).cloned()
            } else if case.nested {
                m.subcommand_matches("sub").cloned()
            } else {
                Some(m.clone())
            }
        };
        let head = dec(&case.head);
        let tail = dec(&case.tail);
        let Some(exp) = expect(&case.spec, &case.prefix, &[false]) else {
            return Verdict::Discard("invocation-outside-model");
        };
        let mut argv = head.clone();
        argv.extend(tail.iter().cloned());
        let shown: Vec<String> = argv.iter().map(|a| show_bytes(a)).collect();
        let m = match catch(|| cmd.clone().try_get_matches_from(line(&argv).iter().map(|b| os(b)))) {
            Err(p) => return Verdict::Fail(Failure::from_panic(&p)),
            Ok(Err(e)) => {
                return Verdict::fail(
                    format!("escape:tail-interpreted:{:?}", e.kind()),
                    format!("argv {:?}: everything after `--` should be positional values, but clap says: {}", shown, e),
                )
            }
            Ok(Ok(m)) => m,
        };
        let Some(m) = inner(&m) else {
            return Verdict::fail("escape:nested-level-missing", format!("argv {:?}: `prog sub ...` did not reach `sub`", shown));
        };
        let obs = observe(&m);
        ensure!(
            obs.sub.is_none(),
            "escape:tail-became-subcommand",
            "argv {:?}: a token after `--` was taken as subcommand {:?}",
            shown,
            obs.sub.as_ref().map(|s| &s.0)
        );
        // positional values in index order
        let mut want: Vec<Vec<u8>> = Vec::new();
        for a in case.spec.args.iter().filter(|a| a.is_positional()) {
            if let Some(e) = exp[0].args.get(&a.id) {
                want.extend(e.occurrences.iter().flatten().cloned());
            }
        }
        want.extend(tail.iter().cloned());
        let got = positional_concat(&case.spec, &obs);
        if got != want {
            let delim = case.spec.settings.dont_delimit_trailing_values;
            return Verdict::fail(
                if delim { "escape:tail-not-verbatim:dont_delimit_trailing_values" } else { "escape:tail-not-verbatim" },
                format!(
                    "argv {:?}: positional values in index order are {:?}, expected {:?}",
                    shown,
                    got.iter().map(|v| show_bytes(v)).collect::<Vec<_>>(),
                    want.iter().map(|v| show_bytes(v)).collect::<Vec<_>>()
                ),
            );
        }
        // with last(true) the documented behaviour is stronger: everything after the marker goes to
        // that positional even when earlier ones are unfilled
        if case.spec.arg("tail").map(|f| f.last).unwrap_or(false) {
            let got_last = obs.arg("tail").map(|o| o.flat()).unwrap_or_default();
            ensure!(
                got_last == tail,
                "escape:last-positional-does-not-get-the-tail",
                "argv {:?}: the last(true) positional holds {:?}, expected the whole tail {:?}",
                shown,
                got_last.iter().map(|v| show_bytes(v)).collect::<Vec<_>>(),
                case.tail
            );
        }
        // flags and options as without the tail
        if let Err((sig, msg)) = compare_non_positional(&case.spec, &exp[0], &obs) {
            return Verdict::fail(sig, format!("argv {:?}: {}", shown, msg));
        }
        // and exactly as in the parse of the prefix alone
        let alone: Vec<Vec<u8>> = head[..head.len() - 1].to_vec();
        if let Ok(Ok(m0)) = catch(|| cmd.clone().try_get_matches_from(line(&alone).iter().map(|b| os(b)))) {
            let Some(m0) = inner(&m0) else { return Verdict::Pass };
            let o0 = observe(&m0);
            for a in case.spec.args.iter().filter(|a| !a.is_positional()) {
                let (x, y) = (o0.arg(&a.id), obs.arg(&a.id));
                // defaults are numbered after everything given on the command line, so only their
                // values and source are compared
                let key = |o: Option<&vmodel::observe::ArgObs>| {
                    o.map(|o| {
                        let idx = if o.source == Some(vmodel::observe::Source::CommandLine) { o.indices.clone() } else { vec![] };
                        (o.source.clone(), o.occurrences.clone(), idx)
                    })
                };
                if key(x) != key(y) {
                    return Verdict::fail(
                        "escape:tail-disturbs-options",
                        format!("argv {:?}: {:?} is {:?} without the tail but {:?} with it", shown, a.id, x, y),
                    );
                }
            }
            ctx.label("prefix-alone-parses");
        }
        let special = |t: &Vec<u8>| {
            t.starts_with(b"-") && t != b"-" || case.spec.subs.iter().any(|s| s.all_names().iter().any(|n| n.as_bytes() == t.as_slice())) || t == b"help"
        };
        if tail.len() >= 2 && tail.iter().any(special) {
            ctx.nontrivial();
        }
        let fin = case.spec.arg("tail");
        if fin.map(|f| f.last).unwrap_or(false) {
            ctx.label("last(true)");
        }
        if fin.map(|f| f.trailing_var_arg).unwrap_or(false) {
            ctx.label("trailing_var_arg");
        }
        if fin.map(|f| f.allow_hyphen_values).unwrap_or(false) {
            ctx.label("allow_hyphen_values");
        }
        if case.spec.settings.dont_delimit_trailing_values {
            ctx.label("dont_delimit_trailing_values");
        }
        if tail.iter().any(|t| t == b"--") {
            ctx.label("tail-has-second-marker");
        }
        Verdict::Pass
    }
}

/// flags/options of one level against the expectation
fn compare_non_positional(spec: &CmdSpec, exp: &ExpLevel, obs: &LevelObs) -> Result<(), (String, String)> {
    for a in spec.args.iter().filter(|a| !a.is_positional()) {
        let got = obs.arg(&a.id).filter(|o| o.source == Some(vmodel::observe::Source::CommandLine));
        match (exp.args.get(&a.id), got) {
            (None, None) => {}
            (Some(e), Some(g)) => {
                if g.occurrences != e.occurrences || g.indices != e.indices {
                    return Err((
                        "escape:option-values-differ".into(),
                        format!(
                            "{:?}: expected {:?} at {:?}, clap reports {:?} at {:?}",
                            a.id,
                            show_occ(&e.occurrences),
                            e.indices,
                            show_occ(&g.occurrences),
                            g.indices
                        ),
                    ));
                }
            }
            (Some(e), None) => return Err(("escape:option-dropped".into(), format!("{:?} was given ({:?}) but is not reported", a.id, show_occ(&e.occurrences)))),
            (None, Some(g)) => {
                return Err((
                    "escape:option-invented".into(),
                    format!("{:?} was not given before the marker but is reported with {:?}", a.id, show_occ(&g.occurrences)),
                ))
            }
        }
    }
    Ok(())
}

pub fn check() -> Check {
    Check {
        id: "C05",
        parts: vec![Box::new(Gen(Escape))],
        assumptions: vec![
            "a delimiter on the absorbing positional is only generated together with dont_delimit_trailing_values (otherwise splitting \
             at the declared delimiter is the documented behaviour)"
                .into(),
            "the two documented situations in which `--` is itself a value (a collecting positional that accepts hyphen values or is a \
             trailing_var_arg) are excluded by construction"
                .into(),
        ],
    }
}
