//! C13 — Lexing any OS string is a lossless, consistent decomposition.

use crate::util::{enumerate_strings, os, BOUNDARY_ALPHABET};
use clap_lex::{ArgCursor, RawArgs};
use serde::{Deserialize, Serialize};
use vcore::*;

#[derive(Serialize, Deserialize, Hash, Clone, Debug)]
pub enum Op {
    NextFlag,
    NextValue,
    AdvanceBy(u8),
    IsEmpty,
    IsNeg,
    Fork,
}

#[derive(Serialize, Deserialize, Hash, Clone, Debug)]
pub struct LexCase {
    #[serde(with = "crate::util::bytes_hex")]
    pub bytes: Vec<u8>,
    pub ops: Vec<Op>,
}

pub struct Lex;

/// Reference for the number recogniser, restated from its doc comment:
/// ε | [0-9]+ ( '.' [0-9]* )? ( [eE] [0-9]+ )?
pub fn ref_is_number(s: &[u8]) -> bool {
    if s.is_empty() {
        return true;
    }
    let mut i = 0;
    let n = s.len();
    let digits = |i: &mut usize| {
        let st = *i;
        while *i < n && s[*i].is_ascii_digit() {
            *i += 1;
        }
        *i - st
    };
    if digits(&mut i) == 0 {
        return false;
    }
    if i < n && s[i] == b'.' {
        i += 1;
        digits(&mut i);
    }
    if i < n && (s[i] == b'e' || s[i] == b'E') {
        i += 1;
        if digits(&mut i) == 0 {
            return false;
        }
    }
    i == n
}

/// Longest prefix that is valid UTF-8, found by trial (independent of
/// `Utf8Error::valid_up_to`).
pub fn ref_valid_prefix(b: &[u8]) -> usize {
    let mut k = b.len();
    loop {
        if std::str::from_utf8(&b[..k]).is_ok() {
            return k;
        }
        k -= 1;
    }
}

/// Model of the short-flag iterator: remaining chars of the valid prefix and a
/// pending invalid tail.
#[derive(Clone)]
struct ShortModel {
    rest: Vec<u8>, // unread bytes of the valid prefix
    tail: Option<Vec<u8>>,
}

impl ShortModel {
    fn new(after_dash: &[u8]) -> Self {
        let k = ref_valid_prefix(after_dash);
        ShortModel {
            rest: after_dash[..k].to_vec(),
            tail: if k < after_dash.len() { Some(after_dash[k..].to_vec()) } else { None },
        }
    }
    fn next_flag(&mut self) -> Option<Result<char, Vec<u8>>> {
        if !self.rest.is_empty() {
            let s = std::str::from_utf8(&self.rest).unwrap();
            let c = s.chars().next().unwrap();
            self.rest.drain(..c.len_utf8());
            return Some(Ok(c));
        }
        self.tail.take().map(Err)
    }
    fn next_value(&mut self) -> Option<Vec<u8>> {
        if !self.rest.is_empty() {
            let mut v = std::mem::take(&mut self.rest);
            if let Some(t) = self.tail.take() {
                v.extend(t);
            }
            return Some(v);
        }
        self.tail.take()
    }
    fn is_empty(&self) -> bool {
        self.rest.is_empty() && self.tail.is_none()
    }
    fn is_neg(&self) -> bool {
        self.tail.is_none() && ref_is_number(&self.rest)
    }
    fn advance_by(&mut self, n: usize) -> Result<(), usize> {
        for i in 0..n {
            match self.next_flag() {
                Some(Ok(_)) => {}
                _ => return Err(i),
            }
        }
        Ok(())
    }
}

fn walk(
    b: &[u8],
    real: &mut clap_lex::ShortFlags<'_>,
    model: &mut ShortModel,
    ops: &[Op],
    depth: u32,
) -> Result<(), Failure> {
    let bad = |what: &str, detail: String| {
        Failure::new(
            format!("short-walk:{what}"),
            format!("input {:?}: {what}: {detail}", show_bytes(b)),
        )
    };
    for (k, op) in ops.iter().enumerate() {
        match op {
            Op::NextFlag => {
                let r = real.next_flag().map(|r| r.map_err(|o| o.as_encoded_bytes().to_vec()));
                let m = model.next_flag();
                if r != m {
                    return Err(bad("next_flag", format!("step {k}: real {r:?} model {m:?}")));
                }
            }
            Op::NextValue => {
                let r = real.next_value_os().map(|o| o.as_encoded_bytes().to_vec());
                let m = model.next_value();
                if r != m {
                    return Err(bad("next_value_os", format!("step {k}: real {r:?} model {m:?}")));
                }
            }
            Op::AdvanceBy(n) => {
                let r = real.advance_by(*n as usize);
                let m = model.advance_by(*n as usize);
                if r != m {
                    return Err(bad("advance_by", format!("step {k}: real {r:?} model {m:?}")));
                }
            }
            Op::IsEmpty => {
                if real.is_empty() != model.is_empty() {
                    return Err(bad("is_empty", format!("step {k}: real {} model {}", real.is_empty(), model.is_empty())));
                }
            }
            Op::IsNeg => {
                if real.is_negative_number() != model.is_neg() {
                    return Err(bad(
                        "is_negative_number",
                        format!("step {k}: real {} model {}", real.is_negative_number(), model.is_neg()),
                    ));
                }
            }
            Op::Fork => {
                if depth < 2 {
                    let mut r2 = real.clone();
                    let mut m2 = model.clone();
                    walk(b, &mut r2, &mut m2, &ops[k + 1..], depth + 1)?;
                }
            }
        }
    }
    Ok(())
}

pub fn check_bytes(b: &[u8], ops: &[Op], ctx: &mut Ctx) -> Verdict {
    let osb = os(b);
    let raw = RawArgs::new([osb.clone()]);
    let mut cur: ArgCursor = raw.cursor();
    let arg = match raw.next(&mut cur) {
        Some(a) => a,
        None => return Verdict::fail("lex:next-none", "RawArgs::next returned None for a one-item list"),
    };
    let show = || show_bytes(b);
    let utf8 = std::str::from_utf8(b).ok();

    // --- primary shape class by byte predicates
    let escape = b == b"--";
    let stdio = b == b"-";
    let long = b.starts_with(b"--") && !escape;
    let short = b.starts_with(b"-") && !stdio && !b.starts_with(b"--");
    let plain = !b.starts_with(b"-");
    let nclasses = [escape, stdio, long, short, plain].iter().filter(|x| **x).count();
    ensure!(nclasses == 1, "lex:reference-classes", "reference classes not exclusive for {:?}", show());

    ensure!(arg.is_empty() == b.is_empty(), "lex:is_empty", "{:?}", show());
    ensure!(arg.is_escape() == escape, "lex:is_escape", "{:?}", show());
    ensure!(arg.is_stdio() == stdio, "lex:is_stdio", "{:?}", show());
    ensure!(arg.is_long() == long, "lex:is_long", "{:?}: is_long={}", show(), arg.is_long());
    ensure!(arg.is_short() == short, "lex:is_short", "{:?}: is_short={}", show(), arg.is_short());
    ensure!(arg.to_long().is_some() == long, "lex:to_long-some", "{:?}", show());
    ensure!(arg.to_short().is_some() == short, "lex:to_short-some", "{:?}", show());
    ensure!(arg.to_value_os().as_encoded_bytes() == b, "lex:to_value_os", "{:?}", show());
    match (arg.to_value(), utf8) {
        (Ok(s), Some(u)) => ensure!(s == u, "lex:to_value", "{:?}", show()),
        (Err(o), None) => ensure!(o.as_encoded_bytes() == b, "lex:to_value-err", "{:?}", show()),
        _ => return Verdict::fail("lex:to_value-utf8", format!("{:?}: Ok/Err disagrees with UTF-8 validity", show())),
    }
    let neg = utf8.is_some() && b.starts_with(b"-") && ref_is_number(&b[1..]);
    ensure!(
        arg.is_negative_number() == neg,
        "lex:is_negative_number",
        "{:?}: real {} reference {}",
        show(),
        arg.is_negative_number(),
        neg
    );

    // --- long decomposition re-assembles, split at the first '='
    if let Some((name, value)) = arg.to_long() {
        let rest = &b[2..];
        let (rname, rvalue): (&[u8], Option<&[u8]>) = match rest.iter().position(|c| *c == b'=') {
            Some(i) => (&rest[..i], Some(&rest[i + 1..])),
            None => (rest, None),
        };
        let name_bytes: &[u8] = match &name {
            Ok(s) => s.as_bytes(),
            Err(o) => o.as_encoded_bytes(),
        };
        ensure!(name_bytes == rname, "lex:long-name", "{:?}: name {:?}", show(), show_bytes(name_bytes));
        ensure!(
            name.is_ok() == std::str::from_utf8(rname).is_ok(),
            "lex:long-name-utf8",
            "{:?}: name Ok-ness disagrees with UTF-8 validity",
            show()
        );
        ensure!(
            value.map(|v| v.as_encoded_bytes()) == rvalue,
            "lex:long-value",
            "{:?}: value {:?}",
            show(),
            value.map(|v| show_bytes(v.as_encoded_bytes()))
        );
        let mut re = b"--".to_vec();
        re.extend(name_bytes);
        if let Some(v) = value {
            re.push(b'=');
            re.extend(v.as_encoded_bytes());
        }
        ensure!(re == b, "lex:long-reassemble", "{:?} -> {:?}", show(), show_bytes(&re));
        if rvalue.is_some() {
            ctx.label("long-with-equals");
        }
    }

    // --- short cluster walks
    if short {
        let after = &b[1..];
        let model0 = ShortModel::new(after);
        let nchars = std::str::from_utf8(&model0.rest).unwrap().chars().count();
        // canonical walks: k flags, then the remaining value, then nothing more
        for k in 0..=nchars + 1 {
            let mut ops_k = vec![Op::IsEmpty, Op::IsNeg];
            for _ in 0..k {
                ops_k.push(Op::NextFlag);
            }
            ops_k.extend([Op::IsEmpty, Op::IsNeg, Op::NextValue, Op::IsEmpty, Op::NextFlag, Op::NextValue]);
            let mut real = arg.to_short().unwrap();
            let mut model = model0.clone();
            if let Err(f) = walk(b, &mut real, &mut model, &ops_k, 0) {
                return Verdict::Fail(f);
            }
        }
        // iterator view: all flags in order then the tail once
        let collected: Vec<Result<char, Vec<u8>>> = arg
            .to_short()
            .unwrap()
            .map(|r| r.map_err(|o| o.as_encoded_bytes().to_vec()))
            .collect();
        let mut re = Vec::new();
        for (i, item) in collected.iter().enumerate() {
            match item {
                Ok(c) => {
                    let mut buf = [0u8; 4];
                    re.extend(c.encode_utf8(&mut buf).as_bytes());
                }
                Err(t) => {
                    ensure!(i == collected.len() - 1, "short-walk:tail-not-last", "{:?}", show());
                    re.extend(t);
                }
            }
        }
        ensure!(re == after, "short-walk:reassemble", "{:?}: walk gives {:?}", show(), show_bytes(&re));
        // the generated op sequence
        if !ops.is_empty() {
            let mut real = arg.to_short().unwrap();
            let mut model = model0.clone();
            if let Err(f) = walk(b, &mut real, &mut model, ops, 0) {
                return Verdict::Fail(f);
            }
        }
        if nchars >= 2 {
            ctx.label("cluster>=2");
        }
        if model0.tail.is_some() {
            ctx.label("cluster-with-invalid-tail");
        }
    }

    let label = if escape {
        "escape"
    } else if stdio {
        "stdio"
    } else if long {
        "long"
    } else if short {
        "short"
    } else {
        "plain"
    };
    ctx.label(label);
    if neg {
        ctx.label("negative-number");
    }
    let multibyte_or_invalid = b.iter().any(|c| *c >= 0x80);
    if multibyte_or_invalid || b.contains(&b'=') || (short && b.len() >= 3) {
        ctx.nontrivial();
    }
    Verdict::Pass
}

impl Property for Lex {
    type Case = LexCase;
    fn name(&self) -> &'static str {
        "lex"
    }
    fn rule(&self) -> String {
        "byte strings: exhaustive up to length 6 (thorough 7) over the alphabet {- = a 1 . e space C3 A9 E4 FF 80}, \
         then random strings up to 64 bytes (boundary alphabet biased, some arbitrary bytes) with a random sequence of \
         short-iterator operations (next_flag, next_value_os, advance_by, is_empty, is_negative_number, clone-fork); \
         every short-shaped string additionally gets all canonical walks (k flags then value). Oracle: byte-predicate \
         reference for every is_*/to_* method, long re-assembly, short-walk model. Non-trivial: contains a byte >= 0x80 \
         (multi-byte or invalid), or '=', or is a short cluster of >= 2; distinct = distinct (bytes, ops)."
            .into()
    }
    fn budget(&self, tier: Tier) -> Budget {
        Budget {
            cases: tier.pick(4_000_000, 20_000_000),
            tape_len: 400,
        }
    }
    fn decode(&self, t: &mut Tape<'_>) -> LexCase {
        let len = if t.chance(1, 4) { t.range(0, 64) } else { t.range(0, 12) };
        let mut bytes = Vec::with_capacity(len + 2);
        // bias the head towards dashes
        match t.weighted(&[3, 4, 3, 1]) {
            0 => {}
            1 => bytes.push(b'-'),
            2 => bytes.extend(b"--"),
            _ => bytes.extend(b"---"),
        }
        for _ in 0..len {
            let c = match t.weighted(&[8, 2, 2]) {
                0 => *t.pick(BOUNDARY_ALPHABET),
                1 => *t.pick(&[b'0', b'9', b'E', b'+', b'_', b'b', 0xF0, 0x9F, 0x98, 0x80, 0xE2, 0x82, 0xAC, 0xC0, 0xED, 0xA0]),
                _ => t.choose(256) as u8,
            };
            bytes.push(c);
        }
        let ops = t.vec(0, 10, |t| match t.weighted(&[4, 2, 2, 1, 1, 1]) {
            0 => Op::NextFlag,
            1 => Op::NextValue,
            2 => Op::AdvanceBy(t.range(0, 5) as u8),
            3 => Op::IsEmpty,
            4 => Op::IsNeg,
            _ => Op::Fork,
        });
        LexCase { bytes, ops }
    }
    fn run(&self, case: &LexCase, ctx: &mut Ctx) -> Verdict {
        check_bytes(&case.bytes, &case.ops, ctx)
    }
    fn enumerate(&self, tier: Tier, shard: usize, nshards: usize, visit: &mut dyn FnMut(LexCase) -> bool) -> bool {
        let maxlen = tier.pick(6, 7);
        enumerate_strings(BOUNDARY_ALPHABET, maxlen, shard, nshards, &mut |bytes| {
            visit(LexCase {
                bytes: bytes.to_vec(),
                ops: Vec::new(),
            })
        });
        true
    }
}

pub fn check() -> Check {
    Check {
        id: "C13",
        parts: vec![Box::new(Gen(Lex))],
        assumptions: vec![
            "Unix OsStr encoding (arbitrary bytes); the Windows WTF-8 encoding is not exercised".into(),
            "the number language is restated from the recogniser's doc comment: empty | digits [. digits*] [e|E digits+]".into(),
        ],
    }
}
