//! C03 — A successful parse satisfies every declared relation between arguments.

use crate::util::os;
use serde::{Deserialize, Serialize};
use std::collections::HashSet;
use vcore::*;
use vmodel::argv::{gen_argv_broad, gen_argv_subset};
use vmodel::gen::{gen_broad, GenOpts};
use vmodel::observe::{observe, LevelObs, Source};
use vmodel::{build_checked, ArgSpec, Built, CmdSpec, Pred};

#[derive(Serialize, Deserialize, Hash, Clone, Debug)]
pub struct RelCase {
    pub spec: CmdSpec,
    #[serde(with = "crate::util::argv_hex")]
    pub argv: Vec<Vec<u8>>,
}

pub struct Relations;

struct Level<'a> {
    spec: &'a CmdSpec,
    explicit: HashSet<&'a str>,
    obs: &'a LevelObs,
}

impl<'a> Level<'a> {
    fn is_group(&self, id: &str) -> bool {
        self.spec.groups.iter().any(|g| g.id == id)
    }
    fn members(&self, gid: &str) -> Vec<&'a str> {
        let mut m: Vec<&str> = Vec::new();
        if let Some(g) = self.spec.groups.iter().find(|g| g.id == gid) {
            m.extend(g.args.iter().map(|s| s.as_str()));
        }
        for a in &self.spec.args {
            if a.groups.iter().any(|g| g == gid) {
                m.push(a.id.as_str());
            }
        }
        m
    }
    /// explicit presence of an arg or (any member of) a group
    fn present(&self, id: &str) -> bool {
        if self.is_group(id) {
            self.members(id).iter().any(|m| self.explicit.contains(m))
        } else {
            self.explicit.contains(id)
        }
    }
    fn groups_of(&self, arg: &str) -> Vec<&'a str> {
        self.spec
            .groups
            .iter()
            .filter(|g| self.members(&g.id).contains(&arg))
            .map(|g| g.id.as_str())
            .collect()
    }
    fn arg(&self, id: &str) -> Option<&'a ArgSpec> {
        self.spec.args.iter().find(|a| a.id == id)
    }
    /// ids an argument is declared (directly, via its groups, via overrides) to be incompatible with
    fn direct_conflicts(&self, arg: &str) -> Vec<&'a str> {
        let mut out: Vec<&str> = Vec::new();
        if let Some(a) = self.arg(arg) {
            out.extend(a.conflicts_with.iter().map(|s| s.as_str()));
            out.extend(a.overrides_with.iter().map(|s| s.as_str()));
        }
        for gid in self.groups_of(arg) {
            let g = self.spec.groups.iter().find(|g| g.id == gid).unwrap();
            out.extend(g.conflicts_with.iter().map(|s| s.as_str()));
            if !g.multiple {
                out.extend(self.members(gid).into_iter().filter(|m| *m != arg));
            }
        }
        out
    }
    /// does `x` (an arg) stand in a declared conflict with `t` (arg or group), in either direction?
    fn in_conflict(&self, x: &str, t: &str) -> bool {
        if x == t {
            return false;
        }
        let t_ids: Vec<&str> = if self.is_group(t) {
            let mut v = self.members(t);
            v.push(t);
            v
        } else {
            let mut v = vec![t];
            v.extend(self.groups_of(t));
            v
        };
        let mut x_ids = vec![x];
        x_ids.extend(self.groups_of(x));
        // x's side names t's side
        for xi in &x_ids {
            let confl: Vec<&str> = if self.is_group(xi) {
                self.spec.groups.iter().find(|g| g.id == *xi).map(|g| g.conflicts_with.iter().map(|s| s.as_str()).collect()).unwrap_or_default()
            } else {
                self.direct_conflicts(xi)
            };
            if confl.iter().any(|c| t_ids.contains(c)) {
                return true;
            }
        }
        // t's side names x's side
        for ti in &t_ids {
            let confl: Vec<&str> = if self.is_group(ti) {
                self.spec.groups.iter().find(|g| g.id == *ti).map(|g| g.conflicts_with.iter().map(|s| s.as_str()).collect()).unwrap_or_default()
            } else {
                self.direct_conflicts(ti)
            };
            if confl.iter().any(|c| x_ids.contains(c)) {
                return true;
            }
        }
        false
    }
    fn pred_holds(&self, trigger: &str, p: &Pred) -> bool {
        if !self.explicit.contains(trigger) {
            return false;
        }
        match p {
            Pred::IsPresent => true,
            Pred::Equals(v) => {
                let ic = self.arg(trigger).map(|a| a.ignore_case).unwrap_or(false);
                self.obs
                    .arg(trigger)
                    .map(|o| {
                        o.flat().iter().any(|raw| {
                            if ic {
                                String::from_utf8_lossy(raw).to_lowercase() == v.to_lowercase()
                            } else {
                                raw.as_slice() == v.as_bytes()
                            }
                        })
                    })
                    .unwrap_or(false)
            }
        }
    }
}

fn check_level(spec: &CmdSpec, obs: &LevelObs, has_sub: bool, ctx: &mut Ctx) -> Verdict {
    let explicit: HashSet<&str> = obs
        .args
        .iter()
        .filter(|a| matches!(a.source, Some(Source::CommandLine) | Some(Source::Env)))
        .filter(|a| spec.args.iter().any(|s| s.id == a.id))
        .map(|a| a.id.as_str())
        .collect();
    let lv = Level { spec, explicit, obs };
    let where_ = || format!("level {:?} explicit {:?}", spec.name, lv.explicit);

    // ---- conflicts
    let mut relation_touched = false;
    for x in lv.explicit.iter().copied() {
        for y in lv.explicit.iter().copied() {
            if x < y {
                // declared conflicts proper (overrides are not part of this half)
                let declared = {
                    let direct = |a: &str, b: &str| {
                        let mut ids = vec![b];
                        ids.extend(lv.groups_of(b));
                        let mut named: Vec<&str> = lv.arg(a).map(|s| s.conflicts_with.iter().map(|c| c.as_str()).collect()).unwrap_or_default();
                        for gid in lv.groups_of(a) {
                            let g = spec.groups.iter().find(|g| g.id == gid).unwrap();
                            named.extend(g.conflicts_with.iter().map(|s| s.as_str()));
                            if !g.multiple {
                                named.extend(lv.members(gid).into_iter().filter(|m| *m != a));
                            }
                        }
                        named.iter().any(|c| ids.contains(c))
                    };
                    direct(x, y) || direct(y, x)
                };
                if declared {
                    return Verdict::fail(
                        "relations:conflicting-pair-accepted",
                        format!("{}: {:?} and {:?} are declared to conflict but both are present in a successful parse", where_(), x, y),
                    );
                }
            }
        }
        if let Some(a) = lv.arg(x) {
            if a.exclusive && lv.explicit.len() > 1 {
                return Verdict::fail(
                    "relations:exclusive-not-alone",
                    format!("{}: exclusive argument {:?} is present with others", where_(), x),
                );
            }
            if !a.conflicts_with.is_empty() || a.exclusive || !lv.groups_of(x).is_empty() || !a.requires.is_empty() || !a.requires_ifs.is_empty() {
                relation_touched = true;
            }
        }
    }
    for g in &spec.groups {
        if !g.multiple {
            let n = lv.members(&g.id).iter().filter(|m| lv.explicit.contains(*m)).count();
            if n > 1 {
                return Verdict::fail(
                    "relations:non-multiple-group-with-two-members",
                    format!("{}: group {:?} (multiple = false) has {} members present", where_(), g.id, n),
                );
            }
        }
    }

    // ---- requirements
    let exclusive_present = lv.explicit.iter().any(|x| lv.arg(x).map(|a| a.exclusive).unwrap_or(false));
    // args_conflicts_with_subcommands implies subcommand_negates_reqs (set at build time: with a
    // subcommand no argument of this level may be given at all)
    let negated = has_sub && (spec.settings.subcommand_negates_reqs || spec.settings.args_conflicts_with_subcommands);
    let mut excused_seen = false;
    let mut demand = |target: &str, why: String, lv: &Level<'_>| -> Option<Verdict> {
        if lv.present(target) {
            return None;
        }
        // documented exemptions
        let excused = negated || exclusive_present || lv.explicit.iter().any(|x| lv.in_conflict(x, target));
        if excused {
            excused_seen = true;
            return None;
        }
        // a group entry that outlived its members: every member it recorded was later removed by
        // an override, yet the library still counts the group as present
        let stale_group = lv.spec.groups.iter().any(|g| {
            lv.obs
                .arg(&g.id)
                .map(|o| !o.flat().is_empty() && o.flat().iter().all(|m| !lv.explicit.contains(String::from_utf8_lossy(m).as_ref())))
                .unwrap_or(false)
        });
        Some(Verdict::fail(
            if stale_group {
                "relations:missing-required-accepted:group-counted-present-after-its-member-was-overridden"
            } else {
                "relations:missing-required-accepted"
            },
            format!(
                "level {:?} explicit {:?}: {:?} is required ({}) but absent, and nothing excuses it",
                lv.spec.name, lv.explicit, target, why
            ),
        ))
    };
    for a in &spec.args {
        if a.global {
            continue;
        }
        if a.required {
            if let Some(v) = demand(&a.id, "required(true)".into(), &lv) {
                return v;
            }
        }
        if lv.explicit.contains(a.id.as_str()) {
            for t in &a.requires {
                if let Some(v) = demand(t, format!("{:?} requires it", a.id), &lv) {
                    return v;
                }
            }
            // "required through requires" is transitive over unconditional edges (the library's required graph,
            // unroll_arg_requires): what a required argument requires is required as well, whether or not the
            // intermediate argument is itself present or excused
            let mut seen: Vec<&str> = vec![a.id.as_str()];
            let mut stack: Vec<&str> = a.requires.iter().map(|s| s.as_str()).collect();
            while let Some(mid) = stack.pop() {
                if seen.contains(&mid) {
                    continue;
                }
                seen.push(mid);
                if let Some(ma) = lv.arg(mid) {
                    for t in &ma.requires {
                        if let Some(v) = demand(t, format!("{:?} requires {:?}, which requires it", a.id, mid), &lv) {
                            return v;
                        }
                        stack.push(t.as_str());
                    }
                }
            }
            for (p, t) in &a.requires_ifs {
                if lv.pred_holds(&a.id, p) {
                    if let Some(v) = demand(t, format!("{:?} requires_if {:?}", a.id, p), &lv) {
                        return v;
                    }
                }
            }
        }
        if !a.required_if_eq_any.is_empty() && a.required_if_eq_any.iter().any(|(o, v)| lv.pred_holds(o, &Pred::Equals(v.clone()))) {
            if let Some(v) = demand(&a.id, "required_if_eq_any".into(), &lv) {
                return v;
            }
        }
        if !a.required_if_eq_all.is_empty() && a.required_if_eq_all.iter().all(|(o, v)| lv.pred_holds(o, &Pred::Equals(v.clone()))) {
            if let Some(v) = demand(&a.id, "required_if_eq_all".into(), &lv) {
                return v;
            }
        }
        let has_unless = !a.required_unless_present_any.is_empty() || !a.required_unless_present_all.is_empty();
        if has_unless {
            let any_ok = a.required_unless_present_any.iter().any(|o| lv.present(o));
            let all_ok = !a.required_unless_present_all.is_empty() && a.required_unless_present_all.iter().all(|o| lv.present(o));
            if !any_ok && !all_ok {
                if let Some(v) = demand(&a.id, "required_unless_present*".into(), &lv) {
                    return v;
                }
            }
        }
    }
    for g in &spec.groups {
        if g.required {
            if let Some(v) = demand(&g.id, "required group".into(), &lv) {
                return v;
            }
        }
        if lv.present(&g.id) {
            for t in &g.requires {
                if let Some(v) = demand(t, format!("group {:?} requires it", g.id), &lv) {
                    return v;
                }
            }
        }
    }
    if excused_seen {
        ctx.label("required-target-absent-but-excused");
        ctx.nontrivial();
    }
    if lv.explicit.len() >= 2 && relation_touched {
        ctx.label(">=2-explicit-with-relation");
        ctx.nontrivial();
    }
    if lv.explicit.iter().any(|x| obs.arg(x).map(|o| o.source == Some(Source::Env)).unwrap_or(false)) {
        ctx.label("explicit-via-env");
    }
    Verdict::Pass
}

pub fn run_relations(case: &RelCase, ctx: &mut Ctx) -> Verdict {
    let cmd = match build_checked(&case.spec) {
        Built::Ok(c) => c,
        Built::Invalid(_) => return Verdict::Discard("invalid-config"),
        Built::Panic(p) => return Verdict::Fail(Failure::from_panic(&p)),
    };
    let argv: Vec<std::ffi::OsString> = case.argv.iter().map(|b| os(b)).collect();
    let m = match catch(|| cmd.try_get_matches_from(argv)) {
        Err(p) => return Verdict::Fail(Failure::from_panic(&p)),
        Ok(Err(e)) => {
            ctx.label_owned(format!("err:{:?}", e.kind()));
            return Verdict::Pass;
        }
        Ok(Ok(m)) => m,
    };
    ctx.label("ok");
    let obs = observe(&m);
    let mut spec: &CmdSpec = &case.spec;
    let mut level: &LevelObs = &obs;
    loop {
        let has_sub = level.sub.is_some();
        if let Verdict::Fail(f) = check_level(spec, level, has_sub, ctx) {
            return Verdict::Fail(f);
        }
        if spec.settings.allow_external_subcommands {
            // a reported subcommand may be an external one that merely shares a defined name
            break;
        }
        match &level.sub {
            Some((name, sub)) => match spec.subs.iter().find(|s| s.name == *name) {
                Some(s) => {
                    spec = s;
                    level = sub;
                }
                None => break,
            },
            None => break,
        }
    }
    Verdict::Pass
}

impl Property for Relations {
    type Case = RelCase;
    fn name(&self) -> &'static str {
        "relations"
    }
    fn rule(&self) -> String {
        "broad command trees (no globals, ignore_errors off) with random relation graphs over <= 7 args and <= 2 groups per level: \
         conflicts_with (arg/group), group conflicts, non-multiple groups, exclusive, required, requires / requires_if (arg or group \
         targets), required groups, group.requires, required_if_eq_any/_all, required_unless_present_any/_all, overrides, defaults and \
         env on any of them, subcommand_negates_reqs x argv supplying a random subset of each level's args in well-formed occurrences \
         (3/4 of the cases add the statically required ones), or spec-derived random argv. Oracle (only when the parse is Ok, at every \
         level of the subcommand chain, presence = value_source CommandLine or EnvVariable): no declared conflict between two present \
         ids (groups stand for any member, co-members of a non-multiple group conflict), a present exclusive arg is alone, every \
         requirement whose trigger is present and whose predicate holds has its target present unless excused by a present conflicting \
         arg (any direction, via groups, overrides count as conflicts as the library treats them), a present exclusive arg, or a \
         present subcommand with subcommand_negates_reqs. Non-trivial: Ok parse with >= 2 present args and a relation incident to one, \
         or a required target absent and excused; distinct = distinct (spec, argv)."
            .into()
    }
    fn budget(&self, tier: Tier) -> Budget {
        Budget {
            cases: tier.pick(1_500_000, 60_000_000),
            tape_len: 4000,
        }
    }
    fn decode(&self, t: &mut Tape<'_>) -> RelCase {
        let opts = GenOpts {
            globals: false,
            ignore_errors: false,
            help_version_actions: false,
            max_args: 7,
            relation_weight: 2,
            ..GenOpts::default()
        };
        let mut spec = gen_broad(t, &opts);
        spec.settings.multicall = false;
        let argv = if t.chance(5, 6) {
            gen_argv_subset(t, &spec)
        } else {
            gen_argv_broad(t, &spec)
        };
        RelCase { spec, argv }
    }
    fn run(&self, case: &RelCase, ctx: &mut Ctx) -> Verdict {
        run_relations(case, ctx)
    }
    fn json_shrinkable(&self) -> bool {
        true
    }
}

pub fn check() -> Check {
    Check {
        id: "C03",
        parts: vec![Box::new(Gen(Relations))],
        assumptions: vec![
            "presence is read from value_source (CommandLine or EnvVariable); defaults never count".into(),
            "exemptions are granted to every requirement kind (the statement's reading); the library grants fewer, which only makes it \
             stricter"
                .into(),
            "overrides are treated as conflicts for the purpose of excusing a requirement, as the library documents in its code".into(),
            "globals are not generated here: after propagation a level holds values parsed elsewhere, which the relations do not speak about".into(),
        ],
    }
}
